// C01 - Message framing is lossless, self-delimiting and matches the
// documented layout.
//
// Bounded-exhaustive exploration of net.Message.Write / net.Message.Read
// against the independent reference model (internal/refmodel), see DESIGN.md
// section 3, C01. Families:
//
//	layout    every header of H x payload length 0..64: bytes written ==
//	          refmodel bytes; read back from the refmodel bytes unfragmented
//	          and one byte per read, in the three end-of-stream modes
//	frag      headers of Hf x payload length 0..64 x every set of <= k cut
//	          positions x three end-of-stream modes
//	seq       all sequences of length <= L over 4 messages x every set of
//	          <= k cuts x three end-of-stream modes
//	large     boundary payload lengths up to the limit
//	refuse    wrong magic / version / type / over-limit size
//	wfrag     Message.Write through a writer doing short writes at every set
//	          of <= k cut positions; payload length != Header.Size
package main

import (
	"bytes"
	"encoding/hex"
	"fmt"
	"io"
	"os"
	"sort"
	"strings"
	"time"

	"github.com/lugu/qiloop/bus/net"

	"verif/internal/enum"
	"verif/internal/refmodel"
)

var run *enum.Run

var fieldAt = []struct {
	off  int
	name string
}{{0, "magic"}, {4, "id"}, {8, "size"}, {12, "version"}, {14, "type"}, {15, "flags"}, {16, "service"}, {20, "object"}, {24, "action"}, {28, "payload"}}

func fieldOf(off int) string {
	name := "magic"
	for _, f := range fieldAt {
		if off >= f.off {
			name = f.name
		}
	}
	return name
}

func payload(n int) []byte {
	p := make([]byte, n)
	for i := range p {
		p[i] = byte((31*i + 7) % 256)
	}
	return p
}

func toNet(h refmodel.Header) net.Header {
	return net.Header{Magic: net.Magic, ID: h.ID, Size: h.Size, Version: h.Version, Type: h.Type, Flags: h.Flags,
		Service: h.Service, Object: h.Object, Action: h.Action}
}

func fromNet(h net.Header) refmodel.Header {
	return refmodel.Header{ID: h.ID, Size: h.Size, Version: h.Version, Type: h.Type, Flags: h.Flags,
		Service: h.Service, Object: h.Object, Action: h.Action}
}

var boundary32 = []uint32{0, 1, 2, 0x7f, 0x80, 0xff, 0x100, 0xffff, 0x10000, 0x7fffffff, 0x80000000, 0xfffffffe, 0xffffffff, 0x01020304}

// headers is the universe H: all 8 types x flags {0,1,0x80,0xff} x the cross
// product over {0, 0xffffffff, a byte-asymmetric value distinct per field}
// for id/service/object/action, plus each field alone over the 14-value
// boundary set.
func headers() []refmodel.Header {
	var out []refmodel.Header
	asym := [4]uint32{0x01020304, 0x05060708, 0x090a0b0c, 0x0d0e0f10}
	pick := func(f, i int) uint32 {
		switch i {
		case 0:
			return 0
		case 1:
			return 0xffffffff
		}
		return asym[f]
	}
	for typ := uint8(1); typ <= 8; typ++ {
		for _, fl := range []uint8{0, 1, 0x80, 0xff} {
			for a := 0; a < 3; a++ {
				for b := 0; b < 3; b++ {
					for c := 0; c < 3; c++ {
						for d := 0; d < 3; d++ {
							out = append(out, refmodel.Header{ID: pick(0, a), Type: typ, Flags: fl,
								Service: pick(1, b), Object: pick(2, c), Action: pick(3, d)})
						}
					}
				}
			}
		}
	}
	base := refmodel.Header{ID: asym[0], Type: 1, Flags: 0, Service: asym[1], Object: asym[2], Action: asym[3]}
	for f := 0; f < 4; f++ {
		for _, v := range boundary32 {
			h := base
			switch f {
			case 0:
				h.ID = v
			case 1:
				h.Service = v
			case 2:
				h.Object = v
			case 3:
				h.Action = v
			}
			out = append(out, h)
		}
	}
	return out
}

// fragHeaders is Hf: one header per message type with byte-asymmetric
// fields.
func fragHeaders(thorough bool) []refmodel.Header {
	var out []refmodel.Header
	for typ := uint8(1); typ <= 8; typ++ {
		out = append(out, refmodel.Header{ID: 0x01020304 + uint32(typ), Type: typ, Flags: typ & 1,
			Service: 0x05060708, Object: 0x090a0b0c, Action: 0x0d0e0f10})
	}
	return out
}

func zone(cuts []int, bounds []int) string {
	// bounds: start offsets of the messages in the stream plus the total
	if len(cuts) == 0 {
		return "nocut"
	}
	set := map[string]bool{}
	for _, c := range cuts {
		z := "payload"
		for i := 0; i+1 < len(bounds); i++ {
			if c >= bounds[i] && c < bounds[i+1] {
				rel := c - bounds[i]
				switch {
				case rel == 0:
					z = "msg-boundary"
				case rel < 28:
					z = "header"
				case rel == 28:
					z = "header-end"
				}
			}
		}
		set[z] = true
	}
	var zs []string
	for z := range set {
		zs = append(zs, z)
	}
	sort.Strings(zs)
	return "cut-in-" + strings.Join(zs, "+")
}

type readCase struct {
	stream []byte
	msgs   [][]byte // refmodel encoding of each message of the stream
	hdrs   []refmodel.Header
	cuts   []int
	mode   enum.EOFMode
	chunk  int
	// reuse: every message of the sequence is read into the same Message
	// value (as a caller looping over a connection would do)
	reuse bool
}

// readAll reads len(msgs) messages through a fragmenting reader and returns
// "" when everything the property demands holds, or the failing clause.
func readAll(rd *enum.FragReader, c *readCase) (clause string, detail string) {
	rd.Reset(c.stream, c.cuts, c.mode, c.chunk)
	consumed := 0
	var shared net.Message
	for i, enc := range c.msgs {
		var fresh net.Message
		mp := &fresh
		if c.reuse {
			mp = &shared
		}
		err := mp.Read(rd)
		m := *mp
		consumed += len(enc)
		if err != nil {
			return "error", fmt.Sprintf("message %d: Read returned %v", i, err)
		}
		got := fromNet(m.Header)
		if m.Header.Magic != net.Magic {
			return "field-magic", fmt.Sprintf("message %d: magic %#x", i, m.Header.Magic)
		}
		want := c.hdrs[i]
		want.Size = uint32(len(enc) - 28)
		if got != want {
			ge, we := refmodel.EncodeHeader(got), refmodel.EncodeHeader(want)
			for k := range ge {
				if ge[k] != we[k] {
					return "field-" + fieldOf(k), fmt.Sprintf("message %d: header read %+v, written %+v", i, got, want)
				}
			}
		}
		if !bytes.Equal(m.Payload, enc[28:]) {
			return "payload-differs", fmt.Sprintf("message %d: payload read %d bytes %s, written %d bytes", i, len(m.Payload), hexHead(m.Payload), len(enc)-28)
		}
		if rd.Pos() != consumed {
			k := "over"
			if rd.Pos() < consumed {
				k = "under"
			}
			return "consumed-" + k, fmt.Sprintf("message %d: reader position %d after the message, expected exactly %d", i, rd.Pos(), consumed)
		}
	}
	return "", ""
}

func hexHead(b []byte) string {
	if len(b) > 48 {
		return hex.EncodeToString(b[:48]) + "..."
	}
	return hex.EncodeToString(b)
}

func (c *readCase) replay(clause, detail string) map[string]interface{} {
	return map[string]interface{}{
		"entry": "net.Message.Read", "stream_hex": hexHead(c.stream), "stream_len": len(c.stream),
		"messages": len(c.msgs), "cuts": c.cuts, "eof_mode": c.mode.String(), "chunk": c.chunk,
		"observed": detail, "expected": "every message read back identical to the one written, reader position exactly at the end of each message", "clause": clause,
	}
}

func (c *readCase) clone() *readCase {
	d := *c
	d.cuts = append([]int(nil), c.cuts...)
	return &d
}

func bounds(msgs [][]byte) []int {
	b := []int{0}
	for _, m := range msgs {
		b = append(b, b[len(b)-1]+len(m))
	}
	return b
}

func failsWith(c *readCase, clause string) bool {
	cl, _ := readAll(enum.NewFragReader(nil, nil, 0, 0), c)
	return cl == clause
}

// attribute reduces a failing read case by experiment, so that one defect
// gets one fingerprint however many deliveries expose it:
//  1. if the same stream fails when delivered unfragmented with a separate
//     EOF, the delivery is irrelevant ("any-delivery");
//  2. else if it fails unfragmented in the same end-of-stream mode, only the
//     mode matters;
//  3. else the cut set is minimised (cuts are dropped while the failure
//     persists) and the zone of the remaining cuts is reported, together
//     with the end-of-stream mode only if the failure disappears with a
//     separate EOF;
//  4. a failing sequence is reduced to a single message when one of its
//     messages fails alone under the projected delivery.
func attribute(c *readCase, clause string) (string, *readCase) {
	cur := c.clone()
	if len(cur.msgs) > 1 {
		b := bounds(cur.msgs)
		for i := range cur.msgs {
			one := &readCase{stream: cur.msgs[i], msgs: [][]byte{cur.msgs[i]}, hdrs: []refmodel.Header{cur.hdrs[i]}, mode: cur.mode, chunk: cur.chunk}
			for _, ct := range cur.cuts {
				if ct > b[i] && ct < b[i+1] {
					one.cuts = append(one.cuts, ct-b[i])
				}
			}
			if i+1 < len(cur.msgs) && cur.mode != enum.NoEOF {
				one.mode = enum.NoEOF
			}
			if failsWith(one, clause) {
				cur = one
				break
			}
		}
	}
	msgs := "msgs=1"
	if len(cur.msgs) > 1 {
		msgs = "msgs=seq"
	}
	size := "payload=small"
	for _, m := range cur.msgs {
		if len(m)-28 == int(net.MaxPayloadSize) {
			size = "payload=limit"
		} else if len(m)-28 > 64 && size == "payload=small" {
			size = "payload=large"
		}
	}
	try := cur.clone()
	try.cuts, try.chunk, try.mode = nil, 0, enum.EOFSeparate
	if failsWith(try, clause) {
		return "any-delivery/" + size + "/" + msgs, try
	}
	try = cur.clone()
	try.cuts, try.chunk = nil, 0
	if failsWith(try, clause) {
		return "unfragmented/" + try.mode.String() + "/" + size + "/" + msgs, try
	}
	if cur.chunk == 0 {
		for again := true; again; {
			again = false
			for i := range cur.cuts {
				t := cur.clone()
				t.cuts = append(append([]int(nil), cur.cuts[:i]...), cur.cuts[i+1:]...)
				if failsWith(t, clause) {
					cur, again = t, true
					break
				}
			}
		}
	}
	z := zone(cur.cuts, bounds(cur.msgs))
	if cur.chunk > 0 {
		z = fmt.Sprintf("chunk=%d", cur.chunk)
	}
	try = cur.clone()
	try.mode = enum.EOFSeparate
	if failsWith(try, clause) {
		return z + "/" + size + "/" + msgs, try
	}
	return z + "/" + cur.mode.String() + "/" + size + "/" + msgs, cur
}

// checkRead evaluates one read case and files a violation if needed.
func checkRead(family string, rd *enum.FragReader, c *readCase) string {
	clause, _ := readAll(rd, c)
	if clause == "" {
		return "ok"
	}
	detail, min := attribute(c, clause)
	fp := fmt.Sprintf("read/%s/%s", clause, detail)
	if c.reuse {
		// only reached when the same case passes with fresh values
		fp += "/same-Message-value-reused"
	}
	rank := fmt.Sprintf("%09d|%02d|%v|%d", len(min.stream), len(min.cuts), min.cuts, min.mode)
	if run.Fail(fp, rank) {
		_, det := readAll(enum.NewFragReader(nil, nil, 0, 0), min)
		run.Keep(fp, rank, fmt.Sprintf("net.Message.Read over a %d-byte stream (%d message(s), cuts %v, %s): %s", len(min.stream), len(min.msgs), min.cuts, min.mode, det),
			min.replay(clause, det), func() bool { return failsWith(min, clause) })
	}
	return clause
}

// writeMsg serialises with the repository's writer.
func writeMsg(h refmodel.Header, p []byte, w io.Writer) error {
	m := net.NewMessage(toNet(h), p)
	return m.Write(w)
}

func familyLayout(hs []refmodel.Header) {
	fam := run.Family("layout")
	maxLen := 64
	done, all := run.Parallel(len(hs), func(i int) {
		h := hs[i]
		rd := enum.NewFragReader(nil, nil, 0, 0)
		local := map[string]int{}
		for n := 0; n <= maxLen; n++ {
			p := payload(n)
			want := refmodel.EncodeMessage(h, p)
			var buf bytes.Buffer
			err := writeMsg(h, p, &buf)
			run.Eval(fam, 1)
			if err != nil || !bytes.Equal(buf.Bytes(), want) {
				clause, det := "error", fmt.Sprint(err)
				if err == nil {
					got := buf.Bytes()
					clause = "length"
					for k := 0; k < len(got) && k < len(want); k++ {
						if got[k] != want[k] {
							clause = "field-" + fieldOf(k)
							break
						}
					}
					det = fmt.Sprintf("wrote %s, documented layout %s", hexHead(got), hexHead(want))
				}
				fp := "write/layout/" + clause
				hh, pp := h, p
				run.Violation(fp, fmt.Sprintf("%09d|%+v", n, h),
					fmt.Sprintf("net.Message.Write of header %+v with a %d-byte payload: %s", h, n, det),
					map[string]interface{}{"entry": "net.Message.Write", "header": fmt.Sprintf("%+v", h), "payload_len": n, "observed": det,
						"expected_hex": hexHead(want)},
					func() bool {
						var b bytes.Buffer
						e := writeMsg(hh, pp, &b)
						return e != nil || !bytes.Equal(b.Bytes(), refmodel.EncodeMessage(hh, pp))
					})
			}
			c := &readCase{stream: want, msgs: [][]byte{want}, hdrs: []refmodel.Header{h}}
			for _, mode := range enum.EOFModes {
				for _, chunk := range []int{0, 1} {
					c.mode, c.chunk = mode, chunk
					out := checkRead("layout", rd, c)
					run.Eval(fam, 1)
					lb := "len0"
					if n == 1 {
						lb = "len1"
					} else if n > 1 {
						lb = "len2-64"
					}
					local[fmt.Sprintf("layout|type%d|flags%#x|%s|%s|chunk%d|%s", h.Type, h.Flags, lb, mode, chunk, out)]++
				}
			}
		}
		run.DistinctSet(local)
	})
	if !all {
		run.Note("layout: %d of %d headers completed before the deadline", done, len(hs))
	}
	run.Sample(12, map[string]interface{}{"family": "layout", "header": fmt.Sprintf("%+v", hs[len(hs)/2]), "payload_lens": "0..64",
		"wire_hex_len5": hex.EncodeToString(refmodel.EncodeMessage(hs[len(hs)/2], payload(5)))})
}

type fragItem struct {
	h refmodel.Header
	n int
}

func shortsBucket(s int) string {
	if s >= 3 {
		return "3+"
	}
	return fmt.Sprint(s)
}

func familyFrag(hs []refmodel.Header, k int) (cutsets int64) {
	fam := run.Family("frag")
	var items []fragItem
	for n := 0; n <= 64; n++ {
		for _, h := range hs {
			items = append(items, fragItem{h, n})
		}
	}
	var total int64
	for _, it := range items {
		total += int64(enum.CountCutSets(28+it.n, k)) * 3
	}
	var completedSets int64
	counts := make([]int64, len(items))
	done, all := run.Parallel(len(items), func(i int) {
		it := items[i]
		enc := refmodel.EncodeMessage(it.h, payload(it.n))
		rd := enum.NewFragReader(nil, nil, 0, 0)
		c := &readCase{stream: enc, msgs: [][]byte{enc}, hdrs: []refmodel.Header{it.h}}
		local := map[string]int{}
		var n int64
		for _, mode := range enum.EOFModes {
			c.mode = mode
			iter := 0
			enum.CutSets(len(enc), k, func(cuts []int) bool {
				c.cuts = cuts
				out := checkRead("frag", rd, c)
				n++
				local[fmt.Sprintf("frag|type%d|%s|shorts%s|%s|%s", it.h.Type, mode, shortsBucket(rd.Shorts), zone(cuts, []int{0, len(enc)}), out)]++
				iter++
				return iter&0xfff != 0 || !run.Expired()
			})
		}
		counts[i] = n
		run.Eval(fam, int(n))
		run.DistinctSet(local)
	})
	for _, n := range counts {
		completedSets += n
	}
	if !all || run.TimedOut() {
		run.Note("frag: %d of %d (header, payload length) items and %d of %d (cut set, eof mode) cases completed before the deadline (items are ordered by payload length)", done, len(items), completedSets, total)
	}
	run.Sample(12, map[string]interface{}{"family": "frag", "header": fmt.Sprintf("%+v", hs[0]), "payload_len": 5, "cuts": []int{3, 30}, "eof_mode": "data+EOF",
		"meaning": "reads may not cross offsets 3 and 30; the read returning the last byte also returns io.EOF"})
	return completedSets
}

func seqMessages() ([]refmodel.Header, [][]byte) {
	lens := []int{0, 1, 5, 40}
	var hs []refmodel.Header
	var encs [][]byte
	for i, n := range lens {
		h := refmodel.Header{ID: 0x11223300 + uint32(i), Type: uint8(1 + 2*i), Flags: uint8(i & 1), Service: 0xa0a1a2a3 + uint32(i),
			Object: 0xb0b1b2b3 - uint32(i), Action: 0xc0c1c2c3 ^ uint32(i)}
		hs = append(hs, h)
		p := payload(n)
		for j := range p {
			p[j] ^= byte(0x40 * i)
		}
		encs = append(encs, refmodel.EncodeMessage(h, p))
	}
	return hs, encs
}

func familySeq(maxLen, k int) {
	fam := run.Family("seq")
	hs, encs := seqMessages()
	var seqs [][]int
	var rec func(prefix []int)
	rec = func(prefix []int) {
		if len(prefix) > 0 {
			seqs = append(seqs, append([]int(nil), prefix...))
		}
		if len(prefix) == maxLen {
			return
		}
		for i := range encs {
			rec(append(prefix, i))
		}
	}
	rec(nil)
	sort.SliceStable(seqs, func(a, b int) bool { return len(seqs[a]) < len(seqs[b]) })
	var total, completed int64
	counts := make([]int64, len(seqs))
	for _, s := range seqs {
		n := 0
		for _, i := range s {
			n += len(encs[i])
		}
		total += int64(enum.CountCutSets(n, k)) * 3
	}
	done, all := run.Parallel(len(seqs), func(si int) {
		s := seqs[si]
		c := &readCase{}
		var wbuf bytes.Buffer
		for _, i := range s {
			c.msgs = append(c.msgs, encs[i])
			c.hdrs = append(c.hdrs, hs[i])
			c.stream = append(c.stream, encs[i]...)
			// the writer side of "written back-to-back"
			if err := writeMsg(hs[i], encs[i][28:], &wbuf); err != nil {
				run.Violation("write/seq/error", fmt.Sprintf("%09d", len(s)), fmt.Sprintf("Message.Write in a sequence failed: %v", err), nil, nil)
			}
		}
		if !bytes.Equal(wbuf.Bytes(), c.stream) {
			seq := append([]int(nil), s...)
			run.Violation("write/seq/bytes-differ", fmt.Sprintf("%09d|%v", len(c.stream), s),
				fmt.Sprintf("messages %v written back-to-back give %s, documented %s", s, hexHead(wbuf.Bytes()), hexHead(c.stream)),
				map[string]interface{}{"sequence": seq}, nil)
		}
		rd := enum.NewFragReader(nil, nil, 0, 0)
		bnd := bounds(c.msgs)
		local := map[string]int{}
		var n int64
		for _, mode := range enum.EOFModes {
			c.mode = mode
			iter := 0
			enum.CutSets(len(c.stream), k, func(cuts []int) bool {
				c.cuts = cuts
				out := checkRead("seq", rd, c)
				n++
				local[fmt.Sprintf("seq|len%d|%s|shorts%s|%s|%s", len(s), mode, shortsBucket(rd.Shorts), zone(cuts, bnd), out)]++
				iter++
				return iter&0xfff != 0 || !run.Expired()
			})
		}
		// the same sequences read into ONE Message value, unfragmented, in
		// each end-of-stream mode (a fresh value per message is used above)
		if len(s) >= 2 {
			c.reuse, c.cuts = true, nil
			for _, mode := range enum.EOFModes {
				c.mode = mode
				fresh := c.clone()
				fresh.reuse = false
				if cl, _ := readAll(rd, fresh); cl != "" {
					continue // fails anyway: reported by the loop above
				}
				out := checkRead("seq", rd, c)
				n++
				local[fmt.Sprintf("seq-reused|len%d|%s|%s", len(s), mode, out)]++
			}
			c.reuse = false
		}
		counts[si] = n
		run.Eval(fam, int(n))
		run.DistinctSet(local)
	})
	for _, n := range counts {
		completed += n
	}
	if !all || run.TimedOut() {
		run.Note("seq: %d of %d sequences and %d of %d (cut set, eof mode) cases completed before the deadline (sequences ordered by length)", done, len(seqs), completed, total)
	}
	run.Sample(12, map[string]interface{}{"family": "seq", "sequence_payload_lens": []int{5, 0, 40}, "cuts": []int{28, 61}, "eof_mode": "more-follows"})
}

func familyLarge(thorough bool) {
	fam := run.Family("large")
	limit := int(net.MaxPayloadSize)
	lens := []int{255, 256, 257, 4095, 4096, 65535, 65536, 1 << 20, limit - 1, limit}
	h := refmodel.Header{ID: 0x01020304, Type: 2, Flags: 1, Service: 0x05060708, Object: 0x090a0b0c, Action: 0x0d0e0f10}
	run.Parallel(len(lens), func(i int) {
		n := lens[i]
		p := payload(n)
		want := refmodel.EncodeMessage(h, p)
		var buf bytes.Buffer
		err := writeMsg(h, p, &buf)
		run.Eval(fam, 1)
		if err != nil || !bytes.Equal(buf.Bytes(), want) {
			clause := "bytes-differ"
			if err != nil {
				clause = "error"
			}
			which := "below-limit"
			if n == limit {
				which = "at-limit"
			}
			run.Violation("write/large/"+clause+"/"+which, fmt.Sprintf("%09d", n),
				fmt.Sprintf("net.Message.Write with a %d-byte payload (limit %d): err=%v", n, limit, err),
				map[string]interface{}{"payload_len": n, "limit": limit}, func() bool {
					var b bytes.Buffer
					e := writeMsg(h, p, &b)
					return e != nil || !bytes.Equal(b.Bytes(), want)
				})
		}
		rd := enum.NewFragReader(nil, nil, 0, 0)
		c := &readCase{stream: want, msgs: [][]byte{want}, hdrs: []refmodel.Header{h}}
		var cutsets [][]int
		cutsets = append(cutsets, nil)
		for _, cpos := range []int{1, 27, 28, 29, 28 + n/2, 28 + n - 1} {
			if cpos > 0 && cpos < len(want) {
				cutsets = append(cutsets, []int{cpos})
			}
		}
		cutsets = append(cutsets, []int{27, 29}, []int{29, 28 + n - 1})
		chunks := []int{0, 4096}
		if thorough || n <= 65536 {
			chunks = append(chunks, 1, 1000)
		}
		local := map[string]int{}
		for _, mode := range enum.EOFModes {
			for _, cs := range cutsets {
				for _, ch := range chunks {
					if ch != 0 && len(cs) > 0 {
						continue
					}
					if run.Expired() {
						return
					}
					c.mode, c.cuts, c.chunk = mode, cs, ch
					out := checkRead("large", rd, c)
					run.Eval(fam, 1)
					local[fmt.Sprintf("large|len%d|%s|chunk%d|cuts%d|%s", n, mode, ch, len(cs), out)]++
				}
			}
		}
		run.DistinctSet(local)
	})
	run.Sample(12, map[string]interface{}{"family": "large", "payload_lens": lens, "limit": limit})
}

type refusal struct {
	name string
	raw  []byte
}

func refusals() []refusal {
	base := refmodel.Header{ID: 0x01020304, Type: 1, Service: 0x05060708, Object: 0x090a0b0c, Action: 0x0d0e0f10}
	limit := uint32(net.MaxPayloadSize)
	var out []refusal
	good := func(size uint32) []byte {
		h := base
		h.Size = size
		return refmodel.EncodeHeader(h)
	}
	// every single-byte corruption of the magic: each of the 4 bytes
	// replaced by 0x00, 0xff, its value +1 and its bit-flipped low bit
	for i := 0; i < 4; i++ {
		orig := good(5)[i]
		for _, v := range []byte{0x00, 0xff, orig + 1, orig ^ 1, orig ^ 0x80} {
			if v == orig {
				continue
			}
			b := good(5)
			b[i] = v
			out = append(out, refusal{fmt.Sprintf("magic/byte%d", i), b})
		}
	}
	le := good(5)
	le[0], le[1], le[2], le[3] = 0x42, 0xad, 0xde, 0x42 // 0x42dead42 in little endian
	out = append(out, refusal{"magic/little-endian", le})
	for _, v := range []uint16{1, 0x100, 0xffff} {
		b := good(5)
		b[12], b[13] = byte(v), byte(v>>8)
		out = append(out, refusal{fmt.Sprintf("version/%#x", v), b})
	}
	for _, v := range []uint8{0, 9, 255} {
		b := good(5)
		b[14] = v
		out = append(out, refusal{fmt.Sprintf("type/%d", v), b})
	}
	for _, v := range []uint32{limit + 1, 0x7fffffff, 0x80000000, 0xffffffff} {
		out = append(out, refusal{fmt.Sprintf("size/%#x", v), good(v)})
	}
	return out
}

func familyRefuse() {
	fam := run.Family("refuse")
	for _, rf := range refusals() {
		for _, follow := range []int{0, 5, 64} {
			for _, chunk := range []int{0, 1} {
				stream := append(append([]byte(nil), rf.raw...), payload(follow)...)
				try := func() (string, string) {
					rd := enum.NewFragReader(stream, nil, enum.EOFSeparate, chunk)
					var m net.Message
					err := m.Read(rd)
					if err == nil {
						return "accepted", fmt.Sprintf("Read returned nil (header %+v, %d payload bytes)", m.Header, len(m.Payload))
					}
					if rd.Pos() > 28 {
						return "payload-read", fmt.Sprintf("Read refused (%v) but only after taking %d bytes from the stream (header is 28)", err, rd.Pos())
					}
					return "", ""
				}
				clause, det := try()
				run.Eval(fam, 1)
				run.Distinct(fmt.Sprintf("refuse|%s|follow%d|chunk%d|%s", strings.SplitN(rf.name, "/", 2)[0], follow, chunk, clause))
				if clause != "" {
					kind := strings.SplitN(rf.name, "/", 2)[0]
					run.Violation("read/refuse/"+kind+"/"+clause, fmt.Sprintf("%s|%03d|%d", rf.name, follow, chunk),
						fmt.Sprintf("header with bad %s followed by %d bytes: %s", rf.name, follow, det),
						map[string]interface{}{"entry": "net.Message.Read", "header_hex": hex.EncodeToString(rf.raw), "following_bytes": follow, "chunk": chunk,
							"observed": det, "expected": "an error, with at most 28 bytes taken from the stream"},
						func() bool { c, _ := try(); return c == clause })
				}
			}
		}
	}
	run.Sample(12, map[string]interface{}{"family": "refuse", "example": "magic in little endian 42adde42..., version 0x100, type 9, size limit+1"})
}

func familyWriteFrag(k int, thorough bool) {
	fam := run.Family("wfrag")
	h := refmodel.Header{ID: 0x01020304, Type: 5, Flags: 1, Service: 0x05060708, Object: 0x090a0b0c, Action: 0x0d0e0f10}
	lens := []int{0, 1, 2, 5, 17, 40}
	if thorough {
		lens = nil
		for n := 0; n <= 48; n++ {
			lens = append(lens, n)
		}
	}
	run.Parallel(len(lens), func(i int) {
		n := lens[i]
		p := payload(n)
		want := refmodel.EncodeMessage(h, p)
		w := &enum.FragWriter{}
		local := map[string]int{}
		var cnt int
		iter := 0
		enum.CutSets(len(want), k, func(cuts []int) bool {
			w.Reset(cuts)
			err := writeMsg(h, p, w)
			cnt++
			out := "ok"
			if err != nil {
				out = "error"
			} else if !bytes.Equal(w.Buf, want) {
				out = "bytes-differ"
			}
			local[fmt.Sprintf("wfrag|shorts%s|%s|%s", shortsBucket(w.Shorts), zone(cuts, []int{0, len(want)}), out)]++
			if out != "ok" {
				cs := append([]int(nil), cuts...)
				failsW := func(cs []int) bool {
					w2 := &enum.FragWriter{}
					w2.Reset(cs)
					e := writeMsg(h, p, w2)
					return e != nil || !bytes.Equal(w2.Buf, want)
				}
				for again := true; again; {
					again = false
					for i := range cs {
						t := append(append([]int(nil), cs[:i]...), cs[i+1:]...)
						if failsW(t) {
							cs, again = t, true
							break
						}
					}
				}
				w2 := &enum.FragWriter{}
				w2.Reset(cs)
				err2 := writeMsg(h, p, w2)
				got := hexHead(w2.Buf)
				fp := "write/short-writes/" + out + "/" + zone(cs, []int{0, len(want)})
				rank := fmt.Sprintf("%09d|%02d|%v", len(want), len(cs), cs)
				if run.Fail(fp, rank) {
					run.Keep(fp, rank, fmt.Sprintf("net.Message.Write of a %d-byte message through a writer that accepts the bytes in pieces ending at %v: err=%v, stream %s, expected %s", len(want), cs, err2, got, hexHead(want)),
						map[string]interface{}{"entry": "net.Message.Write", "payload_len": n, "short_write_cuts": cs, "observed_hex": got, "expected_hex": hexHead(want)},
						func() bool { return failsW(cs) })
				}
			}
			iter++
			return iter&0xfff != 0 || !run.Expired()
		})
		run.Eval(fam, cnt)
		run.DistinctSet(local)
	})
	// payload length different from Header.Size: if Write succeeds the
	// stream must still be a consistent message (size field == number of
	// payload bytes that follow)
	for _, n := range []int{0, 1, 5} {
		for _, size := range []uint32{0, 1, 4, 6, 0xffffffff} {
			if int(size) == n {
				continue
			}
			hh := toNet(h)
			hh.Size = size
			m := net.Message{Header: hh, Payload: payload(n)}
			var buf bytes.Buffer
			err := m.Write(&buf)
			run.Eval(fam, 1)
			out := "refused"
			if err == nil {
				out = "written-consistent"
				b := buf.Bytes()
				if len(b) < 28 || int(uint32(b[8])|uint32(b[9])<<8|uint32(b[10])<<16|uint32(b[11])<<24) != len(b)-28 {
					out = "written-inconsistent"
					run.Violation("write/size-mismatch/inconsistent-stream", fmt.Sprintf("%03d|%d", n, size),
						fmt.Sprintf("Message.Write with Header.Size=%d and a %d-byte payload succeeded and produced %s", size, n, hexHead(b)),
						map[string]interface{}{"header_size": size, "payload_len": n, "written_hex": hexHead(b)}, nil)
				}
			}
			run.Distinct(fmt.Sprintf("wfrag|size-mismatch|%s", out))
		}
	}
	run.Sample(12, map[string]interface{}{"family": "wfrag", "payload_len": 5, "short_write_cuts": []int{4, 29}})
}

func main() {
	run = enum.NewRun("C01", 38*time.Second, 8*time.Minute)
	thorough := run.Thorough()
	k, seqLen := 2, 3
	if thorough {
		k = 3
	}
	hs := headers()
	// self-check of the oracle: the reference decoder inverts the reference
	// encoder on every header of H
	for _, h := range hs {
		g, err := refmodel.DecodeHeader(refmodel.EncodeHeader(h))
		if err != nil || g != h {
			run.EngineError("refmodel header self-check failed for %+v: %v", h, err)
		}
	}
	familyRefuse()
	familyLayout(hs)
	familyLarge(thorough)
	familyWriteFrag(k, thorough)
	familySeq(seqLen, k)
	fh := fragHeaders(thorough)
	familyFrag(fh, k)

	rule := "cases are enumerated family by family (see the header comment of checks/c01/main.go): " +
		"layout = |H| headers x payload lengths 0..64 x {write, read in 3 end-of-stream modes x {unfragmented, 1 byte per read}}; " +
		"frag = |Hf| headers x payload lengths 0..64 x every set of <= k cut positions among the interior offsets x 3 end-of-stream modes; " +
		"seq = every sequence of length <= L over 4 fixed messages (payload 0,1,5,40) x every set of <= k cuts x 3 modes; " +
		"large = 10 boundary payload lengths up to MaxPayloadSize x cuts around the header/payload boundary x chunked readers; " +
		"refuse = corrupted magic/version/type/size headers x {0,5,64} following bytes; wfrag = short-write patterns with <= k cuts. " +
		"A case class is (family, message type or sequence length, end-of-stream mode, number of short reads actually experienced by the reader (0,1,2,3+), " +
		"zone of the cuts (header / header-end / payload / message boundary), outcome); distinct_nontrivial counts the distinct classes that were executed"
	extra := map[string]interface{}{
		"headers_H": len(hs), "headers_Hf": len(fh), "max_cuts_k": k, "max_sequence_length": seqLen,
		"payload_limit": net.MaxPayloadSize,
	}
	assumptions := []string{
		"(0, nil) reads are excluded from the fragmentations (io.Reader discourages them; the property speaks of fragmentations of the stream)",
		"payload lengths between 65 bytes and the listed boundary lengths are not enumerated",
		"the size limit is the repository constant net.MaxPayloadSize",
		"short writes (n < len(p) with a nil error) are outside the io.Writer contract; they are enumerated because WriteN documents a retry loop",
	}
	os.Exit(run.Finish(rule, true, extra, assumptions))
}
