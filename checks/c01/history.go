// C01 - histories: state kept between two calls of Message.Read /
// Message.Write.
//
// Every other family of this check judges ONE call (or one stream) at a
// time. A history is a short sequence of calls, some of which are meant to
// go wrong (a header that must be refused, a stream that ends inside a
// message, a writer that reports an error), followed or preceded by ordinary
// calls that must behave exactly as if nothing had happened before.
//
// Whatever the repository keeps between two calls lives in the process
// (package variables, sync.Pool...), so histories are executed in FRESH
// PROCESSES: the check binary re-executes itself with "--history <spec>"
// (or "--history -" and a batch of specs on the standard input), with
// GOMAXPROCS=1 and the garbage collector off so that a pooled object put back
// by one call is the one the next call gets. The process runs the operations
// one after the other, judges each one and reports the first that fails.
// Thorough tier: one process per history of length <= 3. Quick tier (and the
// histories of length 4 of the thorough tier): 48 histories back to back per
// process; a history that fails there is re-run from the start alone in a
// fresh process. A failing history is reduced by running shorter
// histories, each alone in its own fresh process; the fingerprint names the
// failing operation and the operations that have to precede it. A history
// that fails only behind the other histories of its batch is confirmed by
// re-running that whole sequence in a fresh process and reported with the
// suffix /depends-on-earlier-calls.
package main

import (
	"bytes"
	"encoding/hex"
	"encoding/json"
	"errors"
	"fmt"
	"io"
	"os"
	"os/exec"
	"runtime"
	"runtime/debug"
	"sort"
	"strconv"
	"strings"
	"sync"
	"sync/atomic"
	"syscall"
	"time"

	"github.com/lugu/qiloop/bus/net"

	"verif/internal/enum"
	"verif/internal/refmodel"
)

// ---------------------------------------------------------------------------
// operations

// A history is written "mode=<m>;<op>;<op>..." where an operation is one of
//
//	R:ok:<j>                     read valid message j (see histMessages)
//	R:ref:<kind>:<size>          read a header that must be refused; kind is
//	                             magic0 magic3 magicLE ver1 ver100 verffff
//	                             type0 type9 type255 (size = announced payload
//	                             size) or sizeL1 sizeMax (size ignored)
//	R:hdr:<kind>:<hex>:<follow>  read the given 28 header bytes, which must be
//	                             refused because of <kind> (magic, version,
//	                             type, size), followed by <follow> bytes
//	R:eof:<cut>:<d|s>            read message 2 (33 bytes) truncated after cut
//	                             bytes; the end of the stream comes with the
//	                             last data (d) or as a separate read (s)
//	W:ok:<j>                     write message j to a healthy writer
//	W:fail:<j>:<n>:<err>:<w|s>   write message j to a writer that accepts n
//	                             bytes (0, 1, 28, m1 = all but one, all) and
//	                             then reports err (eof, closed, other) together
//	                             with the last accepted bytes (w) or on the
//	                             next call (s)
//
// and the mode is
//
//	other   every operation has its own stream object, every read its own
//	        Message value
//	same    consecutive reads share one stream (a refused header is followed
//	        at once by the next message; a stream that ended is replaced), all
//	        writes go to one writer object that recovers after a failure
//	reuse   as other, but every read goes into the same Message value
type hop struct {
	tok  string
	dir  byte // 'R' or 'W'
	kind string
	msg  int
	ref  string
	raw  string
	size uint32
	cut  int
	eofd bool
	n    string
	err  string
	dlv  string
}

func parseOp(tok string) (hop, error) {
	f := strings.Split(tok, ":")
	bad := func() (hop, error) { return hop{}, fmt.Errorf("bad operation %q", tok) }
	if len(f) < 3 {
		return bad()
	}
	o := hop{tok: tok, dir: f[0][0], kind: f[1]}
	atoi := func(s string) int { v, _ := strconv.Atoi(s); return v }
	switch f[0] + ":" + f[1] {
	case "R:ok", "W:ok":
		o.msg = atoi(f[2])
	case "R:ref":
		o.ref = f[2]
		if len(f) > 3 {
			o.size = uint32(atoi(f[3]))
		}
	case "R:hdr":
		// R:hdr:<kind>:<28 bytes in hex>:<number of bytes that follow>
		if len(f) != 5 {
			return bad()
		}
		o.ref, o.raw, o.cut = f[2], f[3], atoi(f[4])
	case "R:eof":
		if len(f) != 4 {
			return bad()
		}
		o.cut, o.eofd = atoi(f[2]), f[3] == "d"
	case "W:fail":
		if len(f) != 6 {
			return bad()
		}
		o.msg, o.n, o.err, o.dlv = atoi(f[2]), f[3], f[4], f[5]
	default:
		return bad()
	}
	return o, nil
}

func parseHistory(spec string) (mode string, ops []hop, err error) {
	parts := strings.Split(spec, ";")
	if len(parts) < 2 || !strings.HasPrefix(parts[0], "mode=") {
		return "", nil, fmt.Errorf("bad history %q", spec)
	}
	mode = strings.TrimPrefix(parts[0], "mode=")
	for _, p := range parts[1:] {
		o, e := parseOp(p)
		if e != nil {
			return "", nil, e
		}
		ops = append(ops, o)
	}
	return mode, ops, nil
}

func histSpec(mode string, toks []string) string {
	return "mode=" + mode + ";" + strings.Join(toks, ";")
}

// class is the coarse name of an operation used in fingerprints.
func (o hop) class() string {
	switch o.dir {
	case 'R':
		switch o.kind {
		case "ok":
			return "valid-message"
		case "ref":
			k := "size"
			switch {
			case strings.HasPrefix(o.ref, "magic"):
				k = "magic"
			case strings.HasPrefix(o.ref, "ver"):
				k = "version"
			case strings.HasPrefix(o.ref, "type"):
				k = "type"
			}
			return "refused-" + k
		case "hdr":
			return "refused-" + o.ref
		case "eof":
			switch {
			case o.cut == 0:
				return "empty-stream"
			case o.cut < 28:
				return "truncated-in-header"
			}
			return "truncated-in-payload"
		}
	case 'W':
		if o.kind == "ok" {
			return "healthy-write"
		}
		e := "err"
		if o.err == "eof" {
			e = "eof"
		}
		at := "mid"
		switch o.n {
		case "0":
			at = "0"
		case "all":
			at = "all"
		}
		return "failed-write(" + e + "@" + at + ")"
	}
	return "?"
}

const histLarge = 70000

// histAddressSpace caps the address space of a history process (3 GiB).
const histAddressSpace = 3 << 30

// histMessages: the four messages of the sequence family plus one above
// 64 KiB.
func histMessages() ([]refmodel.Header, [][]byte) {
	hs, encs := seqMessages()
	h := refmodel.Header{ID: 0x01020304, Type: 2, Flags: 1, Service: 0x05060708, Object: 0x090a0b0c, Action: 0x0d0e0f10}
	hs = append(hs, h)
	encs = append(encs, refmodel.EncodeMessage(h, payload(histLarge)))
	return hs, encs
}

// refusedHeader builds the 28 bytes of a header that must be refused.
func refusedHeader(kind string, size uint32) ([]byte, error) {
	base := refmodel.Header{ID: 0x01020304, Type: 1, Service: 0x05060708, Object: 0x090a0b0c, Action: 0x0d0e0f10, Size: size}
	limit := uint32(net.MaxPayloadSize)
	switch kind {
	case "sizeL1":
		base.Size = limit + 1
	case "sizeMax":
		base.Size = 0xffffffff
	}
	b := refmodel.EncodeHeader(base)
	switch kind {
	case "magic0":
		b[0] ^= 1
	case "magic3":
		b[3] ^= 0x80
	case "magicLE":
		b[0], b[1], b[2], b[3] = 0x42, 0xad, 0xde, 0x42
	case "ver1":
		b[12], b[13] = 1, 0
	case "ver100":
		b[12], b[13] = 0, 1
	case "verffff":
		b[12], b[13] = 0xff, 0xff
	case "type0":
		b[14] = 0
	case "type9":
		b[14] = 9
	case "type255":
		b[14] = 255
	case "sizeL1", "sizeMax":
	default:
		return nil, fmt.Errorf("unknown refusal kind %q", kind)
	}
	return b, nil
}

// ---------------------------------------------------------------------------
// the child: one history in this (fresh) process

type histResult struct {
	Fail   int    `json:"fail"` // index of the first failing operation, -1 = none
	Clause string `json:"clause,omitempty"`
	Detail string `json:"detail,omitempty"`
	Bad    string `json:"bad,omitempty"` // the history itself could not be run (engine error)
	Hist   int    `json:"hist"`          // batch: index of the history that failed, -1 = none
}

var errOther = errors.New("verif: scripted write error")

// scriptWriter accepts budget bytes (all of them if budget < 0), then
// reports err.
type scriptWriter struct {
	buf    []byte
	budget int
	err    error
	with   bool // the error comes together with the last accepted bytes
	failed bool
}

func (w *scriptWriter) arm(budget int, err error, with bool) {
	w.budget, w.err, w.with, w.failed = budget, err, with, false
}

func (w *scriptWriter) Write(p []byte) (int, error) {
	if w.failed {
		return 0, w.err
	}
	if w.budget < 0 || len(p) < w.budget {
		w.buf = append(w.buf, p...)
		if w.budget > 0 {
			w.budget -= len(p)
		}
		return len(p), nil
	}
	n := w.budget
	w.buf = append(w.buf, p[:n]...)
	w.budget = 0
	if w.with || n == 0 {
		w.failed = true
		return n, w.err
	}
	// the error is reported by the next call
	w.budget = 0
	w.with = true
	return n, nil
}

// histChild runs the histories of a batch back to back in this (fresh)
// process and stops at the first one that fails. It prints "HISTORY-BEGIN i"
// before history i and one HISTORY-RESULT line at the end (hist = index of the
// failing history, -1 = none).
func histChild(specs []string) {
	debug.SetGCPercent(-1)
	runtime.GOMAXPROCS(1)
	// a header announcing gigabytes that is not refused makes Read allocate
	// them: the address space of this process is capped, so that this ends as
	// a crash of this process (reported as a violation) and not as memory
	// pressure on the machine
	lim := syscall.Rlimit{Cur: histAddressSpace, Max: histAddressSpace}
	syscall.Setrlimit(syscall.RLIMIT_AS, &lim)
	out := histResult{Fail: -1, Hist: -1}
	for i, spec := range specs {
		fmt.Printf("HISTORY-BEGIN %d\n", i)
		res := runHistory(spec)
		if res.Fail >= 0 || res.Bad != "" {
			out = res
			out.Hist = i
			break
		}
	}
	js, _ := json.Marshal(out)
	fmt.Printf("HISTORY-RESULT %s\n", js)
	os.Exit(0)
}

func runHistory(spec string) histResult {
	mode, ops, err := parseHistory(spec)
	if err != nil {
		return histResult{Fail: -1, Bad: err.Error()}
	}
	hs, encs := histMessages()
	var shared net.Message
	var rd *enum.FragReader // current stream of mode "same"
	rdBase := 0
	wr := &scriptWriter{}
	// mode "same": the content of the stream shared by consecutive reads is
	// laid out up-front
	type seg struct{ first, last int }
	streamOf := map[int]*enum.FragReader{}
	segEnd := map[int]int{} // mode "same": offset in its stream at which the segment of operation i ends
	segBytes := func(o hop) ([]byte, error) {
		switch o.kind {
		case "ok":
			if o.msg < 0 || o.msg >= len(encs) {
				return nil, fmt.Errorf("no message %d", o.msg)
			}
			return encs[o.msg], nil
		case "ref":
			return refusedHeader(o.ref, o.size)
		case "hdr":
			b, err := hex.DecodeString(o.raw)
			if err != nil || len(b) != 28 || o.cut < 0 || o.cut > 1<<20 {
				return nil, fmt.Errorf("bad header operation %s", o.tok)
			}
			return append(b, payload(o.cut)...), nil
		case "eof":
			if o.cut < 0 || o.cut >= len(encs[2]) {
				return nil, fmt.Errorf("cut %d outside message 2", o.cut)
			}
			return encs[2][:o.cut], nil
		}
		return nil, fmt.Errorf("not a read operation: %s", o.tok)
	}
	if mode == "same" {
		var cur []byte
		var members []int
		flush := func(m enum.EOFMode) {
			if len(members) == 0 {
				return
			}
			r := enum.NewFragReader(cur, nil, m, 0)
			for _, i := range members {
				streamOf[i] = r
			}
			cur, members = nil, nil
		}
		for i, o := range ops {
			if o.dir != 'R' {
				continue
			}
			b, e := segBytes(o)
			if e != nil {
				return histResult{Fail: -1, Bad: e.Error()}
			}
			cur = append(cur, b...)
			segEnd[i] = len(cur)
			members = append(members, i)
			if o.kind == "eof" {
				m := enum.EOFSeparate
				if o.eofd {
					m = enum.EOFWithData
				}
				flush(m)
			}
		}
		flush(enum.NoEOF)
	}
	fail := func(i int, clause, format string, args ...interface{}) histResult {
		return histResult{Fail: i, Clause: clause, Detail: fmt.Sprintf("operation %d (%s): ", i, ops[i].tok) + fmt.Sprintf(format, args...)}
	}
	for i, o := range ops {
		// (so that the parent knows which call a dying process was in)
		fmt.Printf("HISTORY-OP %d\n", i)
		switch o.dir {
		case 'R':
			b, e := segBytes(o)
			if e != nil {
				return histResult{Fail: -1, Bad: e.Error()}
			}
			if mode == "same" {
				if streamOf[i] != rd {
					rd, rdBase = streamOf[i], 0
				}
			} else {
				m := enum.NoEOF
				if o.kind == "eof" {
					m = enum.EOFSeparate
					if o.eofd {
						m = enum.EOFWithData
					}
				}
				rd, rdBase = enum.NewFragReader(b, nil, m, 0), 0
			}
			var fresh net.Message
			mp := &fresh
			if mode == "reuse" {
				mp = &shared
			}
			err := mp.Read(rd)
			used := rd.Pos() - rdBase
			rdBase = rd.Pos()
			switch o.kind {
			case "ok":
				if err != nil {
					return fail(i, "error", "Read of a valid %d-byte message returned %v", len(b), err)
				}
				want := hs[o.msg]
				want.Size = uint32(len(b) - 28)
				got := fromNet(mp.Header)
				if mp.Header.Magic != net.Magic {
					return fail(i, "field-magic", "magic read %#x", mp.Header.Magic)
				}
				if got != want {
					ge, we := refmodel.EncodeHeader(got), refmodel.EncodeHeader(want)
					for k := range ge {
						if ge[k] != we[k] {
							return fail(i, "field-"+fieldOf(k), "header read %+v, written %+v", got, want)
						}
					}
				}
				if !bytes.Equal(mp.Payload, b[28:]) {
					return fail(i, "payload-differs", "payload read %d bytes %s, written %d bytes %s", len(mp.Payload), hexHead(mp.Payload), len(b)-28, hexHead(b[28:]))
				}
				if used != len(b) {
					k := "over"
					if used < len(b) {
						k = "under"
					}
					return fail(i, "consumed-"+k, "%d bytes taken from the stream for a %d-byte message", used, len(b))
				}
			case "ref", "hdr":
				if o.kind == "hdr" {
					// the bytes after the header are on the stream but must not be
					// taken (this operation is used alone, in mode "other")
					b = b[:28]
				}
				if err == nil {
					return fail(i, "accepted", "Read returned nil for header %s (accepted as %+v with %d payload bytes)", hex.EncodeToString(b), mp.Header, len(mp.Payload))
				}
				if used > 28 {
					return fail(i, "payload-read", "Read refused (%v) but took %d bytes from the stream (the header is 28)", err, used)
				}
				if mode == "same" {
					// where a refusal leaves the stream is not specified (a
					// reader may stop at the first bad field): the owner of the
					// stream resynchronises at the start of the next message
					if skip := segEnd[i] - rd.Pos(); skip > 0 {
						io.CopyN(io.Discard, rd, int64(skip))
					}
					rdBase = rd.Pos()
				}
			case "eof":
				if err == nil {
					return fail(i, "truncated-accepted", "Read returned nil although the stream ended after %d of %d bytes", o.cut, len(encs[2]))
				}
			}
		case 'W':
			if o.msg < 0 || o.msg >= len(encs) {
				return histResult{Fail: -1, Bad: "no message " + fmt.Sprint(o.msg)}
			}
			enc := encs[o.msg]
			if mode != "same" {
				wr = &scriptWriter{}
			}
			start := len(wr.buf)
			if o.kind == "ok" {
				wr.arm(-1, nil, false)
			} else {
				n := 0
				switch o.n {
				case "m1":
					n = len(enc) - 1
				case "all":
					n = len(enc)
				default:
					n, _ = strconv.Atoi(o.n)
				}
				if n > len(enc) {
					return histResult{Fail: -1, Bad: "write budget beyond the message: " + o.tok}
				}
				var e error
				switch o.err {
				case "eof":
					e = io.EOF
				case "closed":
					e = io.ErrClosedPipe
				default:
					e = errOther
				}
				wr.arm(n, e, o.dlv == "w")
			}
			err := writeMsg(hs[o.msg], enc[28:], wr)
			got := wr.buf[start:]
			if o.kind == "ok" {
				if err != nil {
					return fail(i, "error", "Write of a %d-byte message to a healthy writer returned %v", len(enc), err)
				}
				if !bytes.Equal(got, enc) {
					extra := ""
					if len(got) > len(enc) && bytes.HasSuffix(got, enc) {
						extra = fmt.Sprintf(" (the message is preceded by %d bytes that do not belong to it)", len(got)-len(enc))
					}
					return fail(i, "bytes-differ", "the writer received %d bytes %s, documented %d bytes %s%s", len(got), hexHead(got), len(enc), hexHead(enc), extra)
				}
			} else {
				if len(got) > len(enc) || !bytes.Equal(got, enc[:len(got)]) {
					return fail(i, "bytes-differ", "the failing writer accepted %d bytes %s which are not the beginning of the documented %s", len(got), hexHead(got), hexHead(enc))
				}
				if err == nil && len(got) < len(enc) {
					return fail(i, "failure-not-reported", "Write returned nil although the writer took %d of %d bytes and reported an error", len(got), len(enc))
				}
			}
		default:
			return histResult{Fail: -1, Bad: "bad direction in " + o.tok}
		}
	}
	return histResult{Fail: -1}
}

// ---------------------------------------------------------------------------
// the parent: enumeration, fresh processes, reduction

type histRunner struct {
	self    string
	mu      sync.Mutex
	cache   map[string]*histOutcome
	spawned int64
	// provisional key -> final fingerprint (so that a defect that makes a
	// thousand histories fail is reduced a few times only)
	keyFP map[string]string
	keyMu sync.Mutex
}

type histOutcome struct {
	res     histResult
	passed  int    // number of histories of the batch that passed before the end / the failure
	crash   string // the child died or hung: what happened
	crashOp int    // ... and in which call of the history (-1 = unknown)
	engine  string // the child could not be run at all
}

// runFresh executes a batch of histories back to back in one fresh process
// (the specs go through a file when they are many). The outcome says how many
// histories passed and, if one failed, which and how.
func (hr *histRunner) runFresh(specs ...string) *histOutcome {
	atomic.AddInt64(&hr.spawned, 1)
	args := []string{"--history"}
	var stdin io.Reader
	if len(specs) == 1 {
		args = append(args, specs[0])
	} else {
		args = append(args, "-")
		stdin = strings.NewReader(strings.Join(specs, "\n") + "\n")
	}
	cmd := exec.Command(hr.self, args...)
	cmd.Env = append(os.Environ(), "GOMAXPROCS=1", "GOTRACEBACK=single")
	cmd.Stdin = stdin
	var out, errb bytes.Buffer
	cmd.Stdout, cmd.Stderr = &out, &errb
	if err := cmd.Start(); err != nil {
		return &histOutcome{engine: "cannot start " + hr.self + ": " + err.Error()}
	}
	done := make(chan error, 1)
	go func() { done <- cmd.Wait() }()
	limit := 60 * time.Second
	hung := false
	select {
	case <-done:
	case <-time.After(limit):
		cmd.Process.Kill()
		<-done
		hung = true
	}
	begun, op := -1, -1
	for _, line := range strings.Split(out.String(), "\n") {
		if strings.HasPrefix(line, "HISTORY-BEGIN ") {
			begun, _ = strconv.Atoi(strings.TrimPrefix(line, "HISTORY-BEGIN "))
			op = -1
		}
		if strings.HasPrefix(line, "HISTORY-OP ") {
			op, _ = strconv.Atoi(strings.TrimPrefix(line, "HISTORY-OP "))
		}
		if strings.HasPrefix(line, "HISTORY-RESULT ") && !hung {
			var r histResult
			if err := json.Unmarshal([]byte(strings.TrimPrefix(line, "HISTORY-RESULT ")), &r); err != nil {
				return &histOutcome{engine: "unreadable result line: " + line}
			}
			if r.Bad != "" {
				return &histOutcome{engine: r.Bad}
			}
			o := &histOutcome{res: r, passed: len(specs)}
			if r.Hist >= 0 {
				o.passed = r.Hist
			}
			return o
		}
	}
	if begun < 0 {
		if hung {
			return &histOutcome{engine: fmt.Sprintf("the history process did not start its first history within %v", limit)}
		}
		return &histOutcome{engine: "the history process ended before its first history: " + strings.TrimSpace(errb.String())}
	}
	// the process died or hung inside history number begun
	if hung {
		return &histOutcome{passed: begun, crashOp: op, crash: fmt.Sprintf("hang: the history did not end within %v", limit), res: histResult{Fail: -2, Hist: begun}}
	}
	tail := errb.String()
	if len(tail) > 1500 {
		tail = tail[:1500]
	}
	first := strings.SplitN(strings.TrimSpace(tail), "\n", 2)[0]
	return &histOutcome{passed: begun, crashOp: op, crash: "process-crash: " + first, res: histResult{Fail: -2, Detail: tail, Hist: begun}}
}

// cached runs a history once per check run (used by the reduction).
func (hr *histRunner) cached(spec string) *histOutcome {
	hr.mu.Lock()
	o, ok := hr.cache[spec]
	hr.mu.Unlock()
	if ok {
		return o
	}
	o = hr.runFresh(spec)
	hr.mu.Lock()
	hr.cache[spec] = o
	hr.mu.Unlock()
	return o
}

// verdict is what a history is judged by: where it fails and how.
func (o *histOutcome) verdict(nops int) (idx int, clause string) {
	if o.crash != "" {
		c := "process-crash"
		if strings.HasPrefix(o.crash, "hang") {
			c = "hang"
		}
		if o.crashOp >= 0 && o.crashOp < nops {
			return o.crashOp, c
		}
		return nops - 1, c
	}
	return o.res.Fail, o.res.Clause
}

func classes(toks []string) []string {
	var out []string
	for _, t := range toks {
		o, _ := parseOp(t)
		out = append(out, o.class())
	}
	return out
}

// judgeFailure handles a history that failed while its batch was executed:
// seq is what the process had been given from its start up to and including
// the failing history (the last element), seen the outcome of that process.
// The history is first re-run from the start alone in a fresh process; if it
// fails there in the same way it is reduced and filed under a fingerprint
// naming the calls that must precede the failing one. If it does not, the
// failure depends on the histories executed before it in the same process:
// the whole sequence is re-run in a fresh process and the failure is filed
// with the suffix /depends-on-earlier-calls.
func (hr *histRunner) judgeFailure(mode string, toks []string, seq []string, seen *histOutcome) string {
	spec := histSpec(mode, toks)
	idx, clause := seen.verdict(len(toks))
	var o *histOutcome
	if len(seq) == 1 {
		o = seen // it was the first history of its process
		hr.mu.Lock()
		hr.cache[spec] = o
		hr.mu.Unlock()
	} else {
		o = hr.cached(spec)
	}
	if o.engine != "" {
		run.EngineError("history %s: %s", spec, o.engine)
		return "engine"
	}
	if ia, ca := o.verdict(len(toks)); ia != idx || ca != clause {
		// state left by the history executed just before it? Then the calls of
		// both, as ONE history alone in a fresh process, fail in the same way:
		// that history is reduced and filed like any other
		if len(seq) >= 2 {
			if _, prev, err := parseHistory(seq[len(seq)-2]); err == nil {
				var comb []string
				for _, po := range prev {
					comb = append(comb, po.tok)
				}
				comb = append(comb, toks[:idx+1]...)
				r := hr.cached(histSpec(mode, comb))
				if i2, c2 := r.verdict(len(comb)); r.engine == "" && i2 == len(comb)-1 && c2 == clause {
					return hr.reduceAndFile(mode, comb, clause, histSpec(mode, comb))
				}
			}
		}
		again := hr.runFresh(seq...)
		confirmed := "the same " + fmt.Sprint(len(seq)) + " histories re-run from the start in another fresh process did NOT fail again"
		if again.engine == "" && again.passed == len(seq)-1 {
			if i2, c2 := again.verdict(len(toks)); i2 == idx && c2 == clause {
				confirmed = "confirmed: the same " + fmt.Sprint(len(seq)) + " histories re-run from the start in another fresh process failed again at the same call"
			}
		}
		cl := classes(toks[:idx+1])
		dir := "read"
		if toks[idx][0] == 'W' {
			dir = "write"
		}
		// (the history's own preceding calls are not what it depends on: they
		// are left out of the fingerprint)
		fp := fmt.Sprintf("%s/history/%s/%s", dir, clause, cl[len(cl)-1])
		det := seen.res.Detail
		if seen.crash != "" {
			det = seen.crash + "\n" + det
		}
		show := seq
		if len(show) > 40 {
			show = show[len(show)-40:]
		}
		run.Unstable(fp, fmt.Sprintf("history %s executed after %d other histories in the same process: %s - alone in a fresh process it passes; %s", spec, len(seq)-1, det, confirmed),
			map[string]interface{}{"entry": "net.Message.Read / net.Message.Write", "history": spec, "clause": clause, "observed": det,
				"histories_executed_before_in_the_same_process": len(seq) - 1, "last_histories_of_the_process": show, "fresh_process_rerun": confirmed,
				"notation": "see the comment on type hop in checks/c01/history.go"})
		return clause + "(order-dependent)"
	}
	return hr.reduceAndFile(mode, toks[:idx+1], clause, spec)
}

// reduceAndFile: toks is a history that, alone in a fresh process, fails at
// its last call with the given clause.
func (hr *histRunner) reduceAndFile(mode string, toks []string, clause, spec string) string {
	idx := len(toks) - 1
	cl := classes(toks[:idx+1])
	key := mode + "|" + clause + "|" + strings.Join(cl, ">")
	var fp string
	hr.keyMu.Lock()
	fp, known := hr.keyFP[key]
	hr.keyMu.Unlock()
	if known {
		run.Fail(fp, "\xfe") // counted; the representative is already kept
		return clause
	}
	// reduction: drop preceding operations while the last one still fails
	// with the same clause; every attempt is a fresh process
	curMode, cur := mode, append([]string(nil), toks[:idx+1]...)
	same := func(m string, t []string) bool {
		r := hr.cached(histSpec(m, t))
		if r.engine != "" {
			return false
		}
		i, c := r.verdict(len(t))
		return i == len(t)-1 && c == clause
	}
	for again := true; again && len(cur) > 1; {
		again = false
		for i := 0; i+1 < len(cur); i++ {
			t := append(append([]string(nil), cur[:i]...), cur[i+1:]...)
			if same(curMode, t) {
				cur, again = t, true
				break
			}
		}
	}
	if curMode != "other" && same("other", cur) {
		curMode = "other"
	}
	mcl := classes(cur)
	after := "nothing"
	if len(mcl) > 1 {
		after = strings.Join(mcl[:len(mcl)-1], "+")
	}
	dir := "read"
	if cur[len(cur)-1][0] == 'W' {
		dir = "write"
	}
	fp = fmt.Sprintf("%s/history/%s/%s/after=%s", dir, clause, mcl[len(mcl)-1], after)
	switch curMode {
	case "same":
		fp += "/same-stream"
	case "reuse":
		fp += "/same-Message-value-reused"
	}
	hr.keyMu.Lock()
	hr.keyFP[key] = fp
	hr.keyMu.Unlock()
	minSpec := histSpec(curMode, cur)
	rank := fmt.Sprintf("%02d|%s", len(cur), minSpec)
	if run.Fail(fp, rank) {
		r := hr.cached(minSpec)
		det := r.res.Detail
		if r.crash != "" {
			det = r.crash + "\n" + r.res.Detail
		}
		what := fmt.Sprintf("history %s, every operation judged, executed from the start in a fresh process: %s", minSpec, det)
		if len(cur) > 1 {
			what += fmt.Sprintf(" - without any one of the %d preceding operation(s) (each shorter history alone in a fresh process) the last operation does not fail this way: the failure depends on them", len(cur)-1)
		}
		run.Keep(fp, rank, what, map[string]interface{}{
			"entry": "net.Message.Read / net.Message.Write, one fresh process per history", "history": minSpec, "first_seen_in": spec,
			"failing_operation": len(cur) - 1, "clause": clause, "observed": det,
			"expected":   "every operation of a history behaves as it does alone: valid messages read back / are written exactly, refused headers are refused with at most 28 bytes taken, failures are reported",
			"replay_cmd": ".work/c01/check --history '" + minSpec + "'  (after ./check.sh C01 quick has built it)",
			"notation":   "see the comment on type hop in checks/c01/history.go",
		}, func() bool {
			r := hr.runFresh(minSpec)
			if r.engine != "" {
				return false
			}
			i, c := r.verdict(len(cur))
			return i == len(cur)-1 && c == clause
		})
	}
	return clause
}

// alphabets ------------------------------------------------------------------

var histRefKinds = []string{"magic0", "magic3", "magicLE", "ver1", "ver100", "verffff", "type0", "type9", "type255"}

func readFailOps() []string {
	var out []string
	for _, k := range histRefKinds {
		for _, sz := range []int{0, 1, 5, histLarge} {
			out = append(out, fmt.Sprintf("R:ref:%s:%d", k, sz))
		}
	}
	out = append(out, "R:ref:sizeL1:0", "R:ref:sizeMax:0")
	out = append(out, "R:eof:0:s")
	for _, cut := range []int{1, 4, 27, 28, 29, 30, 32} {
		out = append(out, fmt.Sprintf("R:eof:%d:d", cut), fmt.Sprintf("R:eof:%d:s", cut))
	}
	return out
}

func writeFailOps() []string {
	_, encs := histMessages()
	var out []string
	for _, j := range []int{0, 2, 3} {
		seen := map[int]bool{}
		for _, n := range []string{"0", "1", "28", "m1", "all"} {
			v := 0
			switch n {
			case "m1":
				v = len(encs[j]) - 1
			case "all":
				v = len(encs[j])
			default:
				v, _ = strconv.Atoi(n)
			}
			if seen[v] {
				continue
			}
			seen[v] = true
			name := n
			if v == len(encs[j]) {
				name = "all"
			}
			for _, e := range []string{"eof", "closed", "other"} {
				out = append(out, fmt.Sprintf("W:fail:%d:%s:%s:w", j, name, e))
				if v > 0 && v < len(encs[j]) {
					out = append(out, fmt.Sprintf("W:fail:%d:%s:%s:s", j, name, e))
				}
			}
		}
	}
	return out
}

var (
	readOkOps  = []string{"R:ok:0", "R:ok:1", "R:ok:2", "R:ok:3", "R:ok:4"}
	writeOkOps = []string{"W:ok:0", "W:ok:1", "W:ok:2", "W:ok:3", "W:ok:4"}
	// reduced alphabets of the longer histories (subsets of the full ones)
	readReduced  = []string{"R:ok:0", "R:ok:2", "R:ref:magic0:5", "R:ref:type9:0", "R:ref:type9:5", "R:ref:sizeL1:0", "R:eof:27:d", "R:eof:30:s", "R:ref:ver1:5", "R:eof:4:s"}
	writeReduced = []string{"W:ok:0", "W:ok:2", "W:fail:2:0:eof:w", "W:fail:2:0:other:w", "W:fail:2:1:eof:s", "W:fail:3:m1:other:w", "W:fail:0:0:eof:w", "W:fail:2:all:other:w"}
)

func reducedAlphabets(thorough bool) (r, w []string) { return readReduced, writeReduced }

type histItem struct {
	sub  string
	mode string
	toks []string
}

func words(alpha []string, n int, fn func([]string)) {
	buf := make([]string, n)
	var rec func(i int)
	rec = func(i int) {
		if i == n {
			fn(append([]string(nil), buf...))
			return
		}
		for _, a := range alpha {
			buf[i] = a
			rec(i + 1)
		}
	}
	rec(0)
}

func subset(sub, full []string) bool {
	m := map[string]bool{}
	for _, f := range full {
		m[f] = true
	}
	for _, s := range sub {
		if !m[s] {
			return false
		}
	}
	return true
}

var (
	readModes  = []string{"other", "same", "reuse"}
	writeModes = []string{"other", "same"}
)

// histories lists the enumerated universe in a fixed order (shorter first).
func histories(thorough bool, hugeRefusals []string) (items []histItem, universe map[string]int) {
	universe = map[string]int{}
	add := func(sub, mode string, toks []string) {
		items = append(items, histItem{sub, mode, toks})
		universe[sub]++
	}
	rf, wf := readFailOps(), writeFailOps()
	// 1. every operation alone
	for _, group := range [][]string{readOkOps, rf, writeOkOps, wf} {
		for _, a := range group {
			add("single", "other", []string{a})
		}
	}
	//    among them the headers announcing a huge payload (handed over by the
	//    refuse family: they are not tried inside the check's own process)
	for _, a := range hugeRefusals {
		add("single:huge-announced-size", "other", []string{a})
	}
	// 2. one operation that goes wrong, then one valid message (every pair),
	//    and the other way round after message 2
	second := func(m string, oks []string) []string {
		return oks
	}
	for _, m := range readModes {
		for _, f := range rf {
			for _, ok := range second(m, readOkOps) {
				add("read:wrong-then-valid", m, []string{f, ok})
			}
			add("read:valid-then-wrong", m, []string{"R:ok:2", f})
		}
	}
	for _, m := range writeModes {
		for _, f := range wf {
			for _, ok := range second(m, writeOkOps) {
				add("write:failed-then-healthy", m, []string{f, ok})
			}
			add("write:healthy-then-failed", m, []string{"W:ok:2", f})
		}
	}
	//    and every ordered pair of valid messages (the one above 64 KiB
	//    first or second)
	for _, m := range readModes {
		words(readOkOps, 2, func(w []string) { add("read:valid-then-valid", m, w) })
	}
	for _, m := range writeModes {
		words(writeOkOps, 2, func(w []string) { add("write:healthy-then-healthy", m, w) })
	}
	for _, a := range readOkOps {
		for _, b := range writeOkOps {
			add("cross:valid-then-valid", "other", []string{a, b})
			add("cross:valid-then-valid", "other", []string{b, a})
		}
	}
	// 3. the two directions crossed (a buffer shared by reader and writer)
	for _, f := range rf {
		for _, ok := range writeOkOps {
			add("cross:read-wrong-then-write", "other", []string{f, ok})
		}
	}
	for _, f := range wf {
		for _, ok := range readOkOps {
			add("cross:write-failed-then-read", "other", []string{f, ok})
		}
	}
	// 4. every sequence of length 3 (4 in thorough) over the reduced
	//    alphabets: the operation that goes wrong is first, in the middle or
	//    last, twice in a row, between valid messages...
	maxLen := 3
	if thorough {
		maxLen = 4
	}
	ra, wa := reducedAlphabets(thorough)
	for n := 3; n <= maxLen; n++ {
		for _, m := range readModes {
			words(ra, n, func(w []string) { add(fmt.Sprintf("read:all-sequences-%d", n), m, w) })
		}
		for _, m := range writeModes {
			words(wa, n, func(w []string) { add(fmt.Sprintf("write:all-sequences-%d", n), m, w) })
		}
	}
	if thorough {
		mixed := append(append([]string(nil), ra...), wa...)
		words(mixed, 3, func(w []string) {
			r, wr := 0, 0
			for _, t := range w {
				if t[0] == 'R' {
					r++
				} else {
					wr++
				}
			}
			if r > 0 && wr > 0 {
				add("cross:all-sequences-3", "other", w)
			}
		})
	}
	return items, universe
}

func familyHistory(thorough bool, hugeRefusals []string) map[string]interface{} {
	fam := run.Family("history")
	// the running binary itself, even if the file it was started from has
	// been rebuilt since (another C01 run against another checkout)
	self := "/proc/self/exe"
	if _, err := os.Stat(self); err != nil {
		var e2 error
		if self, e2 = os.Executable(); e2 != nil {
			run.EngineError("history family: cannot find the check's own binary: %v", e2)
			return nil
		}
	}
	if !subset(readReduced, append(append([]string(nil), readOkOps...), readFailOps()...)) ||
		!subset(writeReduced, append(append([]string(nil), writeOkOps...), writeFailOps()...)) {
		run.EngineError("history family: the reduced alphabets are not subsets of the full ones")
		return nil
	}
	hr := &histRunner{self: self, cache: map[string]*histOutcome{}, keyFP: map[string]string{}}
	items, universe := histories(thorough, hugeRefusals)
	ra, wa := reducedAlphabets(thorough)
	t0 := time.Now()
	completed := map[string]int{}
	var cmu sync.Mutex
	// quick: the histories are executed back to back, batchSize per fresh
	// process (a failing one is re-run alone from the start, the process is
	// abandoned and the rest of the batch goes to a new one); thorough: one
	// process per history of length <= 3, batches for the histories of length 4
	const batchSize = 48
	var batches [][]histItem
	for i := 0; i < len(items); {
		n := batchSize
		if thorough && len(items[i].toks) <= 3 {
			n = 1
		}
		j := i
		for j < len(items) && j-i < n && (len(items[j].toks) <= 3) == (len(items[i].toks) <= 3) {
			j++
		}
		batches = append(batches, items[i:j])
		i = j
	}
	var doneHist int64
	record := func(it histItem, out string) {
		run.Eval(fam, 1)
		atomic.AddInt64(&doneHist, 1)
		run.Distinct(fmt.Sprintf("history|%s|%s|%s|%s", it.sub, it.mode, strings.Join(classes(it.toks), ">"), out))
		cmu.Lock()
		completed[it.sub]++
		cmu.Unlock()
	}
	_, all := run.Parallel(len(batches), func(bi int) {
		b := batches[bi]
		for start := 0; start < len(b); {
			if start > 0 && run.Expired() {
				return
			}
			specs := make([]string, 0, len(b)-start)
			for _, it := range b[start:] {
				specs = append(specs, histSpec(it.mode, it.toks))
			}
			o := hr.runFresh(specs...)
			if o.engine != "" {
				run.EngineError("history batch %d (from %s): %s", bi, specs[0], o.engine)
				return
			}
			for k := 0; k < o.passed && k < len(specs); k++ {
				record(b[start+k], "ok")
			}
			if o.passed >= len(specs) {
				return
			}
			f := start + o.passed
			record(b[f], hr.judgeFailure(b[f].mode, b[f].toks, specs[:o.passed+1], o))
			start = f + 1
		}
	})
	done := int(atomic.LoadInt64(&doneHist))
	all = all && done == len(items)
	if !all {
		var parts []string
		for k, n := range universe {
			parts = append(parts, fmt.Sprintf("%s %d/%d", k, completed[k], n))
		}
		sort.Strings(parts)
		run.Note("history: %d of %d histories completed before the deadline (%s)", done, len(items), strings.Join(parts, ", "))
	}
	run.Sample(12, map[string]interface{}{"family": "history", "history": "mode=other;W:fail:2:0:eof:w;W:ok:3",
		"meaning": "fresh process; Message.Write of message 2 to a writer answering (0, io.EOF) must report an error; then Message.Write of message 3 to another, healthy writer must deliver exactly its 68 documented bytes"})
	run.Sample(12, map[string]interface{}{"family": "history", "history": "mode=same;R:ok:0;R:ref:type9:0;R:ok:2",
		"meaning": "fresh process; one stream carrying message 0, a header with type 9 and announced size 0, message 2: the first and third Read return the messages, the second returns an error after taking exactly its 28 bytes"})
	return map[string]interface{}{
		"histories":                         len(items),
		"histories_completed":               done,
		"histories_per_subfamily":           universe,
		"fresh_processes_started":           atomic.LoadInt64(&hr.spawned),
		"operations_read_wrong":             len(readFailOps()),
		"operations_write_failed":           len(writeFailOps()),
		"operations_reduced_read":           ra,
		"operations_reduced_write":          wa,
		"longest_history":                   map[bool]int{false: 3, true: 4}[thorough],
		"wall_s":                            time.Since(t0).Seconds(),
		"child_settings":                    fmt.Sprintf("GOMAXPROCS=1, garbage collector off, address space capped at 3 GiB; %d fresh processes for %d histories (quick: %d histories back to back per process; thorough: one process per history of length <= 3, %d per process for length 4); a history that fails is re-run alone from the start in a fresh process, so is every step of its reduction", len(batches), len(items), batchSize, batchSize),
		"batches":                           len(batches),
		"modes":                             "other = own stream and own Message value per operation; same = consecutive reads on one stream, all writes to one writer; reuse = every read into one Message value",
		"histories_completed_per_subfamily": completed,
	}
}
