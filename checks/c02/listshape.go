package main

import (
	"fmt"

	"github.com/lugu/qiloop/type/value"

	"verif/internal/enum"
)

// familyListShape: value.List values whose SHAPE grows - the number of lists
// inside one value (wide: a list of n one-element lists; matrix: r rows of c
// pairs; tree: a complete binary tree of lists with 2^k-1 nodes) and the
// nesting depth (deep: a chain of d lists) - where the other families keep at
// most three levels and a handful of lists per value. A decoder that counts or
// caps lists, depth or recursion per value shows here; the smallest failing
// size of each kind is reported.
func familyListShape(thorough bool) map[string]interface{} {
	fam := run.Family("list-shape")
	wide := func(n int) value.Value {
		rows := make([]value.Value, n)
		for i := range rows {
			rows[i] = value.List([]value.Value{value.Int(int32(i + 1))})
		}
		return value.List(rows)
	}
	matrix := func(n int) value.Value {
		rows := make([]value.Value, n)
		for i := range rows {
			cols := make([]value.Value, n)
			for j := range cols {
				cols[j] = value.List([]value.Value{value.Int(int32(i)), value.String("ab")})
			}
			rows[i] = value.List(cols)
		}
		return value.List(rows)
	}
	var tree func(k int) value.Value
	tree = func(k int) value.Value {
		if k <= 1 {
			return value.List([]value.Value{})
		}
		return value.List([]value.Value{tree(k - 1), value.Int(int32(k)), tree(k - 1)})
	}
	deep := func(d int) value.Value {
		v := value.Value(value.Int(7))
		for i := 0; i < d; i++ {
			v = value.List([]value.Value{v})
		}
		return v
	}
	deepSecond := func(d int) value.Value {
		// the chain hangs at the last position of every level
		v := value.Value(value.String("x"))
		for i := 0; i < d; i++ {
			v = value.List([]value.Value{value.Bool(true), v})
		}
		return v
	}
	upto := func(n int, more ...int) []int {
		var out []int
		for i := 0; i <= n; i++ {
			out = append(out, i)
		}
		return append(out, more...)
	}
	kinds := []struct {
		name  string
		sizes []int
		mk    func(int) value.Value
		what  string
	}{
		{"wide", upto(70, 100, 127, 128, 129, 255, 256, 257, 1000, 4096), wide, "a list of n one-element lists"},
		{"matrix", upto(12, 16, 32), matrix, "n rows of n [int, string] pairs"},
		{"tree", upto(8), tree, "a complete ternary-shaped tree of lists of height n (2^n - 1 lists)"},
		{"deep", upto(70, 100, 128, 200, 256), deep, "a chain of n nested one-element lists"},
		{"deep-last", upto(70, 100, 128), deepSecond, "a chain of n nested lists, each [bool, next]"},
	}
	if thorough {
		kinds[0].sizes = upto(300, 1000, 4095, 4096) // 4096 entries is the documented cap of a list
		kinds[3].sizes = upto(300, 512, 1000)
	}
	cov := map[string]interface{}{}
	g := run.NewGuard()
	rd := enum.NewFragReader(nil, nil, 0, 0)
	for _, k := range kinds {
		failedAt := -1
		for _, n := range k.sizes {
			if run.Expired() {
				run.Note("list-shape: %s stopped at n=%d by the deadline", k.name, n)
				break
			}
			v := k.mk(n)
			clause, det, enc, dl := firstFailure(g, rd, v, fam, deliveries[:3])
			out := "ok"
			if clause != "" {
				out = clause
				if failedAt < 0 {
					failedAt = n
					vv, dd, cl := v, dl, clause
					run.Violation(fmt.Sprintf("newvalue/list-shape/%s/%s/n=%d", clause, k.name, n), fmt.Sprintf("%06d", n),
						fmt.Sprintf("value.List: %s, n=%d (smallest failing size; %d bytes), %s: %s", k.what, n, len(enc), dl, det),
						replayOf("value.NewValue", v, enc, dl, clause, det), func() bool {
							c, _, _ := roundtrip(enum.NewFragReader(nil, nil, 0, 0), vv, dd)
							return c == cl
						})
				}
			}
			class := "small"
			if n > 32 {
				class = "above-32"
			}
			run.Distinct(fmt.Sprintf("list-shape|%s|%s|%s", k.name, class, out))
		}
		cov[k.name] = map[string]interface{}{"what": k.what, "sizes": fmt.Sprintf("%d sizes, %d..%d", len(k.sizes), k.sizes[0], k.sizes[len(k.sizes)-1]), "smallest_failing": failedAt}
	}
	return cov
}
