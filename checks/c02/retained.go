package main

import (
	"bytes"
	"fmt"

	"github.com/lugu/qiloop/type/value"
)

// familyRetained: a decoded value must be the decoder's own copy. Every value
// is decoded from a *bytes.Buffer (the reader type production code decodes
// payloads from) over storage the check owns; afterwards that storage is
// overwritten and the buffer reused for something else - as a connection's
// receive buffer is - and only then the decoded value is re-encoded and
// compared: it must still give the original bytes.
func familyRetained() int {
	fam := run.Family("retained")
	var vals []lval
	vals = append(vals, lists(2)...)
	for _, n := range []int{0, 1, 3, 100, 5000, 70000} {
		raw := make([]byte, n)
		str := make([]byte, n)
		for i := range raw {
			raw[i] = byte(31*i + 7)
			str[i] = 'a' + byte(i%26)
		}
		vals = append(vals,
			lval{value.Raw(raw), fmt.Sprintf("Raw(%d bytes)", n), 0},
			lval{value.String(string(str)), fmt.Sprintf("String(%d bytes)", n), 0},
			lval{value.List([]value.Value{value.Raw(raw), value.Int(5)}), fmt.Sprintf("List(Raw(%d bytes), Int)", n), 1},
			lval{value.Opaque("(s[C])", append(append([]byte{byte(n), byte(n >> 8), byte(n >> 16), 0}, str...), append([]byte{byte(n), byte(n >> 8), byte(n >> 16), 0}, raw...)...)), fmt.Sprintf("Opaque (s[C]) of %d bytes each", n), 0},
		)
	}
	for _, l := range vals {
		enc, err := encodeValue(l.v)
		if err != nil {
			continue
		}
		// what follows the value in the buffer (the next value waiting to be read)
		storage := append(append([]byte{}, enc...), 0xC1, 0xC2, 0xC3, 0xC4, 0xC5, 0xC6, 0xC7, 0xC8)
		buf := bytes.NewBuffer(storage)
		run.Eval(fam, 1)
		got, err := value.NewValue(buf)
		out := "ok"
		if err == nil && got != nil {
			// the owner of the buffer goes on using it
			for i := range storage {
				storage[i] = 0xEE
			}
			buf.Reset()
			buf.Write(bytes.Repeat([]byte{0xDD}, len(storage)))
			re, rerr := encodeValue(got)
			if rerr != nil || !bytes.Equal(re, enc) {
				out = "changed"
				v, desc := l.v, l.desc
				run.Violation(fmt.Sprintf("newvalue/retained/reencode-differs-after-buffer-reuse/%s", sigClass(l.v)), fmt.Sprintf("%06d|%s", len(enc), l.desc),
					fmt.Sprintf("%s decoded from a *bytes.Buffer; after the buffer's storage was reused the decoded value re-encodes to %s (error %v), originally %s: the value shares the input buffer", desc, hexs(re), rerr, hexs(enc)),
					map[string]interface{}{"entry": "value.NewValue(*bytes.Buffer), then the buffer is reused", "value": desc, "encoding_hex": hexs(enc)},
					func() bool {
						e2, _ := encodeValue(v)
						st := append(append([]byte{}, e2...), 1, 2, 3, 4)
						b2 := bytes.NewBuffer(st)
						g2, err := value.NewValue(b2)
						if err != nil {
							return false
						}
						for i := range st {
							st[i] = 0xEE
						}
						b2.Reset()
						b2.Write(bytes.Repeat([]byte{0xDD}, len(st)))
						r2, err := encodeValue(g2)
						return err != nil || !bytes.Equal(r2, e2)
					})
			}
		}
		run.Distinct("retained|" + sigClass(l.v) + "|" + out)
	}
	return len(vals)
}
