// C02 - Dynamic values survive encode/decode unchanged, byte for byte.
//
// Bounded-exhaustive exploration of value.NewValue / Value.Write, see
// DESIGN.md section 3, C02. Families:
//
//	constructor  Bool, Int8..Ulong, Float, String, Raw, Void over Val(T)
//	list         value.List nested to depth D, width <= 2, over a base set of
//	             scalar, string, raw, void and opaque composite values
//	opaque       value.Opaque(sig, data) for every composite sig of
//	             Sig(D, 2) (atoms c C w W i I l L f d b s m, plus 11 fixed
//	             signatures containing o; inner atoms
//	             i s b m C) and every datum of Val(sig) encoded by the
//	             reference model; dynamic values nested inside the composite
//	             carry scalars, strings, lists, tuples and maps
//	opaque-atom  value.Opaque with a non-composite signature (separate family;
//	             'm' and 'o' are observed, not decided, see assumptions)
//	length-sweep every variable-length leaf through a sweep of lengths, see
//	             lensweep.go
//	value-of-value  dynamic values whose own signature is 'm' (a value wrapped
//	             in 1..3 values) at every position where a dynamic value can
//	             sit, see valval.go
//
// Every encoding is decoded from six deliveries: {data+EOF, EOF separate,
// followed by 8 sentinel bytes} x {unfragmented, one byte per read}.
//
// Oracle (exactly the statement): NewValue succeeds; the reader is left
// exactly at the end of the encoding; Signature() is unchanged; Write of the
// decoded value reproduces the bytes; scalar kinds compare equal as Go values
// (floats by bits).
package main

import (
	"bytes"
	"encoding/hex"
	"fmt"
	"io"
	"math"
	"os"
	"reflect"
	"time"

	"github.com/lugu/qiloop/type/value"

	"verif/internal/enum"
	"verif/internal/refmodel"
)

var run *enum.Run

type delivery struct {
	mode  enum.EOFMode
	chunk int
}

var deliveries = []delivery{
	{enum.EOFWithData, 0}, {enum.EOFSeparate, 0}, {enum.NoEOF, 0},
	{enum.EOFWithData, 1}, {enum.EOFSeparate, 1}, {enum.NoEOF, 1},
}

// the opaque family (one signature parse per decode, ~0.1 ms each) uses the
// three deliveries of the design: exact buffer, sentinel follows, one byte
// per read.
var opaqueDeliveries = []delivery{{enum.EOFWithData, 0}, {enum.NoEOF, 0}, {enum.EOFSeparate, 1}}

func (d delivery) String() string {
	if d.chunk == 1 {
		return d.mode.String() + "/1-byte-reads"
	}
	return d.mode.String() + "/unfragmented"
}

func hexs(b []byte) string {
	if len(b) > 96 {
		return hex.EncodeToString(b[:96]) + fmt.Sprintf("...(%d bytes)", len(b))
	}
	return hex.EncodeToString(b)
}

func encodeValue(v value.Value) (b []byte, err error) {
	defer func() {
		if r := recover(); r != nil {
			err = fmt.Errorf("panic: %v", r)
		}
	}()
	var buf bytes.Buffer
	err = v.Write(&buf)
	return buf.Bytes(), err
}

func valueEqual(a, b value.Value) bool {
	if reflect.TypeOf(a) != reflect.TypeOf(b) {
		return false
	}
	switch x := a.(type) {
	case value.FloatValue:
		return math.Float32bits(float32(x)) == math.Float32bits(float32(b.(value.FloatValue)))
	case value.RawValue:
		return bytes.Equal(x, b.(value.RawValue))
	case value.ListValue:
		y := b.(value.ListValue)
		if len(x) != len(y) {
			return false
		}
		for i := range x {
			if !valueEqual(x[i], y[i]) {
				return false
			}
		}
		return true
	case *value.OpaqueValue:
		return x.Signature() == b.Signature() && bytes.Equal(value.Bytes(a), value.Bytes(b))
	}
	return reflect.DeepEqual(a, b)
}

// roundtrip evaluates the oracle for one value and one delivery; it returns
// "" or the violated clause.
func roundtrip(rd *enum.FragReader, v value.Value, dl delivery) (clause, detail string, enc []byte) {
	return roundtripFrom(v, func(enc []byte) (io.Reader, func() int) {
		rd.Reset(enc, nil, dl.mode, dl.chunk)
		return rd, rd.Pos
	})
}

// roundtripFrom is the oracle over any reader: open receives the encoding
// and returns the reader handed to NewValue and the function that tells how
// many bytes of the encoding (and of what follows it) were taken from it.
func roundtripFrom(v value.Value, open func(enc []byte) (io.Reader, func() int)) (clause, detail string, enc []byte) {
	enc, err := encodeValue(v)
	if err != nil {
		return "write-error", fmt.Sprintf("Write returned %v", err), enc
	}
	rd, taken := open(enc)
	var got value.Value
	func() {
		defer func() {
			if r := recover(); r != nil {
				err = fmt.Errorf("panic: %v", r)
				clause = "panic"
			}
		}()
		got, err = value.NewValue(rd)
	}()
	if clause == "panic" {
		return clause, fmt.Sprint(err), enc
	}
	if err != nil {
		return "decode-error", fmt.Sprintf("NewValue returned %v", err), enc
	}
	if got == nil {
		return "decode-nil", "NewValue returned a nil value and a nil error", enc
	}
	if n := taken(); n != len(enc) {
		k := "over"
		if n < len(enc) {
			k = "under"
		}
		return "consumed-" + k, fmt.Sprintf("decoder consumed %d bytes, the encoder produced %d", n, len(enc)), enc
	}
	if got.Signature() != v.Signature() {
		return "signature-differs", fmt.Sprintf("decoded value has signature %q, original %q", got.Signature(), v.Signature()), enc
	}
	re, err := encodeValue(got)
	if err != nil {
		return "reencode-error", fmt.Sprintf("Write of the decoded value returned %v", err), enc
	}
	if !bytes.Equal(re, enc) {
		return "reencode-differs", fmt.Sprintf("re-encoding gives %s", hexs(re)), enc
	}
	if _, opaque := v.(*value.OpaqueValue); !opaque {
		if !valueEqual(v, got) {
			return "value-differs", fmt.Sprintf("decoded %#v, original %#v", got, v), enc
		}
	}
	return "", "", enc
}

// firstFailure runs all deliveries and returns the first failing one. Each
// decode is guarded against non-termination.
func firstFailure(g *enum.Guard, rd *enum.FragReader, v value.Value, fam *int64, dls []delivery) (clause, detail string, enc []byte, dl delivery) {
	for _, d := range dls {
		d := d
		g.Begin("newvalue/hang/"+sigClass(v), func() (string, interface{}) {
			e, _ := encodeValue(v)
			return fmt.Sprintf("value.NewValue on the encoding %s of a value of signature %q (%s)", hexs(e), v.Signature(), d),
				replayOf("value.NewValue", v, e, d, "hang", "NewValue did not return")
		}, func() { roundtrip(enum.NewFragReader(nil, nil, 0, 0), v, d) })
		c, det, e := roundtrip(rd, v, d)
		g.End()
		run.Eval(fam, 1)
		if c != "" {
			return c, det, e, d
		}
		enc = e
	}
	return "", "", enc, delivery{}
}

// sigClass abstracts the signature of a value for the hang fingerprint.
func sigClass(v value.Value) string {
	if t, err := refmodel.ParseSig(v.Signature()); err == nil {
		return t.Shape()
	}
	return "unparsable-signature"
}

// deliveryDetail says whether a failure depends on the delivery: it is
// re-evaluated with the most benign one (unfragmented, EOF separate).
func deliveryDetail(v value.Value, clause string, dl delivery) string {
	c, _, _ := roundtrip(enum.NewFragReader(nil, nil, 0, 0), v, delivery{enum.EOFSeparate, 0})
	if c == clause {
		return "any-delivery"
	}
	return dl.String()
}

func replayOf(entry string, v value.Value, enc []byte, dl delivery, clause, detail string) map[string]interface{} {
	return map[string]interface{}{
		"entry": entry, "signature": v.Signature(), "encoding_hex": hexs(enc), "encoding_len": len(enc), "delivery": dl.String(),
		"clause": clause, "observed": detail,
		"expected": "NewValue succeeds, consumes exactly the encoding, keeps the signature, and Write of the result reproduces the encoding",
	}
}

// ---------------------------------------------------------------- family a

type ctor struct {
	letter byte
	mk     func(d *refmodel.Datum) value.Value
}

var ctors = []ctor{
	{'b', func(d *refmodel.Datum) value.Value { return value.Bool(d.U != 0) }},
	{'c', func(d *refmodel.Datum) value.Value { return value.Int8(int8(d.U)) }},
	{'C', func(d *refmodel.Datum) value.Value { return value.Uint8(uint8(d.U)) }},
	{'w', func(d *refmodel.Datum) value.Value { return value.Int16(int16(d.U)) }},
	{'W', func(d *refmodel.Datum) value.Value { return value.Uint16(uint16(d.U)) }},
	{'i', func(d *refmodel.Datum) value.Value { return value.Int(int32(d.U)) }},
	{'I', func(d *refmodel.Datum) value.Value { return value.Uint(uint32(d.U)) }},
	{'l', func(d *refmodel.Datum) value.Value { return value.Long(int64(d.U)) }},
	{'L', func(d *refmodel.Datum) value.Value { return value.Ulong(d.U) }},
	{'f', func(d *refmodel.Datum) value.Value { return value.Float(math.Float32frombits(uint32(d.U))) }},
	{'s', func(d *refmodel.Datum) value.Value { return value.String(d.S) }},
	{'r', func(d *refmodel.Datum) value.Value { return value.Raw(d.B) }},
	{'v', func(d *refmodel.Datum) value.Value { return value.Void() }},
}

func familyConstructors() {
	fam := run.Family("constructor")
	rd := enum.NewFragReader(nil, nil, 0, 0)
	g := run.NewGuard()
	for _, c := range ctors {
		t := refmodel.Atom(c.letter)
		for _, d := range enum.Vals(t) {
			v := c.mk(d)
			clause, det, enc, dl := firstFailure(g, rd, v, fam, deliveries)
			out := "ok"
			if clause != "" {
				out = clause
				fp := fmt.Sprintf("newvalue/constructor/%s/%c/%s", clause, c.letter, deliveryDetail(v, clause, dl))
				vv, dd := v, dl
				run.Violation(fp, fmt.Sprintf("%06d|%s", len(enc), d), fmt.Sprintf("value constructor %q with %s, encoding %s, %s: %s", string(c.letter), d, hexs(enc), dl, det),
					replayOf("value.NewValue", v, enc, dl, clause, det), func() bool {
						cl, _, _ := roundtrip(enum.NewFragReader(nil, nil, 0, 0), vv, dd)
						return cl == clause
					})
			}
			run.Distinct(fmt.Sprintf("constructor|%c|len%d|%s", c.letter, len(enc), out))
			if c.letter == 's' && d.S == "ab" {
				run.Sample(14, map[string]interface{}{"family": "constructor", "value": "String(\"ab\")", "encoding_hex": hexs(enc)})
			}
		}
	}
}

// ---------------------------------------------------------------- family b

type lval struct {
	v     value.Value
	desc  string
	depth int
}

func listBase() []lval {
	op := func(sig string) lval {
		t := refmodel.MustParse(sig)
		return lval{value.Opaque(sig, refmodel.Encode(enum.Dist(t))), "Opaque(" + sig + ")", 0}
	}
	return []lval{
		{value.Int(0x01020304), "Int", 0},
		{value.String("ab"), "String", 0},
		{value.Bool(true), "Bool", 0},
		{value.Uint8(0x7f), "Uint8", 0},
		{value.Void(), "Void", 0},
		{value.Raw([]byte{0xa1, 0xb2, 0xc3}), "Raw", 0},
		{value.Float(1.5), "Float", 0},
		op("[i]"),
		op("(si)"),
		op("{sI}"),
		op("(m)"),
	}
}

// lists enumerates value.List values nested to the given depth, width <= 2,
// at most one nested list per list.
func lists(depth int) []lval {
	base := listBase()
	var prev []lval
	for d := 1; d <= depth; d++ {
		children := append(append([]lval(nil), base...), prev...)
		var cur []lval
		cur = append(cur, lval{value.List([]value.Value{}), "List()", d})
		for _, c := range children {
			cur = append(cur, lval{value.List([]value.Value{c.v}), "List(" + c.desc + ")", d})
		}
		for _, a := range children {
			for _, b := range children {
				if a.depth > 0 && b.depth > 0 {
					continue
				}
				cur = append(cur, lval{value.List([]value.Value{a.v, b.v}), "List(" + a.desc + "," + b.desc + ")", d})
			}
		}
		prev = cur
	}
	return prev
}

func listDepth(v value.Value) int {
	l, ok := v.(value.ListValue)
	if !ok {
		return 0
	}
	d := 0
	for _, e := range l {
		if x := listDepth(e); x > d {
			d = x
		}
	}
	return d + 1
}

func familyLists(depth int) int {
	fam := run.Family("list")
	ls := lists(depth)
	guards := make(chan *enum.Guard, run.Workers+1)
	for i := 0; i <= run.Workers; i++ {
		guards <- run.NewGuard()
	}
	done, all := run.Parallel(len(ls), func(i int) {
		g := <-guards
		defer func() { guards <- g }()
		rd := enum.NewFragReader(nil, nil, 0, 0)
		l := ls[i]
		clause, det, enc, dl := firstFailure(g, rd, l.v, fam, deliveries)
		out := "ok"
		if clause != "" {
			out = clause
			// descend to the smallest failing element
			min, desc := l.v, l.desc
			for {
				lv, ok := min.(value.ListValue)
				if !ok {
					break
				}
				found := false
				for _, e := range lv {
					if c, _, _ := roundtrip(enum.NewFragReader(nil, nil, 0, 0), e, dl); c == clause {
						min, desc, found = e, fmt.Sprintf("element %s", e.Signature()), true
						break
					}
				}
				if !found {
					break
				}
			}
			kind := "list-of-depth-" + fmt.Sprint(listDepth(min))
			if _, ok := min.(value.ListValue); !ok {
				kind = "element/" + min.Signature()
			}
			fp := fmt.Sprintf("newvalue/list/%s/%s/%s", clause, kind, deliveryDetail(min, clause, dl))
			if ov, ok := min.(*value.OpaqueValue); ok {
				// an opaque element: same attribution as the opaque family
				if t, err := refmodel.ParseSig(ov.Signature()); err == nil {
					if d, _, err := refmodel.Decode(t, value.Bytes(ov)); err == nil {
						detail, md := enum.Blame(d, opaqueFails(clause, dl), composite)
						min = opaqueOf(md)
						desc = fmt.Sprintf("value.Opaque(%q) = %s", md.T, md)
						fp = fmt.Sprintf("newvalue/opaque/%s/%s/%s", clause, detail, deliveryDetail(min, clause, dl))
					}
				}
			}
			mv, dd := min, dl
			_, mdet, menc := roundtrip(enum.NewFragReader(nil, nil, 0, 0), min, dl)
			run.Violation(fp, fmt.Sprintf("%06d|%s", len(menc), desc), fmt.Sprintf("%s (found inside %s), encoding %s, %s: %s", desc, l.desc, hexs(menc), dl, mdet),
				replayOf("value.NewValue", min, menc, dl, clause, mdet), func() bool {
					cl, _, _ := roundtrip(enum.NewFragReader(nil, nil, 0, 0), mv, dd)
					return cl == clause
				})
			_ = det
		}
		run.Distinct(fmt.Sprintf("list|depth%d|len%d|%s", l.depth, len(l.v.(value.ListValue)), out) + "|" + elemKinds(l.v))
		if i == len(ls)/3 {
			run.Sample(14, map[string]interface{}{"family": "list", "value": l.desc, "encoding_hex": hexs(enc)})
		}
	})
	if !all {
		run.Note("list: %d of %d list values completed before the deadline", done, len(ls))
	}
	return len(ls)
}

func elemKinds(v value.Value) string {
	s := ""
	for _, e := range v.(value.ListValue) {
		if _, ok := e.(value.ListValue); ok {
			s += "L"
		} else if _, ok := e.(*value.OpaqueValue); ok {
			s += "O"
		} else {
			s += e.Signature()
		}
	}
	return s
}

// ---------------------------------------------------------------- family c

// objectSigs are the composite signatures containing an object reference.
var objectSigs = []string{"[o]", "(o)", "(oi)", "(so)", "{so}", "{Io}", "(o)<S,a>", "(io)<S,a,b>", "[(oi)]", "([o]s)", "{s(o)}"}

func opaqueOf(d *refmodel.Datum) value.Value {
	return value.Opaque(d.T.String(), refmodel.Encode(d))
}

func composite(t *refmodel.Type) bool { return !t.IsAtom() }

// decided says whether a datum can be evaluated as a top-level opaque value
// of the deciding family: composite signature other than "[m]" (which the
// dispatch table sends to the list constructor; the list family covers it,
// and as an opaque value it is still evaluated here because it is
// composite).
func opaqueFails(clause string, dl delivery) func(*refmodel.Datum) bool {
	return func(d *refmodel.Datum) bool {
		c, _, _ := roundtrip(enum.NewFragReader(nil, nil, 0, 0), opaqueOf(d), dl)
		return c == clause
	}
}

// opaqueSignatures is the signature universe of the family opaque: the
// composite signatures of Sig(depth, 2) and the fixed signatures with 'o'.
func opaqueSignatures(depth int) []*refmodel.Type {
	// 'o' is not an outer atom of the universe here: every decode of a
	// signature containing 'o' costs two parses of the ObjectReference
	// signature (~1 ms); a fixed list of signatures covers it in every
	// constructor instead
	sigs := enum.Sigs(enum.SigOpts{Depth: depth, Width: 2, Outer: "cCwWiIlLfdbsm", Inner: "isbmC",
		OuterKeys: "cCwWiIlLbs", InnerKeys: "isC", Structs: true})
	var comp []*refmodel.Type
	for _, s := range sigs {
		if composite(s) {
			comp = append(comp, s)
		}
	}
	for _, s := range objectSigs {
		comp = append(comp, refmodel.MustParse(s))
	}
	for _, s := range namedSigs {
		comp = append(comp, refmodel.MustParse(s))
	}
	return comp
}

// namedSigs: struct annotations in every shape the signature grammar admits
// (template-style names List<double>, underscores, digits, one-letter and long
// names, member names that resemble type letters) at top level, inside lists,
// maps, tuples, other structs and next to dynamic values. The other
// signatures of the universe all name their structs "S" with members a, b.
var namedSigs = []string{
	"(ff)<ValueConfidence<float>,value,confidence>",
	"[(ff)<ValueConfidence<float>,value,confidence>]",
	"{s(ff)<ValueConfidence<float>,value,confidence>}",
	"((ff)<ValueConfidence<float>,value,confidence>i)",
	"((i)<List<double>,a>(s)<Map<a>,b>)<Outer_1,first,second>",
	"(m(i)<List<double>,a>)<WithValue,v,l>",
	"[{I(sb)<x<Y_1>,s,b>}]",
	"(is)<A,i,s>",
	"(is)<a,m,o>",
	"(i)<Zz9_,x_>",
	"(i(s)<Inner,v>)<LongStructureNameWithManyCharacters0123456789,first_member,second_member>",
}

func familyOpaque(depth int) (nsigs int, nvals int64) {
	fam := run.Family("opaque")
	comp := opaqueSignatures(depth)
	counts := make([]int64, len(comp))
	guards := make(chan *enum.Guard, run.Workers+1)
	for i := 0; i <= run.Workers; i++ {
		guards <- run.NewGuard()
	}
	done, all := run.Parallel(len(comp), func(i int) {
		g := <-guards
		defer func() { guards <- g }()
		t := comp[i]
		rd := enum.NewFragReader(nil, nil, 0, 0)
		outcomes := map[string]bool{}
		vals, dls := enum.Vals(t), opaqueDeliveries
		if t.Depth() >= 3 {
			// depth-3 signatures (thorough tier): the distinguished and the
			// zero value, two deliveries
			vals, dls = []*refmodel.Datum{enum.Dist(t), enum.Zero(t)}, opaqueDeliveries[1:]
		}
		for _, d := range vals {
			counts[i]++
			v := opaqueOf(d)
			clause, det, enc, dl := firstFailure(g, rd, v, fam, dls)
			if clause == "" {
				outcomes["ok"] = true
				continue
			}
			outcomes[clause] = true
			detail, min := enum.Blame(d, opaqueFails(clause, dl), composite)
			mv := opaqueOf(min)
			fp := fmt.Sprintf("newvalue/opaque/%s/%s/%s", clause, detail, deliveryDetail(mv, clause, dl))
			_, mdet, menc := roundtrip(enum.NewFragReader(nil, nil, 0, 0), mv, dl)
			rank := fmt.Sprintf("%06d|%s|%s", len(menc), min.T, min)
			if run.Fail(fp, rank) {
				dd := dl
				run.Keep(fp, rank, fmt.Sprintf("value.Opaque(%q, %s) = %s, encoding %s, %s: %s", min.T, hexs(refmodel.Encode(min)), min, hexs(menc), dl, mdet),
					replayOf("value.NewValue", mv, menc, dl, clause, mdet), func() bool {
						cl, _, _ := roundtrip(enum.NewFragReader(nil, nil, 0, 0), mv, dd)
						return cl == clause
					})
			}
			_, _ = det, enc
		}
		local := map[string]int{}
		for o := range outcomes {
			local["opaque|"+t.Shape()+"|"+o]++
		}
		run.DistinctSet(local)
		if i == 17 || i == len(comp)/2 {
			d := enum.Dist(t)
			run.Sample(14, map[string]interface{}{"family": "opaque", "signature": t.String(), "value": d.String(), "data_hex": hexs(refmodel.Encode(d))})
		}
	})
	for _, c := range counts {
		nvals += c
	}
	if !all {
		run.Note("opaque: %d of %d composite signatures completed before the deadline (signatures are ordered by construction, depth-1 first)", done, len(comp))
	}
	return len(comp), nvals
}

// ---------------------------------------------------------------- family d

// familyOpaqueAtoms: Opaque with a non-composite signature. Decided for the
// scalar/string atoms; 'm' and 'o' are only observed (the statement lists
// "values of any composite signature carried opaquely").
func familyOpaqueAtoms() map[string]string {
	fam := run.Family("opaque-atom")
	obs := map[string]string{}
	rd := enum.NewFragReader(nil, nil, 0, 0)
	g := run.NewGuard()
	for _, l := range "cCwWiIlLfdbsmo" {
		t := refmodel.Atom(byte(l))
		for _, d := range enum.Vals(t) {
			v := opaqueOf(d)
			clause, det, enc, dl := firstFailure(g, rd, v, fam, deliveries)
			out := "ok"
			if clause != "" {
				out = clause
			}
			run.Distinct(fmt.Sprintf("opaque-atom|%c|%s", l, out))
			if clause == "" {
				continue
			}
			if l == 'm' || l == 'o' {
				if _, ok := obs[string(l)]; !ok {
					obs[string(l)] = fmt.Sprintf("not decided: value.Opaque(%q, ...) does not round-trip (%s: %s)", string(l), clause, det)
				}
				continue
			}
			fp := fmt.Sprintf("newvalue/opaque-atom/%s/%c/%s", clause, l, deliveryDetail(v, clause, dl))
			vv, dd := v, dl
			run.Violation(fp, fmt.Sprintf("%06d|%s", len(enc), d), fmt.Sprintf("value.Opaque(%q, %s), encoding %s, %s: %s", string(l), hexs(refmodel.Encode(d)), hexs(enc), dl, det),
				replayOf("value.NewValue", v, enc, dl, clause, det), func() bool {
					cl, _, _ := roundtrip(enum.NewFragReader(nil, nil, 0, 0), vv, dd)
					return cl == clause
				})
		}
	}
	// composite signatures using the raw atom 'r' of the documented grammar
	for _, sig := range []string{"[r]", "(r)", "{sr}"} {
		d := enum.Dist(refmodel.MustParse(sig))
		clause, det, _, _ := firstFailure(g, rd, opaqueOf(d), fam, deliveries)
		if clause != "" {
			obs[sig] = fmt.Sprintf("not decided: the repository's signature parser has no 'r' atom (%s: %s)", clause, det)
		}
	}
	return obs
}

var (
	nlists, nsigs int
	nvals         int64
	obs           map[string]string
	lengthSweep   map[string]interface{}
	valueOfValue  map[string]interface{}
	listShape     map[string]interface{}
	retained      int
)

func main() {
	run = enum.NewRun("C02", 75*time.Second, 11*time.Minute)
	depth := 2
	if run.Thorough() {
		depth = 3
	}
	finish := func() int {
		rule := "families: constructor = 13 constructors x Val(T); list = every value.List nested to depth D with 0..2 elements drawn from 11 base values " +
			"(scalars, string, raw, void, 4 opaque composites) and the lists of the previous depth (at most one nested list per list); " +
			"opaque = every composite signature of Sig(D,2) (outer atoms c C w W i I l L f d b s m; plus 11 fixed signatures containing o) x every datum of Val(sig) encoded by the reference model (depth-3 signatures: distinguished and zero value only, 2 deliveries); opaque-atom = 14 atom signatures x Val; " +
			"length-sweep = the variable-length leaves s (string of n bytes), r (raw buffer of n bytes), m-signature (opaque value whose signature string has n >= 1 bytes), list (opaque [C] of n <= 4096 elements), value-list (value.List of n <= 4096 integers) " +
			"x every length 0..300 (s, r, m-signature taken alone: every length 0..4200) and, around every power of two from 512 to 64 KiB (thorough: 1 MiB), 2^k-1, 2^k, 2^k+1 and 2^k+2^(k-1), plus 70000 (thorough: s and r alone and at value.List(x, Int), m-signature alone, at every length 0..70000 under the delivery sentinel follows/unfragmented) " +
			"x the positions alone, value.List(x, Int), value.List(Int, x), Opaque (i t), Opaque (t i), Opaque [t, t'], Opaque ([m<t>, m<i>]) (r: the first three only; coverage.length_sweep lists positions and lengths per leaf) - the full product, no subset - with position-dependent content without period, " +
			"each value under 9 deliveries (the 6 below, sentinel follows/4093-byte reads, *bytes.Buffer and *bufio.Reader over the encoding and a sentinel); a failure is attributed to the smallest failing length (bisection between enumerated lengths). " +
			"retained = every list value of depth <= 2 plus raw buffers, strings and opaque (s[C]) data of 0..70000 bytes decoded from a *bytes.Buffer whose storage is then overwritten and reused: the decoded value still re-encodes to the original bytes; " +
			"list-shape = value.List values whose shape grows: a list of n one-element lists (n = 0..70, 100, 127..129, 255..257, 1000, 4096), n rows of n pairs (n <= 12, 16, 32), a tree of lists of height <= 8 (255 lists), a chain of n nested lists (n = 0..70, 100, 128, 200, 256; also hanging at the last position), 3 deliveries, the smallest failing size of each kind is reported; " +
			"value-of-value = dynamic values whose own signature is m: W(x,k) = m<x> inside k further dynamic values, k = 0 (control), 1, 2, 3, x in 26 innermost data (the 11 scalar kinds, \"ab\", \"\", void, [i] with one and no element, [s], [m], (is), {sI} with one and no entry, (i)<S,a>, (mi), [(is)], {s[i]}, ()) " +
			"x 25 positions inside an opaque composite (member of a tuple / struct: sole, non-last, last, both, before / after a plain dynamic value; element of a list inside a tuple and of a list of lists: sole, non-last, last, both; value and key of a map: sole, non-last, last, key and value; member of a tuple, list or map that is itself carried by a dynamic value), full oracle, " +
			"and x 6 positions read by NewValue itself (the value alone, element of a value.List: sole, non-last, last, element of value.Opaque(\"[m]\"): non-last, last) where for k >= 1 the clauses signature-differs, reencode-differs and value-differs are observed, not decided (coverage.value_of_value lists positions, data and observations) - the full product, 6 deliveries; " +
			"plus every composite signature of the family opaque that contains m (other than [m] itself, which NewValue reads with its list constructor) x every dynamic value of its distinguished datum in turn replaced by W(x,k), x in i, \"ab\", [i], (mi), k = 1, 2, 3 (depth-3 signatures: x in i, (mi), k = 1, 2, 2 deliveries), 3 deliveries. " +
			"Every value is evaluated under 6 deliveries ({data+EOF, EOF separate, 8 sentinel bytes follow} x {unfragmented, 1 byte per read}), opaque composites under 3 (exact buffer with data+EOF; sentinel follows; 1 byte per read with a separate EOF); evaluations counts (value, delivery) pairs. " +
			"A case class is (family, signature shape with struct names dropped | constructor letter and encoding length | list depth, length and element kinds | length-sweep: leaf, position and length class (0..300, 301..4200, power-of-two neighbourhood), outcome | value-of-value: position, shape of the innermost datum, control or wrapped, outcome; universe: signature shape, outcome); " +
			"distinct_nontrivial counts the distinct classes executed"
		extra := map[string]interface{}{
			"depth": depth, "opaque_composite_signatures": nsigs, "opaque_values": nvals, "list_values": nlists,
			"deliveries_per_value": len(deliveries), "deliveries_per_opaque_value": len(opaqueDeliveries), "observations_not_decided": obs,
			"length_sweep": lengthSweep, "value_of_value": valueOfValue, "list_shape": listShape, "retained_values": retained,
		}
		assumptions := []string{
			"opaque data are produced by the reference model written from doc/about-qimessaging.md; 'r' is taken as count + bytes; 8/16-bit integers as little-endian fixed width",
			"top-level value.Opaque(\"m\", ...) and value.Opaque(\"o\", ...) are observed but not decided: the statement speaks of composite signatures carried opaquely (NewValue unwraps \"m\" and expands \"o\" to the ObjectReference signature)",
			"composite signatures containing 'r' or 'X' or 'v' are not enumerated: the repository's signature grammar has no 'r' atom; 'X' has no serialization",
			"dynamic values nested in opaque data carry i, s, b, C, d, [i], (is), {sI}, v, [s] at nesting level <= 1 and i, s, [i] deeper in the families opaque and list; dynamic values whose concrete type is itself 'm' (values of values, up to 3 wrappers) are enumerated by the family value-of-value at the stated positions and, in the signature universe, in the distinguished datum only (one dynamic value at a time)",
			"value-of-value: at the positions read by value.NewValue itself (a value of signature \"m\" alone, as element of a value.List or of value.Opaque(\"[m]\")) NewValue unwraps \"m\" by its dispatch table, so a value of a value comes back as the innermost value: signature-differs / reencode-differs / value-differs are observed there, not decided (same status as top-level value.Opaque(\"m\", ...)); errors, panics, hangs and the number of bytes consumed are decided; more than 3 wrappers are not enumerated",
			"length-sweep: thresholds on the length of a leaf are looked for at every length up to 300 (4200 for a string, a raw buffer or a signature alone) and next to the powers of two up to 64 KiB (thorough 1 MiB; thorough also every length up to 70000 for a string, a raw buffer and a signature alone); a defect that only shows for lengths in a narrow band elsewhere is not reached; lengths above 1 MiB + 1 (the codec accepts 10 MiB) and lists above the documented cap of 4096 entries are not enumerated",
			"a decode that does not return within the hang limit (5 executions) is reported as a violation with the clause 'hang' and ends the enumeration",
		}
		return run.Finish(rule, true, extra, assumptions)
	}
	run.SetAbortFinish(15*time.Second, finish)
	// the length sweep first: a fixed set of values, never cut by the deadline
	lengthSweep = familyLengthSweep(run.Thorough())
	familyConstructors()
	obs = familyOpaqueAtoms()
	valueOfValue = familyValueOfValue(depth)
	nlists = familyLists(depth)
	listShape = familyListShape(run.Thorough())
	retained = familyRetained()
	nsigs, nvals = familyOpaque(depth)
	os.Exit(finish())
}
