package main

// Family "length-sweep": every variable-length leaf of a dynamic value taken
// through a sweep of LENGTHS.
//
// Val(T) stops at 255-byte strings, 3-byte raw buffers and lists of two
// elements, so a path the codec takes only from - or up to - a certain length
// on (an on-stack buffer for short strings, a read through a fixed scratch
// buffer, a pre-allocation limit) is not reached by the other families. Such
// thresholds are small or sit at a power of two: see
// internal/enum/lensweep.go for the set of lengths (every length 0..300,
// every length 0..4200 for a string, a raw buffer or a signature taken alone;
// 2^k-1, 2^k, 2^k+1 and 2^k+2^(k-1) for 512 <= 2^k <= 64 KiB [thorough:
// 1 MiB]; 70000; thorough: s and r alone and followed by another value in a
// value.List, and m-signature alone, at every length up to 70000 under one
// delivery).
//
// Leaves:
//
//	s            a string of n bytes
//	r            a raw buffer of n bytes (value.Raw; the signature grammar of
//	             the repository has no 'r', so a raw buffer only exists as a
//	             value of its own: alone, and as element of a value.List)
//	m-signature  an opaque value whose SIGNATURE STRING has n bytes, n >= 1:
//	             "i" (1), the tuple of n-2 bytes "(C...C)" (2..7), the
//	             structure "(i)<S,<identifier of n-7 characters>>" (8 and
//	             more)
//	list         an opaque list [C] of n one-byte elements, n <= 4096 (the
//	             documented cap of the codecs)
//	value-list   a value.List of n integer values, n <= 4096 (the same cap)
//
// Positions - what follows the leaf must come out untouched and the number
// of bytes taken from the reader must be exact (x: the leaf as a value of
// its own; t: the leaf as typed data inside an opaque value):
//
//	alone                          x
//	value-list-followed            value.List(x, Int)
//	value-list-last                value.List(Int, x)
//	tuple-last                     Opaque("(iT)", (i, t))
//	tuple-non-last                 Opaque("(Ti)", (t, i))
//	list-elem-followed             Opaque("[T]", [t, short t'])   (not m-signature)
//	opaque-value-in-list-followed  Opaque("([m])", ([m<t>, m<i>]))
//
// Content: position-dependent bytes without period (enum.SweepContentRule).
// Every value goes through the oracle of the check (Write, NewValue, exact
// consumption, same signature, identical re-encoding, equal value) under
// nine deliveries: the six of the other families, a sentinel follows with
// reads of at most 4093 bytes, a *bytes.Buffer holding the encoding and the
// sentinel, and a *bufio.Reader over them (bytes taken = bytes neither left
// in the source nor buffered).
//
// Attribution: per (leaf, position) the smallest failing length of the
// enumeration is refined to the smallest failing length m (bisection between
// the largest enumerated length that passes and the failing one: m-1 passes,
// m fails); positions of a leaf that share m are filed under the first of
// them (order above). A position at which EVERY enumerated length fails is
// not a matter of length: it is labelled every-length instead of n=<m>.
// Fingerprint:
// newvalue/length-sweep/<clause>/<leaf>/<position>/n=<m>/<any-delivery|delivery>.

import (
	"bufio"
	"bytes"
	"fmt"
	"io"
	"runtime/debug"
	"sort"
	"strings"
	"sync"
	"sync/atomic"
	"time"

	"github.com/lugu/qiloop/type/value"

	"verif/internal/enum"
	"verif/internal/refmodel"
)

// sweepDelivery says how an encoding reaches NewValue in this family.
type sweepDelivery struct {
	name  string
	mode  enum.EOFMode
	chunk int
	kind  int // 0 fragmenting reader, 1 *bytes.Buffer + sentinel, 2 *bufio.Reader over encoding + sentinel
}

var sweepDeliveries = []sweepDelivery{
	{"EOF-separate/unfragmented", enum.EOFSeparate, 0, 0},
	{"data+EOF/unfragmented", enum.EOFWithData, 0, 0},
	{"more-follows/unfragmented", enum.NoEOF, 0, 0},
	{"more-follows/4093-byte-reads", enum.NoEOF, 4093, 0},
	{"reader=bytes.Buffer/more-follows", 0, 0, 1},
	{"reader=bufio.Reader/more-follows", 0, 0, 2},
	{"more-follows/1-byte-reads", enum.NoEOF, 1, 0},
	{"data+EOF/1-byte-reads", enum.EOFWithData, 1, 0},
	{"EOF-separate/1-byte-reads", enum.EOFSeparate, 1, 0},
}

// the most benign delivery (a failure under it is named any-delivery), and
// the one delivery of the every-length values of the thorough tier: the one
// that shows the most (a decoder that takes too much reads the sentinel)
var (
	sweepBenign = sweepDeliveries[0]
	sweepSingle = sweepDeliveries[2]
)

func (d sweepDelivery) open(enc []byte) (io.Reader, func() int) {
	switch d.kind {
	case 1:
		bb := bytes.NewBuffer(append(append([]byte(nil), enc...), enum.Sentinel...))
		return bb, func() int { return len(enc) + len(enum.Sentinel) - bb.Len() }
	case 2:
		under := bytes.NewReader(append(append([]byte(nil), enc...), enum.Sentinel...))
		br := bufio.NewReader(under)
		return br, func() int { return len(enc) + len(enum.Sentinel) - under.Len() - br.Buffered() }
	}
	rd := enum.NewFragReader(enc, nil, d.mode, d.chunk)
	return rd, rd.Pos
}

func sweepRoundtrip(v value.Value, dl sweepDelivery) (string, string, []byte) {
	return roundtripFrom(v, dl.open)
}

type sweepLeaf struct {
	name     string
	what     string
	min, max int
	dense    int                         // every length up to dense when taken alone
	val      func(n int) value.Value     // the leaf as a value of its own
	typed    func(n int) *refmodel.Datum // the leaf as typed data (nil: not expressible)
	carried  func(n int) *refmodel.Datum // what a dynamic value holding the leaf carries (nil: not expressible)
	sibling  func() *refmodel.Datum      // a short datum of the type of typed (nil: no list-elem position)
	length   func(n int) int             // self-check: the length of the leaf built for n (no code under test involved)
}

type sweepPos struct {
	name string
	// build returns the value, and the datum it was encoded from when the
	// value is opaque; a nil value: the position does not apply to the leaf
	build func(l sweepLeaf, n int) (value.Value, *refmodel.Datum)
}

func sweepOpaque(d *refmodel.Datum) value.Value {
	return value.Opaque(d.T.String(), refmodel.Encode(d))
}

func sweepOpaque2(d *refmodel.Datum) (value.Value, *refmodel.Datum) { return sweepOpaque(d), d }

// sweepSigDatum returns a datum whose signature has exactly n characters.
func sweepSigDatum(n int) *refmodel.Datum {
	switch {
	case n == 1:
		return enum.Dist(refmodel.Atom('i'))
	case n < 8:
		var ms []*refmodel.Type
		d := &refmodel.Datum{}
		for j := 0; j < n-2; j++ {
			ms = append(ms, refmodel.Atom('C'))
			d.Elems = append(d.Elems, &refmodel.Datum{T: ms[j], U: uint64(0xa1 + j)})
		}
		d.T = refmodel.TupleOf(ms...)
		return d
	}
	it := refmodel.Atom('i')
	return &refmodel.Datum{T: refmodel.StructOf("S", []string{enum.SweepIdent(n-7, 0)}, it), Elems: []*refmodel.Datum{enum.Dist(it)}}
}

const sweepListCap = 4096 // listValueMaxSize of type/value and type/encoding

func sweepLeaves() []sweepLeaf {
	sT, mT, cT, iT := refmodel.Atom('s'), refmodel.Atom('m'), refmodel.Atom('C'), refmodel.Atom('i')
	lT, vlT := refmodel.ListOf(cT), refmodel.ListOf(mT)
	str := func(n int) *refmodel.Datum { return &refmodel.Datum{T: sT, S: enum.SweepString(n, 0)} }
	bytesList := func(n int) *refmodel.Datum {
		d := &refmodel.Datum{T: lT}
		for _, b := range enum.SweepBytes(n, 0) {
			d.Elems = append(d.Elems, &refmodel.Datum{T: cT, U: uint64(b)})
		}
		return d
	}
	nthInt := func(j int) uint32 { return uint32(j+1) * 0x9E3779B1 }
	valueList := func(n int) *refmodel.Datum {
		d := &refmodel.Datum{T: vlT}
		for j := 0; j < n; j++ {
			d.Elems = append(d.Elems, &refmodel.Datum{T: mT, Dyn: &refmodel.Datum{T: iT, U: uint64(nthInt(j))}})
		}
		return d
	}
	return []sweepLeaf{
		{name: "s", what: "a string of n bytes", min: 0, max: -1, dense: sweepDenseAlone,
			val:   func(n int) value.Value { return value.String(enum.SweepString(n, 0)) },
			typed: str, carried: str, sibling: func() *refmodel.Datum { return enum.Dist(sT) },
			length: func(n int) int { return len(value.String(enum.SweepString(n, 0)).(value.StringValue)) }},
		{name: "r", what: "a raw buffer of n bytes (value.Raw; no 'r' in the signature grammar: alone and inside value.List only)", min: 0, max: -1, dense: sweepDenseAlone,
			val:    func(n int) value.Value { return value.Raw(enum.SweepBytes(n, 0)) },
			length: func(n int) int { return len(value.Raw(enum.SweepBytes(n, 0)).(value.RawValue)) }},
		{name: "m-signature", what: "an opaque value whose signature string has n bytes: \"i\" (n=1), \"(C...C)\" with n-2 members (2..7), \"(i)<S,identifier of n-7 characters>\" (n>=8)", min: 1, max: -1, dense: sweepDenseAlone,
			val: func(n int) value.Value {
				if n == 1 {
					// a value of signature "i" is an integer value (NewValue
					// returns the typed value for an atom signature)
					return value.Int(int32(enum.Dist(iT).U))
				}
				return sweepOpaque(sweepSigDatum(n))
			},
			typed:   func(n int) *refmodel.Datum { return &refmodel.Datum{T: mT, Dyn: sweepSigDatum(n)} },
			carried: sweepSigDatum,
			length:  func(n int) int { return len(sweepSigDatum(n).T.String()) }},
		{name: "list", what: "an opaque list [C] of n one-byte elements (n <= 4096, the documented cap)", min: 0, max: sweepListCap, dense: enum.SweepDenseMax,
			val:   func(n int) value.Value { return sweepOpaque(bytesList(n)) },
			typed: bytesList, carried: bytesList, sibling: func() *refmodel.Datum { return enum.Dist(lT) },
			length: func(n int) int { return len(bytesList(n).Elems) }},
		{name: "value-list", what: "a value.List of n integer values (n <= 4096, the documented cap)", min: 0, max: sweepListCap, dense: enum.SweepDenseMax,
			val: func(n int) value.Value {
				l := make([]value.Value, n)
				for j := range l {
					l[j] = value.Int(int32(nthInt(j)))
				}
				return value.List(l)
			},
			typed: valueList, carried: valueList, sibling: func() *refmodel.Datum { return enum.Dist(vlT) },
			length: func(n int) int { return len(valueList(n).Elems) }},
	}
}

func sweepPositions() []sweepPos {
	type D = refmodel.Datum
	iT, mT := refmodel.Atom('i'), refmodel.Atom('m')
	follower := value.Int(0x01020304)
	tuple := func(ms ...*D) *D {
		var ts []*refmodel.Type
		for _, m := range ms {
			ts = append(ts, m.T)
		}
		return &D{T: refmodel.TupleOf(ts...), Elems: ms}
	}
	return []sweepPos{
		{"alone", func(l sweepLeaf, n int) (value.Value, *D) { return l.val(n), nil }},
		{"value-list-followed", func(l sweepLeaf, n int) (value.Value, *D) {
			return value.List([]value.Value{l.val(n), follower}), nil
		}},
		{"value-list-last", func(l sweepLeaf, n int) (value.Value, *D) {
			return value.List([]value.Value{follower, l.val(n)}), nil
		}},
		{"tuple-last", func(l sweepLeaf, n int) (value.Value, *D) {
			if l.typed == nil {
				return nil, nil
			}
			return sweepOpaque2(tuple(enum.Dist(iT), l.typed(n)))
		}},
		{"tuple-non-last", func(l sweepLeaf, n int) (value.Value, *D) {
			if l.typed == nil {
				return nil, nil
			}
			return sweepOpaque2(tuple(l.typed(n), enum.Dist(iT)))
		}},
		{"list-elem-followed", func(l sweepLeaf, n int) (value.Value, *D) {
			if l.typed == nil || l.sibling == nil {
				return nil, nil
			}
			x := l.typed(n)
			return sweepOpaque2(&D{T: refmodel.ListOf(x.T), Elems: []*D{x, l.sibling()}})
		}},
		{"opaque-value-in-list-followed", func(l sweepLeaf, n int) (value.Value, *D) {
			if l.carried == nil {
				return nil, nil
			}
			return sweepOpaque2(tuple(&D{T: refmodel.ListOf(mT), Elems: []*D{{T: mT, Dyn: l.carried(n)}, enum.Dist(mT)}}))
		}},
	}
}

// sweepDenseAlone: a string, a raw buffer and a signature taken alone go
// through every length up to one page and its header.
const sweepDenseAlone = 4200

// sweepEveryAlone: in the thorough tier a string, a raw buffer and a
// signature taken alone, and a string and a raw buffer followed by another
// value in a value.List, go through every length up to this one (one
// delivery: a sentinel follows, unfragmented).
const sweepEveryAlone = 70000

func sweepEveryAt(leaf, pos string) bool {
	switch leaf {
	case "s", "r":
		return pos == "alone" || pos == "value-list-followed"
	case "m-signature":
		return pos == "alone"
	}
	return false
}

type sweepCase struct {
	leaf, pos int
	n         int
	every     bool // thorough tier: first delivery only
}

type sweepFailure struct {
	sweepCase
	dl     sweepDelivery
	clause string
}

type sweepFamily struct {
	leaves  []sweepLeaf
	pos     []sweepPos
	ncases  map[[2]int]int // data planned per (leaf, position)
	lengths [][][]int      // per leaf and position (nil: position not applicable)
}

func (f *sweepFamily) value(c sweepCase) value.Value {
	v, _ := f.pos[c.pos].build(f.leaves[c.leaf], c.n)
	return v
}

func clip(s string, n int) string {
	if len(s) > n {
		return s[:n] + fmt.Sprintf("...(%d characters)", len(s))
	}
	return s
}

// familyLengthSweep runs the family and returns its description for the
// evidence.
func familyLengthSweep(thorough bool) map[string]interface{} {
	started := time.Now()
	fam := run.Family("length-sweep")
	f := &sweepFamily{leaves: sweepLeaves(), pos: sweepPositions()}
	if msg := enum.SweepContentCheck(1 << 16); msg != "" {
		run.EngineError("length-sweep: the content is periodic: %s", msg)
		return nil
	}
	var cases []sweepCase
	nevery := 0
	perLeaf := map[string]interface{}{}
	for li, l := range f.leaves {
		f.lengths = append(f.lengths, make([][]int, len(f.pos)))
		var ps []string
		for pi, p := range f.pos {
			if v, _ := p.build(l, l.min); v == nil {
				continue
			}
			dense := enum.SweepDenseMax
			if p.name == "alone" {
				dense = l.dense
			}
			ls := enum.SweepLengths(thorough, dense, l.min, l.max)
			f.lengths[li][pi] = ls
			ps = append(ps, fmt.Sprintf("%s (%d lengths, %d..%d)", p.name, len(ls), ls[0], ls[len(ls)-1]))
			for _, n := range ls {
				cases = append(cases, sweepCase{leaf: li, pos: pi, n: n})
			}
			if thorough && sweepEveryAt(l.name, p.name) {
				seen := map[int]bool{}
				for _, n := range ls {
					seen[n] = true
				}
				for n := 0; n <= sweepEveryAlone; n++ {
					if !seen[n] {
						cases = append(cases, sweepCase{leaf: li, pos: pi, n: n, every: true})
						nevery++
					}
				}
			}
		}
		perLeaf[l.name] = map[string]interface{}{"what": l.what, "positions": ps}
	}
	// self-check of the construction (nothing of the code under test decides
	// it): the leaf has the stated length; opaque data are read back by the
	// reference model as a datum of the stated signature
	for li, l := range f.leaves {
		ls := f.lengths[li][0]
		for _, n := range []int{ls[0], 125, ls[len(ls)-1]} {
			if got := l.length(n); got != n {
				run.EngineError("length-sweep: leaf %s built with length %d instead of %d", l.name, got, n)
				return nil
			}
			for pi, p := range f.pos {
				if f.lengths[li][pi] == nil {
					continue
				}
				_, d := p.build(l, n)
				if d == nil {
					continue
				}
				t, err := refmodel.ParseSig(d.T.String())
				if err != nil {
					run.EngineError("length-sweep: %s at %s with n=%d: the reference model does not parse the signature: %v", l.name, p.name, n, err)
					return nil
				}
				data := refmodel.Encode(d)
				back, k, err := refmodel.Decode(t, data)
				if err != nil || k != len(data) || !bytes.Equal(refmodel.Encode(back), data) {
					run.EngineError("length-sweep: %s at %s with n=%d is not read back by the reference model: %v", l.name, p.name, n, err)
					return nil
				}
			}
		}
	}
	f.ncases = map[[2]int]int{}
	for _, c := range cases {
		f.ncases[[2]int{c.leaf, c.pos}]++
	}
	// the longest values first: the tail of the parallel run is made of short ones
	sort.SliceStable(cases, func(a, b int) bool { return cases[a].n > cases[b].n })

	// every decode of a long leaf allocates its length several times over: with
	// the default pacing the collector would run every few cases
	oldGC, oldLimit := debug.SetGCPercent(-1), debug.SetMemoryLimit(1<<30)
	defer func() { debug.SetGCPercent(oldGC); debug.SetMemoryLimit(oldLimit) }()

	guards := make(chan *enum.Guard, run.Workers+1)
	for i := 0; i <= run.Workers; i++ {
		guards <- run.NewGuard()
	}
	var mu sync.Mutex
	var failures []sweepFailure
	var nvalues, nbytes int64
	busy := make([]int64, len(f.leaves))
	done, all := run.Parallel(len(cases), func(i int) {
		g := <-guards
		defer func() { guards <- g }()
		c := cases[i]
		t0 := time.Now()
		defer func() { atomic.AddInt64(&busy[c.leaf], int64(time.Since(t0))) }()
		v := f.value(c)
		leaf, pos := f.leaves[c.leaf].name, f.pos[c.pos].name
		atomic.AddInt64(&nvalues, 1)
		class := "0.." + fmt.Sprint(enum.SweepDenseMax)
		switch {
		case c.every:
			class = "every-length-first-delivery-only"
		case c.n > sweepDenseAlone || (c.n > enum.SweepDenseMax && (pos != "alone" || f.leaves[c.leaf].dense <= enum.SweepDenseMax)):
			class = "power-of-two-neighbourhood"
		case c.n > enum.SweepDenseMax:
			class = fmt.Sprintf("%d..%d", enum.SweepDenseMax+1, sweepDenseAlone)
		}
		dls := sweepDeliveries
		if c.every {
			dls = []sweepDelivery{sweepSingle}
		}
		out := "ok"
		for di, dl := range dls {
			dl := dl
			g.Begin(fmt.Sprintf("newvalue/hang/length-sweep/%s/%s", leaf, pos), func() (string, interface{}) {
				return fmt.Sprintf("value.NewValue on the encoding of the leaf %s of length %d at position %s (signature %s), %s", leaf, c.n, pos, clip(v.Signature(), 80), dl.name),
					map[string]interface{}{"entry": "value.NewValue", "family": "length-sweep", "leaf": leaf, "position": pos, "n": c.n, "content_rule": enum.SweepContentRule, "delivery": dl.name}
			}, func() { sweepRoundtrip(f.value(c), dl) })
			clause, _, enc := sweepRoundtrip(v, dl)
			g.End()
			run.Eval(fam, 1)
			if di == 0 {
				atomic.AddInt64(&nbytes, int64(len(enc)))
			}
			if clause != "" {
				out = clause
				mu.Lock()
				failures = append(failures, sweepFailure{c, dl, clause})
				mu.Unlock()
				break
			}
		}
		run.Distinct(fmt.Sprintf("length-sweep|%s|%s|%s|%s", leaf, pos, class, out))
	})
	if !all {
		run.Note("length-sweep: %d of %d values completed before the deadline (the longest first)", done, len(cases))
	}
	f.attribute(failures)

	if len(cases) > 0 {
		v := f.value(sweepCase{leaf: 0, pos: 4, n: 125})
		enc, _ := encodeValue(v)
		run.Sample(14, map[string]interface{}{"family": "length-sweep", "leaf": "s", "position": "tuple-non-last", "n": 125,
			"value": "Opaque(\"(si)\", (string of 125 bytes, 0x01020304))", "encoding_hex": hexs(enc)})
	}
	busyS := map[string]float64{}
	for li, l := range f.leaves {
		busyS[l.name] = float64(busy[li]) / 1e9
	}
	var pnames, dnames []string
	for _, p := range f.pos {
		pnames = append(pnames, p.name)
	}
	for _, dl := range sweepDeliveries {
		dnames = append(dnames, dl.name)
	}
	every := map[string]interface{}{"values": nevery}
	if thorough {
		every["every_length_up_to"], every["leaves"], every["delivery"] = sweepEveryAlone, []string{"s alone", "s value-list-followed", "r alone", "r value-list-followed", "m-signature alone"}, sweepSingle.name
	}
	return map[string]interface{}{
		"lengths_dense":                       fmt.Sprintf("every length 0..%d at every position; every length 0..%d for s, r and m-signature taken alone", enum.SweepDenseMax, sweepDenseAlone),
		"lengths_power_of_two_neighbourhoods": enum.SweepPow(thorough),
		"lengths_first_delivery_only":         every,
		"leaves":                              perLeaf, "positions": pnames, "deliveries": dnames,
		"values_executed": nvalues, "values_planned": len(cases), "bytes_of_encoding": nbytes, "failing_values": len(failures),
		"content_rule": enum.SweepContentRule, "wall_s": time.Since(started).Seconds(), "worker_seconds_per_leaf": busyS,
	}
}

// attribute files the failures of the family, see the head of the file.
func (f *sweepFamily) attribute(failures []sweepFailure) {
	type key struct{ leaf, pos int }
	first := map[key]sweepFailure{}
	count := map[key]int{}
	last := map[key]int{}
	for _, fl := range failures {
		k := key{fl.leaf, fl.pos}
		count[k]++
		if fl.n > last[k] {
			last[k] = fl.n
		}
		if cur, ok := first[k]; !ok || fl.n < cur.n {
			first[k] = fl
		}
	}
	var keys []key
	for k := range first {
		keys = append(keys, k)
	}
	sort.Slice(keys, func(a, b int) bool {
		if keys[a].leaf != keys[b].leaf {
			return keys[a].leaf < keys[b].leaf
		}
		return keys[a].pos < keys[b].pos
	})
	type filed struct {
		fp    string
		where []string
	}
	byThreshold := map[string]*filed{}
	for _, k := range keys {
		fl := first[k]
		leaf, pos := f.leaves[k.leaf], f.pos[k.pos]
		fails := func(n int) bool {
			c, _, _ := sweepRoundtrip(f.value(sweepCase{leaf: k.leaf, pos: k.pos, n: n}), fl.dl)
			return c != ""
		}
		// a failure at every enumerated length is not a matter of length
		every := count[k] == f.ncases[[2]int{k.leaf, k.pos}]
		m := fl.n
		if !every {
			m = enum.SweepThreshold(f.lengths[k.leaf][k.pos], fl.n, leaf.min, fails)
		}
		min := sweepCase{leaf: k.leaf, pos: k.pos, n: m}
		v := f.value(min)
		mclause, det, enc := sweepRoundtrip(v, fl.dl)
		if mclause == "" || (!every && m > leaf.min && fails(m-1)) {
			// the oracle did observe a failure at length fl.n during the
			// enumeration, but the same input, decoded again on its own, gives
			// another answer (the length m found by bisection passes now, or
			// the length below it fails now): the code under test depends on
			// what it decoded before. That is a violation of its own kind,
			// not a failure of the tool.
			ov := f.value(fl.sweepCase)
			oenc, _ := encodeValue(ov)
			run.Unstable(fmt.Sprintf("newvalue/length-sweep/%s/%s/%s", fl.clause, leaf.name, pos.name),
				fmt.Sprintf("leaf %s (%s) of length %d at position %s, value of signature %s, encoding of %d bytes %s, %s: clause %s during the enumeration (%d of the %d enumerated lengths failed at this position, the smallest %d, the largest %d); re-running lengths %d..%d alone gave different answers",
					leaf.name, leaf.what, fl.n, pos.name, clip(ov.Signature(), 120), len(oenc), hexs(oenc), fl.dl.name, fl.clause, count[k], f.ncases[[2]int{k.leaf, k.pos}], fl.n, last[k], m-1, fl.n),
				map[string]interface{}{"entry": "value.NewValue", "family": "length-sweep", "leaf": leaf.name, "position": pos.name, "n": fl.n,
					"signature": clip(ov.Signature(), 200), "content_rule": enum.SweepContentRule, "encoding_hex": hexs(oenc), "encoding_len": len(oenc),
					"delivery": fl.dl.name, "clause": fl.clause, "observed": "the clause was violated during the enumeration and not when the case was re-run alone",
					"expected": "NewValue succeeds, consumes exactly the encoding, keeps the signature, and Write of the result reproduces the encoding - whatever was decoded before"})
			continue
		}
		tk := fmt.Sprintf("%d|%d", k.leaf, m)
		label := fmt.Sprintf("n=%d", m)
		if every {
			tk, label = fmt.Sprintf("%d|every", k.leaf), "every-length"
		}
		if prev, ok := byThreshold[tk]; ok {
			for i := 0; i < count[k]; i++ {
				run.Fail(prev.fp, "\xff")
			}
			prev.where = append(prev.where, pos.name)
			continue
		}
		how := fl.dl.name
		if c, _, _ := sweepRoundtrip(v, sweepBenign); c == mclause {
			how = "any-delivery"
		}
		fp := fmt.Sprintf("newvalue/length-sweep/%s/%s/%s/%s/%s", mclause, leaf.name, pos.name, label, how)
		byThreshold[tk] = &filed{fp: fp}
		det = clip(det, 700)
		handled := "no shorter length exists"
		if every {
			handled = "every enumerated length fails at this position: the length is not the cause"
		} else if m > leaf.min {
			handled = fmt.Sprintf("length %d is handled", m-1)
		}
		what := fmt.Sprintf("leaf %s (%s) of length %d at position %s, value of signature %s, encoding of %d bytes %s, %s: %s; %s; %d of the %d enumerated lengths fail at this position, the smallest %d, the largest %d",
			leaf.name, leaf.what, m, pos.name, clip(v.Signature(), 120), len(enc), hexs(enc), fl.dl.name, det, handled, count[k], f.ncases[[2]int{k.leaf, k.pos}], fl.n, last[k])
		replay := map[string]interface{}{"entry": "value.NewValue", "family": "length-sweep", "leaf": leaf.name, "position": pos.name, "n": m,
			"signature": clip(v.Signature(), 200), "content_rule": enum.SweepContentRule, "encoding_hex": hexs(enc), "encoding_len": len(enc),
			"delivery": fl.dl.name, "clause": mclause, "observed": det, "failing_enumerated_lengths": map[string]int{"count": count[k], "of": f.ncases[[2]int{k.leaf, k.pos}], "smallest": fl.n, "largest": last[k]},
			"expected": "NewValue succeeds, consumes exactly the encoding, keeps the signature, and Write of the result reproduces the encoding"}
		dl := fl.dl
		rank := fmt.Sprintf("%08d", m)
		for i := 0; i < count[k]; i++ {
			if run.Fail(fp, rank) && i == 0 {
				run.Keep(fp, rank, what, replay, func() bool { c, _, _ := sweepRoundtrip(f.value(min), dl); return c == mclause })
			}
		}
	}
	var lines []string
	for _, fd := range byThreshold {
		if len(fd.where) > 0 {
			lines = append(lines, fmt.Sprintf("%s also fails from the same length on at: %s", fd.fp, strings.Join(fd.where, ", ")))
		}
	}
	sort.Strings(lines)
	for _, l := range lines {
		run.Note("length-sweep: %s", l)
	}
}
