package main

// Family "value-of-value": a dynamic value whose own signature is "m" - a
// value wrapped in a value, what libqi produces for an AnyValue holding an
// AnyValue - at every position where a dynamic value can sit.
//
// Val('m') of the other families carries concrete types only (i, s, [i],
// (is), ...), so the path a decoder takes when the signature it reads for a
// dynamic value is "m" again is reached by none of them.
//
// Notation: m<x> is the dynamic value carrying the datum x (on the wire: the
// signature of x as a string, then x). W(x, k) = m<m<...m<x>...>> with k
// wrappers around m<x>; W(x, 0) = m<x> is the control (an ordinary dynamic
// value, nothing of this family in it).
//
// Innermost data x (vvInners, 26): every scalar kind c C w W i I l L f d b,
// the strings "ab" and "", void, the lists [i] (one element and empty), [s],
// [m] (a list of dynamic values), the opaque composites (is), {sI},
// (i)<S,a>, (mi), [(is)], {s[i]}, () and the empty map {sI}.
//
// Wrapping depths k = 0 (control), 1, 2, 3.
//
// Positions, part 1 - inside an OPAQUE composite (the data go through
// meta/signature's TypeReaders; decided with the full oracle). w = W(x, k),
// p = m<i> (a plain dynamic value), I = a 32-bit unsigned integer:
//
//	tuple-sole (m):(w)   tuple-non-last (mI):(w,I)   tuple-last (Im):(I,w)
//	tuple-both (mm):(w,w)   tuple-before-plain (mm):(w,p)   tuple-after-plain (mm):(p,w)
//	struct-non-last (mI)<S,a,b>:(w,I)   struct-last (Im)<S,a,b>:(I,w)
//	list-sole ([m]):([w])   list-non-last ([m]):([w,p])   list-last ([m]):([p,w])   list-both ([m]):([w,w])
//	list-of-lists-sole [[m]]:[[w]]   list-of-lists-non-last [[m]]:[[w],[p]]   list-of-lists-last [[m]]:[[p],[w]]
//	map-value-sole {sm}:{"ab":w}   map-value-non-last {sm}:{"ab":w,"cd":p}   map-value-last {sm}:{"ab":p,"cd":w}
//	map-key-sole {mI}:{w:I}   map-key-non-last {mI}:{w:I,p:I}   map-key-last {mI}:{p:I,w:I}   map-key-and-value {mm}:{w:w}
//	carried-tuple (m):(m<(mI)>:(w,I))   carried-list (mI):(m<[m]>:[w,p], I)   carried-map (m):(m<{sm}>:{"ab":w})
//
// (the last three: the value of a value is a member of a composite that is
// itself carried by a dynamic value).
//
// Positions, part 2 - read by value.NewValue itself: the value of the
// dynamic value w, v(w) = value.Opaque(signature of what w carries, its
// data), which is value.Opaque("m", ...) when k >= 1:
//
//	top v(w)   value-list-sole List(v(w))   value-list-non-last List(v(w), Int)
//	value-list-last List(Int, v(w))   opaque-[m]-non-last Opaque("[m]", [w,p])
//	opaque-[m]-last Opaque("[m]", [p,w])
//
// NewValue unwraps "m" by its dispatch table ("m": NewValue), so for k >= 1
// the decoded value is the innermost one: the clauses signature-differs,
// reencode-differs and value-differs are OBSERVED, NOT DECIDED at these
// positions (same status as top-level value.Opaque("m", ...) in the family
// opaque-atom, see the assumptions); every other clause (no error, no panic,
// exact consumption, Write of the result succeeds) is decided, and so is the
// whole oracle for the controls k = 0.
//
// Part 3 - the signature universe: every composite signature of the family
// "opaque" that contains m (Sig(D,2) and the fixed signatures with o), the
// distinguished datum of the signature with EACH dynamic value in turn
// (every m of the signature: member, list element, map value, at any depth)
// replaced by W(x, k) for x in i, "ab", [i], (mi) and k = 1, 2, 3
// (signatures of depth 3, thorough tier: x in i, (mi) and k = 1, 2, under 2
// deliveries). The signature "[m]" itself is left out: NewValue reads it with
// its list constructor (positions opaque-[m]-* of part 2).
//
// Deliveries: the six of the check for parts 1 and 2, the three of the
// family opaque for part 3.
//
// Attribution. An opaque value that fails is reduced as in the family opaque
// (a composite carried by a dynamic value that fails on its own is entered
// first, then enum.Blame); then every chain of wrappers left in the reduced
// datum is cut to the smallest depth that still fails and its innermost datum
// replaced by the integer when the failure persists:
//
//	newvalue/value-of-value/<clause>/<blame detail>/wrap=<k>/inner=<i|shape>/<delivery>
//
// (blame detail "nested/m:m" = a dynamic value that must carry a dynamic
// value for the failure to show). When no wrapper is left in the reduced
// datum the failure is not about values of values and is filed under the
// fingerprint the family opaque would give it (newvalue/opaque/...); so is a
// failure that persists once every wrapper is taken away. A
// failure at a position of part 2 is filed under
//
//	newvalue/value-of-value/<clause>/<position>/wrap=<smallest failing k>/inner=<i|shape>/<delivery>.

import (
	"fmt"
	"sort"
	"sync"
	"time"

	"github.com/lugu/qiloop/type/value"

	"verif/internal/enum"
	"verif/internal/refmodel"
)

type vvD = refmodel.Datum

const vvMaxWrap = 3

type vvInner struct {
	name string
	d    *vvD
}

func vvInners() []vvInner {
	var out []vvInner
	add := func(name string, d *vvD) { out = append(out, vvInner{name, d}) }
	for _, l := range "cCwWiIlLfdb" {
		add(string(l), enum.Dist(refmodel.Atom(byte(l))))
	}
	sT := refmodel.Atom('s')
	add("s", enum.Dist(sT))
	add("s-empty", &vvD{T: sT})
	add("v", enum.Dist(refmodel.Atom('v')))
	add("[i]", enum.Dist(refmodel.MustParse("[i]")))
	add("[i]-empty", enum.Zero(refmodel.MustParse("[i]")))
	add("[s]", enum.Dist(refmodel.MustParse("[s]")))
	add("[m]", enum.Dist(refmodel.MustParse("[m]")))
	for _, s := range []string{"(is)", "{sI}", "(i)<S,a>", "(mi)", "[(is)]", "{s[i]}", "()"} {
		add(s, enum.Dist(refmodel.MustParse(s)))
	}
	add("{sI}-empty", enum.Zero(refmodel.MustParse("{sI}")))
	return out
}

// vvUniverseInners are the innermost data of part 3.
func vvUniverseInners(deep bool) []vvInner {
	all := map[string]bool{"i": true, "s": true, "[i]": true, "(mi)": true}
	if deep {
		all = map[string]bool{"i": true, "(mi)": true}
	}
	var out []vvInner
	for _, in := range vvInners() {
		if all[in.name] {
			out = append(out, in)
		}
	}
	return out
}

var vvM = refmodel.Atom('m')

// wrapped returns W(x, k).
func wrapped(x *vvD, k int) *vvD {
	d := &vvD{T: vvM, Dyn: x}
	for i := 0; i < k; i++ {
		d = &vvD{T: vvM, Dyn: d}
	}
	return d
}

// chain returns the number of wrappers of a dynamic value and its innermost
// datum: W(x, k) -> (k, x).
func chain(d *vvD) (int, *vvD) {
	k := 0
	for d.Dyn.T.Kind == refmodel.Value {
		d = d.Dyn
		k++
	}
	return k, d.Dyn
}

// asValue is v(w): the dynamic value w as a value.Value - the value of the
// constructor when what w carries has one (scalars, string, void, a list of
// dynamic values), value.Opaque otherwise (value.Opaque("m", ...) for a
// value of a value).
func asValue(w *vvD) value.Value {
	x := w.Dyn
	if x.T.IsAtom() && x.T.Kind != refmodel.Value {
		for _, c := range ctors {
			if string(c.letter) == x.T.Kind.Letter() {
				return c.mk(x)
			}
		}
	}
	if x.T.Kind == refmodel.List && x.T.Elem.Kind == refmodel.Value {
		l := []value.Value{}
		for _, e := range x.Elems {
			l = append(l, asValue(e))
		}
		return value.List(l)
	}
	return value.Opaque(x.T.String(), refmodel.Encode(x))
}

type vvPos struct {
	name, shape string
	datum       func(w *vvD) *vvD        // part 1: the opaque composite
	val         func(w *vvD) value.Value // part 2: the value read by NewValue itself
}

func vvPositions() []vvPos {
	iT, sT := refmodel.Atom('I'), refmodel.Atom('s')
	I := func() *vvD { return enum.Dist(iT) }
	p := func() *vvD { return enum.Dist(vvM) }
	key := func(s string) *vvD { return &vvD{T: sT, S: s} }
	tuple := func(ms ...*vvD) *vvD {
		var ts []*refmodel.Type
		for _, m := range ms {
			ts = append(ts, m.T)
		}
		return &vvD{T: refmodel.TupleOf(ts...), Elems: ms}
	}
	strct := func(ms ...*vvD) *vvD {
		var ts []*refmodel.Type
		for _, m := range ms {
			ts = append(ts, m.T)
		}
		return &vvD{T: refmodel.StructOf("S", []string{"a", "b"}[:len(ms)], ts...), Elems: ms}
	}
	list := func(es ...*vvD) *vvD { return &vvD{T: refmodel.ListOf(es[0].T), Elems: es} }
	mp := func(kvs ...*vvD) *vvD { return &vvD{T: refmodel.MapOf(kvs[0].T, kvs[1].T), Elems: kvs} }
	dyn := func(x *vvD) *vvD { return &vvD{T: vvM, Dyn: x} }
	follower := value.Int(0x01020304)
	op := func(d *vvD) value.Value { return opaqueOf(d) }
	return []vvPos{
		{name: "tuple-sole", shape: "(m):(w)", datum: func(w *vvD) *vvD { return tuple(w) }},
		{name: "tuple-non-last", shape: "(mI):(w,I)", datum: func(w *vvD) *vvD { return tuple(w, I()) }},
		{name: "tuple-last", shape: "(Im):(I,w)", datum: func(w *vvD) *vvD { return tuple(I(), w) }},
		{name: "tuple-both", shape: "(mm):(w,w)", datum: func(w *vvD) *vvD { return tuple(w, w) }},
		{name: "tuple-before-plain", shape: "(mm):(w,p)", datum: func(w *vvD) *vvD { return tuple(w, p()) }},
		{name: "tuple-after-plain", shape: "(mm):(p,w)", datum: func(w *vvD) *vvD { return tuple(p(), w) }},
		{name: "struct-non-last", shape: "(mI)<S,a,b>:(w,I)", datum: func(w *vvD) *vvD { return strct(w, I()) }},
		{name: "struct-last", shape: "(Im)<S,a,b>:(I,w)", datum: func(w *vvD) *vvD { return strct(I(), w) }},
		{name: "list-sole", shape: "([m]):([w])", datum: func(w *vvD) *vvD { return tuple(list(w)) }},
		{name: "list-non-last", shape: "([m]):([w,p])", datum: func(w *vvD) *vvD { return tuple(list(w, p())) }},
		{name: "list-last", shape: "([m]):([p,w])", datum: func(w *vvD) *vvD { return tuple(list(p(), w)) }},
		{name: "list-both", shape: "([m]):([w,w])", datum: func(w *vvD) *vvD { return tuple(list(w, w)) }},
		{name: "list-of-lists-sole", shape: "[[m]]:[[w]]", datum: func(w *vvD) *vvD { return list(list(w)) }},
		{name: "list-of-lists-non-last", shape: "[[m]]:[[w],[p]]", datum: func(w *vvD) *vvD { return list(list(w), list(p())) }},
		{name: "list-of-lists-last", shape: "[[m]]:[[p],[w]]", datum: func(w *vvD) *vvD { return list(list(p()), list(w)) }},
		{name: "map-value-sole", shape: "{sm}:{\"ab\":w}", datum: func(w *vvD) *vvD { return mp(key("ab"), w) }},
		{name: "map-value-non-last", shape: "{sm}:{\"ab\":w,\"cd\":p}", datum: func(w *vvD) *vvD { return mp(key("ab"), w, key("cd"), p()) }},
		{name: "map-value-last", shape: "{sm}:{\"ab\":p,\"cd\":w}", datum: func(w *vvD) *vvD { return mp(key("ab"), p(), key("cd"), w) }},
		{name: "map-key-sole", shape: "{mI}:{w:I}", datum: func(w *vvD) *vvD { return mp(w, I()) }},
		{name: "map-key-non-last", shape: "{mI}:{w:I,p:I}", datum: func(w *vvD) *vvD { return mp(w, I(), p(), I()) }},
		{name: "map-key-last", shape: "{mI}:{p:I,w:I}", datum: func(w *vvD) *vvD { return mp(p(), I(), w, I()) }},
		{name: "map-key-and-value", shape: "{mm}:{w:w}", datum: func(w *vvD) *vvD { return mp(w, w) }},
		{name: "carried-tuple", shape: "(m):(m<(mI)>:(w,I))", datum: func(w *vvD) *vvD { return tuple(dyn(tuple(w, I()))) }},
		{name: "carried-list", shape: "(mI):(m<[m]>:[w,p],I)", datum: func(w *vvD) *vvD { return tuple(dyn(list(w, p())), I()) }},
		{name: "carried-map", shape: "(m):(m<{sm}>:{\"ab\":w})", datum: func(w *vvD) *vvD { return tuple(dyn(mp(key("ab"), w))) }},

		{name: "top", shape: "v(w)", val: func(w *vvD) value.Value { return asValue(w) }},
		{name: "value-list-sole", shape: "List(v(w))", val: func(w *vvD) value.Value { return value.List([]value.Value{asValue(w)}) }},
		{name: "value-list-non-last", shape: "List(v(w),Int)", val: func(w *vvD) value.Value { return value.List([]value.Value{asValue(w), follower}) }},
		{name: "value-list-last", shape: "List(Int,v(w))", val: func(w *vvD) value.Value { return value.List([]value.Value{follower, asValue(w)}) }},
		{name: "opaque-[m]-non-last", shape: "Opaque(\"[m]\",[w,p])", val: func(w *vvD) value.Value { return op(list(w, p())) }},
		{name: "opaque-[m]-last", shape: "Opaque(\"[m]\",[p,w])", val: func(w *vvD) value.Value { return op(list(p(), w)) }},
	}
}

// vvNotDecided: the clauses that NewValue's own unwrapping of "m" makes fail
// at the positions of part 2 for k >= 1.
var vvNotDecided = map[string]bool{"signature-differs": true, "reencode-differs": true, "value-differs": true}

// vvPaths lists the paths (refmodel.Datum.Child convention: Dyn is index 0)
// of every dynamic value below d; a dynamic value carrying a dynamic value
// is one node (the chain is not entered), a dynamic value carrying a
// composite is a node and is entered.
func vvPaths(d *vvD, prefix []int, out *[][]int) {
	switch d.T.Kind {
	case refmodel.Value:
		if len(prefix) > 0 {
			*out = append(*out, append([]int(nil), prefix...))
		}
		if _, in := chain(d); !in.T.IsAtom() && d.Dyn.T.Kind != refmodel.Value {
			vvPaths(d.Dyn, append(prefix, 0), out)
		}
	case refmodel.Object:
	default:
		for i, c := range d.Elems {
			vvPaths(c, append(prefix, i), out)
		}
	}
}

// vvReplace returns d with the dynamic value at path replaced by another
// dynamic value: no type changes, any list length is fine.
func vvReplace(d *vvD, path []int, nd *vvD) *vvD {
	if len(path) == 0 {
		return nd
	}
	c := *d
	if d.T.Kind == refmodel.Value {
		c.Dyn = vvReplace(d.Dyn, path[1:], nd)
		return &c
	}
	c.Elems = append([]*vvD(nil), d.Elems...)
	c.Elems[path[0]] = vvReplace(d.Elems[path[0]], path[1:], nd)
	return &c
}

// vvWrappers lists the paths of the values of values (k >= 1) below d.
func vvWrappers(d *vvD) [][]int {
	var all, out [][]int
	vvPaths(d, nil, &all)
	for _, p := range all {
		if k, _ := chain(d.Child(p)); k >= 1 {
			out = append(out, p)
		}
	}
	return out
}

// vvTopOK says whether a sub-datum may be evaluated as a top-level opaque
// value during the reduction of a failure of this family: composite, and not
// "[m]" - NewValue reads that signature with its list constructor, which
// unwraps values of values (the not-decided positions of part 2): a reduction
// must not wander there.
func vvTopOK(t *refmodel.Type) bool { return composite(t) && t.String() != "[m]" }

// vvEnterCarried: while a composite carried by a dynamic value of d fails on
// its own as a top-level opaque value, continue with it (a carried "[m]":
// with the 1-tuple holding it).
func vvEnterCarried(d *vvD, fails func(*vvD) bool) *vvD {
	for round := 0; round < 8; round++ {
		var all [][]int
		vvPaths(d, nil, &all)
		next := (*vvD)(nil)
		for _, p := range all {
			c := d.Child(p).Dyn
			if !composite(c.T) {
				continue
			}
			if !vvTopOK(c.T) {
				// a carried [m] is looked at as the sole member of a tuple
				c = &vvD{T: refmodel.TupleOf(c.T), Elems: []*vvD{c}}
			}
			if fails(c) {
				next = c
				break
			}
		}
		if next == nil {
			break
		}
		d = next
	}
	return d
}

// vvBlame reduces a failing opaque datum and returns the fingerprint detail
// (everything after newvalue/) without the delivery, and the reduced datum.
func vvBlame(d *vvD, clause string, dl delivery) (string, *vvD) {
	fails := opaqueFails(clause, dl)
	d = vvEnterCarried(d, fails)
	detail, min := enum.Blame(d, fails, vvTopOK)
	ws := vvWrappers(min)
	if len(ws) == 0 {
		return fmt.Sprintf("opaque/%s/%s", clause, detail), min
	}
	cut := func(src *vvD, depth int, toInt bool) *vvD {
		out := src
		for _, p := range ws {
			k, in := chain(src.Child(p))
			if depth < k {
				k = depth
			}
			if toInt {
				in = enum.Dist(refmodel.Atom('i'))
			}
			out = vvReplace(out, p, wrapped(in, k))
		}
		return out
	}
	// no wrapper at all and it still fails: the failure is not about values
	// of values, it gets the fingerprint of the family opaque
	if c := cut(min, 0, false); fails(c) {
		detail, min = enum.Blame(c, fails, vvTopOK)
		return fmt.Sprintf("opaque/%s/%s", clause, detail), min
	}
	depth := 0
	for _, p := range ws {
		if k, _ := chain(min.Child(p)); k > depth {
			depth = k
		}
	}
	for j := 1; j < depth; j++ {
		if c := cut(min, j, false); fails(c) {
			min, depth = c, j
			break
		}
	}
	_, in := chain(min.Child(ws[0]))
	inner := in.T.Shape()
	if c := cut(min, depth, true); fails(c) {
		min, inner = c, "i"
	}
	return fmt.Sprintf("value-of-value/%s/%s/wrap=%d/inner=%s", clause, detail, depth, inner), min
}

// vvReportOpaque files a failing opaque datum of parts 1 and 3.
func vvReportOpaque(d *vvD, clause string, dl delivery, where string) {
	body, min := vvBlame(d, clause, dl)
	mv := opaqueOf(min)
	fp := fmt.Sprintf("newvalue/%s/%s", body, deliveryDetail(mv, clause, dl))
	_, mdet, menc := roundtrip(enum.NewFragReader(nil, nil, 0, 0), mv, dl)
	// the reduced datum first, then the case it was found in: the
	// representative does not depend on the order in which workers finish
	rank := fmt.Sprintf("%06d|%s|%s|%06d|%s|%s", len(menc), min.T, min, len(refmodel.Encode(d)), d.T, d)
	if run.Fail(fp, rank) {
		dd := dl
		run.Keep(fp, rank, fmt.Sprintf("value.Opaque(%q, %s) = %s (reduced from %s = %s, %s), encoding %s, %s: %s", min.T, hexs(refmodel.Encode(min)), min, d.T, d, where, hexs(menc), dl, mdet),
			replayOf("value.NewValue", mv, menc, dl, clause, mdet), func() bool {
				cl, _, _ := roundtrip(enum.NewFragReader(nil, nil, 0, 0), mv, dd)
				return cl == clause
			})
	}
}

// familyValueOfValue runs the family and returns its description for the
// evidence.
func familyValueOfValue(depth int) map[string]interface{} {
	started := time.Now()
	fam := run.Family("value-of-value")
	inners, positions := vvInners(), vvPositions()
	type vvCase struct {
		pos, in, k int
	}
	var cases []vvCase
	for pi := range positions {
		for ii := range inners {
			for k := 0; k <= vvMaxWrap; k++ {
				cases = append(cases, vvCase{pi, ii, k})
			}
		}
	}
	// self-check of the construction (nothing of the code under test decides
	// it): W(x,k) has k wrappers around x, its encoding is 5 bytes per wrapper
	// longer than that of m<x>, and the reference model reads every opaque
	// datum back
	for _, in := range inners {
		plain := refmodel.Encode(wrapped(in.d, 0))
		for k := 0; k <= vvMaxWrap; k++ {
			w := wrapped(in.d, k)
			if kk, x := chain(w); kk != k || x != in.d || len(refmodel.Encode(w)) != len(plain)+5*k {
				run.EngineError("value-of-value: W(%s,%d) is not built as stated", in.name, k)
				return nil
			}
			for _, p := range positions {
				if p.datum == nil {
					continue
				}
				d := p.datum(w)
				t, err := refmodel.ParseSig(d.T.String())
				if err != nil {
					run.EngineError("value-of-value: %s: the reference model does not parse %s: %v", p.name, d.T, err)
					return nil
				}
				data := refmodel.Encode(d)
				back, n, err := refmodel.Decode(t, data)
				if err != nil || n != len(data) || !refmodel.Equal(back, d) {
					run.EngineError("value-of-value: %s with W(%s,%d) is not read back by the reference model: %v", p.name, in.name, k, err)
					return nil
				}
				if k >= 1 && len(vvWrappers(d)) == 0 {
					run.EngineError("value-of-value: %s with W(%s,%d) holds no value of a value", p.name, in.name, k)
					return nil
				}
			}
		}
	}

	guards := make(chan *enum.Guard, run.Workers+1)
	for i := 0; i <= run.Workers; i++ {
		guards <- run.NewGuard()
	}
	var mu sync.Mutex
	observed := map[string]string{} // position -> first observation (smallest case index)
	observedAt := map[string]int{}
	nObserved := 0
	type p2fail struct {
		c      vvCase
		clause string
		dl     delivery
	}
	var p2 []p2fail
	done, all := run.Parallel(len(cases), func(i int) {
		g := <-guards
		defer func() { guards <- g }()
		c := cases[i]
		pos, in := positions[c.pos], inners[c.in]
		w := wrapped(in.d, c.k)
		rd := enum.NewFragReader(nil, nil, 0, 0)
		out := "ok"
		if pos.datum != nil {
			d := pos.datum(w)
			clause, _, _, dl := firstFailure(g, rd, opaqueOf(d), fam, deliveries)
			if clause != "" {
				out = clause
				vvReportOpaque(d, clause, dl, fmt.Sprintf("position %s with W(%s,%d)", pos.name, in.name, c.k))
			}
		} else {
			v := pos.val(w)
			// every delivery is evaluated: a clause that is not decided under
			// one delivery must not hide a decided one under another
			for _, dl := range deliveries {
				clause, det, enc, _ := firstFailure(g, rd, v, fam, []delivery{dl})
				if clause == "" {
					continue
				}
				if c.k >= 1 && vvNotDecided[clause] {
					out = "not-decided:" + clause
					mu.Lock()
					nObserved++
					if at, ok := observedAt[pos.name]; !ok || i < at {
						observedAt[pos.name] = i
						observed[pos.name] = fmt.Sprintf("not decided: %s with W(%s,%d), encoding %s: %s (NewValue unwraps \"m\"; the same holds for every x and every k >= 1 at this position unless reported otherwise)", pos.shape, in.name, c.k, hexs(enc), det)
					}
					mu.Unlock()
					continue
				}
				out = clause
				mu.Lock()
				p2 = append(p2, p2fail{c, clause, dl})
				mu.Unlock()
				break
			}
		}
		kk := "wrapped"
		if c.k == 0 {
			kk = "control"
		}
		run.Distinct(fmt.Sprintf("value-of-value|%s|%s|%s|%s", pos.name, in.d.T.Shape(), kk, out))
	})
	if !all {
		run.Note("value-of-value: %d of %d (position, innermost datum, depth) cases completed before the deadline", done, len(cases))
	}

	// part 2 failures: smallest failing depth, integer inside when possible
	sort.Slice(p2, func(a, b int) bool {
		x, y := p2[a].c, p2[b].c
		if x.pos != y.pos {
			return x.pos < y.pos
		}
		if x.k != y.k {
			return x.k < y.k
		}
		return x.in < y.in
	})
	for _, f := range p2 {
		pos, in := positions[f.c.pos], inners[f.c.in]
		failsAt := func(x *vvD, k int) bool {
			cl, _, _ := roundtrip(enum.NewFragReader(nil, nil, 0, 0), pos.val(wrapped(x, k)), f.dl)
			return cl == f.clause
		}
		k, x, inner := f.c.k, in.d, in.d.T.Shape()
		for j := 0; j < k; j++ {
			if failsAt(x, j) {
				k = j
				break
			}
		}
		if xi := enum.Dist(refmodel.Atom('i')); failsAt(xi, k) {
			x, inner = xi, "i"
		}
		v := pos.val(wrapped(x, k))
		_, det, enc := roundtrip(enum.NewFragReader(nil, nil, 0, 0), v, f.dl)
		fp := fmt.Sprintf("newvalue/value-of-value/%s/%s/wrap=%d/inner=%s/%s", f.clause, pos.name, k, inner, deliveryDetail(v, f.clause, f.dl))
		dd, cl := f.dl, f.clause
		run.Violation(fp, fmt.Sprintf("%06d", len(enc)), fmt.Sprintf("%s with w = W(%s,%d) (found with W(%s,%d)), encoding %s, %s: %s", pos.shape, x.T, k, in.name, f.c.k, hexs(enc), f.dl, det),
			replayOf("value.NewValue", v, enc, f.dl, f.clause, det), func() bool {
				c, _, _ := roundtrip(enum.NewFragReader(nil, nil, 0, 0), v, dd)
				return c == cl
			})
	}

	nsig, nsub := vvUniverse(depth, fam, guards)

	{
		w := wrapped(enum.Dist(refmodel.Atom('i')), 1)
		d := positions[1].datum(w)
		run.Sample(14, map[string]interface{}{"family": "value-of-value", "position": positions[1].name, "signature": d.T.String(), "value": d.String(), "data_hex": hexs(refmodel.Encode(d))})
	}
	var pnames1, pnames2, inames []string
	for _, p := range positions {
		if p.datum != nil {
			pnames1 = append(pnames1, p.name+" "+p.shape)
		} else {
			pnames2 = append(pnames2, p.name+" "+p.shape)
		}
	}
	for _, in := range inners {
		inames = append(inames, in.name)
	}
	var uin []string
	for _, in := range vvUniverseInners(false) {
		uin = append(uin, in.name)
	}
	return map[string]interface{}{
		"notation":                       "m<x>: the dynamic value carrying x; W(x,k): m<x> inside k further dynamic values (k=0: control); w = W(x,k); p = m<i>; v(w): the dynamic value w as a value.Value (value.Opaque(\"m\", ...) for k >= 1)",
		"innermost_data":                 inames,
		"wrapping_depths":                []int{0, 1, 2, 3},
		"positions_in_opaque_composites": pnames1,
		"positions_read_by_NewValue":     pnames2,
		"cases":                          len(cases),
		"cases_executed":                 done,
		"deliveries":                     len(deliveries),
		"not_decided_clauses_at_NewValue_positions_for_k>=1": []string{"signature-differs", "reencode-differs", "value-differs"},
		"not_decided_evaluations":                            nObserved,
		"observations_not_decided":                           observed,
		"universe_signatures_containing_m":                   nsig,
		"universe_substitutions":                             nsub,
		"universe_innermost_data":                            uin,
		"universe_wrapping_depths":                           []int{1, 2, 3},
		"wall_s":                                             time.Since(started).Seconds(),
	}
}

// vvUniverse is part 3: every dynamic value of the distinguished datum of
// every composite signature of the family opaque, in turn, becomes a value
// of a value.
func vvUniverse(depth int, fam *int64, guards chan *enum.Guard) (nsig int, nsub int64) {
	var comp []*refmodel.Type
	for _, s := range opaqueSignatures(depth) {
		// "[m]" itself is read by NewValue's list constructor, element by
		// element: the positions opaque-[m]-* of part 2
		if s.Contains(refmodel.Value) && s.String() != "[m]" {
			comp = append(comp, s)
		}
	}
	counts := make([]int64, len(comp))
	done, all := run.Parallel(len(comp), func(i int) {
		g := <-guards
		defer func() { guards <- g }()
		t := comp[i]
		base := enum.Dist(t)
		var paths [][]int
		vvPaths(base, nil, &paths)
		deep := t.Depth() >= 3
		ins, maxK, dls := vvUniverseInners(deep), vvMaxWrap, opaqueDeliveries
		if deep {
			maxK, dls = 2, opaqueDeliveries[1:]
		}
		rd := enum.NewFragReader(nil, nil, 0, 0)
		outcomes := map[string]bool{}
		for _, p := range paths {
			for _, in := range ins {
				for k := 1; k <= maxK; k++ {
					counts[i]++
					d := vvReplace(base, p, wrapped(in.d, k))
					clause, _, _, dl := firstFailure(g, rd, opaqueOf(d), fam, dls)
					if clause == "" {
						outcomes["ok"] = true
						continue
					}
					outcomes[clause] = true
					vvReportOpaque(d, clause, dl, fmt.Sprintf("the distinguished datum of %s with the dynamic value at %s replaced by W(%s,%d)", t, enum.FieldPath(base, p), in.name, k))
				}
			}
		}
		local := map[string]int{}
		for o := range outcomes {
			local["value-of-value|universe|"+t.Shape()+"|"+o]++
		}
		run.DistinctSet(local)
	})
	for _, c := range counts {
		nsub += c
	}
	if !all {
		run.Note("value-of-value: %d of %d signatures containing m completed before the deadline (ordered by construction, depth-1 first)", done, len(comp))
	}
	return len(comp), nsub
}
