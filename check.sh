#!/bin/sh
# usage: check.sh <property> <quick|thorough> [--replay file]
cd "$(dirname "$0")" || exit 2
export GOFLAGS=-mod=mod GOPROXY=off GOSUMDB=off GOTOOLCHAIN=local
export VERIF_ROOT="$(pwd)"
id="$1"; tier="${2:-${VERIF_TIER:-quick}}"; shift; shift
export VERIF_TIER="$tier"
mkdir -p bin .work
# VERIF_REPO (development aid): run the check against another checkout of the
# repository (a scratch worktree, a vp-run snapshot) instead of /repo.
if [ -n "$VERIF_REPO" ] && [ "$VERIF_REPO" != /repo ]; then
  alt=".work/alt-$$"; mkdir -p "$alt"
  sed "s#=> /repo#=> $VERIF_REPO#" go.mod > "$alt/go.mod"; cp go.sum "$alt/go.sum"
  export GOFLAGS="-mod=mod -modfile=$(pwd)/$alt/go.mod"
  trap 'rm -rf "$alt"' EXIT
  go build -o "bin/vcheck.$$" ./cmd/vcheck || { echo "ENGINE-ERROR property=$id cannot build vcheck"; exit 2; }
  mv "bin/vcheck.$$" "bin/vcheck.alt.$$"
  "bin/vcheck.alt.$$" "$id" "$@"; rc=$?; rm -f "bin/vcheck.alt.$$"; exit $rc
fi
go build -o "bin/vcheck.$$" ./cmd/vcheck || { echo "ENGINE-ERROR property=$id cannot build vcheck"; exit 2; }
mv "bin/vcheck.$$" bin/vcheck
exec bin/vcheck "$id" "$@"
