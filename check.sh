#!/bin/sh
# usage: check.sh <property> <quick|thorough> [--replay file]
cd "$(dirname "$0")" || exit 2
export GOFLAGS=-mod=mod GOPROXY=off GOSUMDB=off GOTOOLCHAIN=local
export VERIF_ROOT="$(pwd)"
id="$1"; tier="${2:-${VERIF_TIER:-quick}}"; shift; shift
export VERIF_TIER="$tier"
mkdir -p bin .work
go build -o "bin/vcheck.$$" ./cmd/vcheck || { echo "ENGINE-ERROR property=$id cannot build vcheck"; exit 2; }
mv "bin/vcheck.$$" bin/vcheck
exec bin/vcheck "$id" "$@"
