// Package explore is the stateless depth-first explorer of engine B: it
// enumerates, with iterative deviation bounding, every schedule / environment
// answer sequence of a scenario running under the vrt controlled scheduler.
package explore

import (
	"encoding/json"
	"fmt"
	"os"
	"regexp"
	"sort"
	"strings"
	"time"

	"verif/rt/vrt"
)

// Dev is one deviation: at recorded choice point Pos take alternative Alt
// (every other choice point takes alternative 0).
type Dev struct {
	Pos  int  `json:"pos"`
	Alt  int  `json:"alt"`
	Free bool `json:"free,omitempty"`
}

// Cost is the number of deviations that count against the bound.
func (s Schedule) Cost() int {
	n := 0
	for _, d := range s {
		if !d.Free {
			n++
		}
	}
	return n
}

// Schedule is a sparse choice list.
type Schedule []Dev

func (s Schedule) dense() []int {
	if len(s) == 0 {
		return nil
	}
	n := s[len(s)-1].Pos + 1
	d := make([]int, n)
	for _, x := range s {
		d[x.Pos] = x.Alt
	}
	return d
}

// Config of one exploration.
type Config struct {
	Bound          int            // maximal number of deviations
	Shard, Shards  int            // this process handles root children j with j%Shards==Shard
	Deadline       time.Time      // zero: none
	Bonus          int            // further levels (Bound+1 .. Bound+Bonus) explored while BonusDeadline allows; cutting them short is not a time-out
	BonusDeadline  time.Time      // zero: no bonus levels
	ValidateEvery  int            // replay every n-th execution twice (0: never)
	MaxSteps       int            // per execution
	ExpectCrash    bool           // scenario handles crashes itself
	StepLimitFails bool           // an execution that does not end within MaxSteps is a violation (non-termination), not an engine error
	Confirm        int            // re-runs needed to confirm a violation (default 5)
	MaxViolations  int            // stop collecting after that many distinct fingerprints
	Progress       func(s *Stats) // optional
}

// Violation is a confirmed oracle failure.
type Violation struct {
	Fingerprint string          `json:"fingerprint"`
	Clause      string          `json:"clause"`
	Detail      string          `json:"detail"`
	Schedule    Schedule        `json:"schedule"`
	Deviations  int             `json:"deviations"`
	Outcome     string          `json:"outcome,omitempty"`
	Crash       *vrt.Crash      `json:"crash,omitempty"`
	Blocked     []vrt.Blocked   `json:"blocked,omitempty"`
	Count       int             `json:"count"`
	Flags       map[string]bool `json:"flags,omitempty"`
}

// Stats is the result of one exploration (one shard).
type Stats struct {
	Executions     int            `json:"executions"`      // executions whose oracle was evaluated
	Reruns         int            `json:"reruns"`          // lower-level executions re-run by iterative deepening
	Transitions    int            `json:"transitions"`     // scheduler steps of evaluated executions
	ChoicePoints   int            `json:"choice_points"`   // recorded choice points of evaluated executions
	Validated      int            `json:"validated"`       // executions replayed a second time with identical trace
	Outcomes       map[string]int `json:"outcomes"`        // observable outcome -> executions
	Flags          map[string]int `json:"flags"`           // collision predicate -> executions
	Nontrivial     map[string]int `json:"nontrivial"`      // outcomes of executions with at least one flag
	Violations     []*Violation   `json:"violations"`      // distinct fingerprints
	CompletedBound int            `json:"completed_bound"` // largest bound fully explored (-1: none)
	PerBound       []int          `json:"per_bound"`       // executions with exactly b deviations
	Exhaustive     bool           `json:"exhaustive"`      // the whole tree was finished (no alternative pruned by the bound)
	TimedOut       bool           `json:"timed_out"`
	BonusCut       bool           `json:"bonus_cut"` // a level beyond the requested bound was started and cut short by the bonus deadline
	EngineErrors   []string       `json:"engine_errors"`
	MaxPoints      int            `json:"max_points"`
	MaxThreads     int            `json:"max_threads"`
	SampleOutcome  string         `json:"sample_outcome"`
	SampleSchedule Schedule       `json:"sample_schedule"`
	WallS          float64        `json:"wall_s"`
}

type explorer struct {
	cfg      Config
	body     func()
	st       *Stats
	byFP     map[string]*Violation
	pruned   bool // some alternative was not taken because of the bound
	rootKids int
	kid1     int // running number of the root's children in this level pass
	kid2     int // running number of the root's grandchildren in this level pass
	stop     bool
}

var hexRe = regexp.MustCompile(`0x[0-9a-f]+|#[0-9]+|\b[0-9]{3,}\b`)

// Normalize removes addresses and object numbers from a diagnostic string.
func Normalize(s string) string { return hexRe.ReplaceAllString(s, "N") }

var frameRe = regexp.MustCompile(`(?m)^(github\.com/lugu/qiloop/\S+|verif/scenarios/\S+)\(.*\)$`)

// CrashSite extracts the first repository (or scenario) frame of a stack.
func CrashSite(stack string) string {
	for _, m := range frameRe.FindAllStringSubmatch(stack, -1) {
		if strings.Contains(m[1], "verif/rt/") {
			continue
		}
		return m[1]
	}
	return "unknown"
}

func (e *explorer) run(s Schedule) *vrt.Result {
	return vrt.Run(s.dense(), vrt.Options{MaxSteps: e.cfg.MaxSteps, Trace: os.Getenv("VERIF_NONDET_DIR") != ""}, e.body)
}

// failuresOf turns one execution result into (fingerprint, clause, detail) triples.
func (e *explorer) failuresOf(r *vrt.Result) [][3]string {
	var out [][3]string
	switch r.End {
	case "crash":
		if !e.cfg.ExpectCrash {
			v := Normalize(r.Crash.Value)
			if len(v) > 120 {
				v = v[:120]
			}
			out = append(out, [3]string{"crash:" + v + "@" + CrashSite(r.Crash.Stack), "crash", r.Crash.Value})
		}
	case "deadlock":
		var parts []string
		for _, b := range r.Blocked {
			if b.Kind == vrt.KLock || b.Kind == vrt.KRLock || b.Kind == vrt.KWait || b.Worker {
				parts = append(parts, b.Thread+":"+b.Kind)
			}
		}
		sort.Strings(parts)
		out = append(out, [3]string{"deadlock:" + Normalize(strings.Join(parts, ",")), "deadlock", fmt.Sprintf("%+v", r.Blocked)})
	case "step-limit":
		if e.cfg.StepLimitFails {
			out = append(out, [3]string{"non-termination", "non-termination", fmt.Sprintf("the execution did not come to rest within %d scheduler steps (threads keep working without any new input)", r.Steps)})
		} else {
			e.engineError("step limit reached (livelock or limit too low)")
		}
	case "diverged":
		e.engineError("replay divergence: " + r.Divergence)
	}
	for _, f := range r.Failures {
		out = append(out, [3]string{f.Clause, f.Clause, f.Detail})
	}
	return out
}

func (e *explorer) engineError(msg string) {
	for _, m := range e.st.EngineErrors {
		if m == msg {
			return
		}
	}
	if len(e.st.EngineErrors) < 20 {
		e.st.EngineErrors = append(e.st.EngineErrors, msg)
	}
}

func (e *explorer) evaluate(s Schedule, r *vrt.Result) {
	st := e.st
	st.Executions++
	st.Transitions += r.Steps
	st.ChoicePoints += len(r.Points)
	if len(r.Points) > st.MaxPoints {
		st.MaxPoints = len(r.Points)
	}
	if r.Threads > st.MaxThreads {
		st.MaxThreads = r.Threads
	}
	for len(st.PerBound) <= s.Cost() {
		st.PerBound = append(st.PerBound, 0)
	}
	st.PerBound[s.Cost()]++
	st.Outcomes[r.Outcome]++
	if len(r.Flags) > 0 {
		st.Nontrivial[r.Outcome]++
		if st.SampleOutcome == "" || len(s) > len(st.SampleSchedule) {
			st.SampleOutcome = r.Outcome
			st.SampleSchedule = append(Schedule(nil), s...)
		}
	}
	for f := range r.Flags {
		st.Flags[f]++
	}
	if e.cfg.ValidateEvery > 0 && st.Executions%e.cfg.ValidateEvery == 0 {
		r2 := e.run(s)
		if r.End == "step-limit" || r2.End == "step-limit" {
			// cut by the step / memory guard: not comparable
		} else if r2.Hash == r.Hash && len(r2.Points) == len(r.Points) && r2.Outcome != r.Outcome {
			// the same steps in the same order, but other data in the observable
			// outcome: the code under test keeps state in package-level variables
			// (a process-wide counter, a pool, a cache) which survives from one
			// execution to the next - not a divergence of the schedule. Recorded;
			// a violation that depends on such state still has to reproduce from
			// its schedule to be reported.
			st.Flags["outcome-depends-on-state-kept-across-executions"]++
			st.Validated++
		} else if r2.Hash != r.Hash || r2.Outcome != r.Outcome || len(r2.Points) != len(r.Points) {
			e.engineError(fmt.Sprintf("nondeterministic replay of schedule %v: hash %x vs %x, outcome %q vs %q", s, r.Hash, r2.Hash, r.Outcome, r2.Outcome))
			if dir := os.Getenv("VERIF_NONDET_DIR"); dir != "" {
				// development aid: traces of further runs of the schedule in this process
				os.WriteFile(fmt.Sprintf("%s/nondet-%d-first.txt", dir, st.Executions), []byte(fmt.Sprintf("hash %x\n", r.Hash)+strings.Join(r.Log, "\n")), 0o644)
				for i := 0; i < 3; i++ {
					rr := vrt.Run(s.dense(), vrt.Options{MaxSteps: e.cfg.MaxSteps, Trace: true}, e.body)
					os.WriteFile(fmt.Sprintf("%s/nondet-%d-%d.txt", dir, st.Executions, i), []byte(fmt.Sprintf("hash %x\n", rr.Hash)+strings.Join(rr.Log, "\n")), 0o644)
				}
			}
		} else {
			st.Validated++
		}
	}
	for _, f := range e.failuresOf(r) {
		fp := f[0]
		if v, ok := e.byFP[fp]; ok {
			v.Count++
			continue
		}
		if e.cfg.MaxViolations > 0 && len(e.byFP) >= e.cfg.MaxViolations {
			continue
		}
		// confirm: the same schedule must fail the same way every time
		confirm := e.cfg.Confirm
		if confirm == 0 {
			confirm = 5
		}
		okAll := true
		for i := 0; i < confirm; i++ {
			r2 := e.run(s)
			found := false
			for _, f2 := range e.failuresOf(r2) {
				if f2[0] == fp {
					found = true
				}
			}
			if !found {
				okAll = false
				break
			}
		}
		if !okAll {
			e.engineError("violation not reproducible from its schedule: " + fp)
			continue
		}
		v := &Violation{Fingerprint: fp, Clause: f[1], Detail: f[2], Schedule: append(Schedule(nil), s...),
			Deviations: s.Cost(), Outcome: r.Outcome, Crash: r.Crash, Blocked: r.Blocked, Count: 1, Flags: r.Flags}
		e.byFP[fp] = v
		st.Violations = append(st.Violations, v)
	}
}

// dfs runs schedule s (which has len(s) deviations); if len(s)==level the
// execution is evaluated, otherwise its children are explored.
func (e *explorer) dfs(s Schedule, level int) {
	e.walk(s, level, true)
}

// walk runs schedule s. Work is shared between the shards at depth 2 of the
// choice tree: every shard walks the root and the root's children (a few
// hundred executions per level), the sub-trees below the root's grandchildren
// are dealt round robin (mine tells whether this shard evaluates s itself).
func (e *explorer) walk(s Schedule, level int, mine bool) {
	if e.stop {
		return
	}
	if dl := e.deadlineFor(level); !dl.IsZero() && time.Now().After(dl) {
		e.stop = true
		if level > e.cfg.Bound {
			e.st.BonusCut = true
		} else {
			e.st.TimedOut = true
		}
		return
	}
	r := e.run(s)
	atLevel := s.Cost() == level
	if atLevel && mine {
		e.evaluate(s, r)
	} else {
		e.st.Reruns++
	}
	if r.End == "diverged" {
		e.engineError("replay divergence: " + r.Divergence)
		return
	}
	from := 0
	if len(s) > 0 {
		from = s[len(s)-1].Pos + 1
	}
	for i := from; i < len(r.Points); i++ {
		for alt := 1; alt < r.Points[i].N; alt++ {
			free := r.Points[i].Free
			childMine := mine
			switch len(s) {
			case 0:
				// a child of the root: walked by every shard, evaluated by one
				childMine = e.kid1%e.cfg.Shards == e.cfg.Shard
				e.kid1++
			case 1:
				// a grandchild of the root: its whole sub-tree belongs to one shard
				childMine = e.kid2%e.cfg.Shards == e.cfg.Shard
				e.kid2++
				if !childMine {
					continue
				}
			}
			if atLevel && !free {
				// beyond this level's budget
				if childMine {
					e.pruned = true
				}
				continue
			}
			child := append(append(Schedule(nil), s...), Dev{i, alt, free})
			e.walk(child, level, childMine)
			if e.stop {
				return
			}
		}
	}
}

// deadlineFor returns the deadline that applies to a level: levels beyond the
// requested bound run on the (earlier) bonus deadline.
func (e *explorer) deadlineFor(level int) time.Time {
	if level > e.cfg.Bound {
		return e.cfg.BonusDeadline
	}
	return e.cfg.Deadline
}

// Explore runs the exploration of body.
func Explore(body func(), cfg Config) *Stats {
	if cfg.Shards == 0 {
		cfg.Shards = 1
	}
	start := time.Now()
	st := &Stats{Outcomes: map[string]int{}, Flags: map[string]int{}, Nontrivial: map[string]int{}, CompletedBound: -1}
	e := &explorer{cfg: cfg, body: body, st: st, byFP: map[string]*Violation{}}
	last := cfg.Bound
	if cfg.Bonus > 0 && !cfg.BonusDeadline.IsZero() {
		last += cfg.Bonus
	}
	for level := 0; level <= last; level++ {
		if level > cfg.Bound && time.Now().After(cfg.BonusDeadline) {
			break
		}
		e.pruned = false
		e.kid1, e.kid2 = 0, 0
		e.walk(nil, level, cfg.Shard == 0)
		if e.stop {
			break
		}
		st.CompletedBound = level
		if cfg.Progress != nil {
			cfg.Progress(st)
		}
		if !e.pruned {
			// no execution of this level had an untaken alternative: the
			// tree is exhausted
			st.Exhaustive = true
			// (this shard's share of) the tree is exhausted: every higher level is complete as well
			st.CompletedBound = last
			break
		}
	}
	st.WallS = time.Since(start).Seconds()
	return st
}

// Replay runs one schedule with tracing.
func Replay(body func(), s Schedule, maxSteps int) *vrt.Result {
	return vrt.Run(s.dense(), vrt.Options{MaxSteps: maxSteps, Trace: true}, body)
}

// Merge combines the statistics of several shards.
func Merge(parts []*Stats) *Stats {
	m := &Stats{Outcomes: map[string]int{}, Flags: map[string]int{}, Nontrivial: map[string]int{}, CompletedBound: 1 << 30, Exhaustive: true}
	byFP := map[string]*Violation{}
	for _, p := range parts {
		m.Executions += p.Executions
		m.Reruns += p.Reruns
		m.Transitions += p.Transitions
		m.ChoicePoints += p.ChoicePoints
		m.Validated += p.Validated
		for k, v := range p.Outcomes {
			m.Outcomes[k] += v
		}
		for k, v := range p.Flags {
			m.Flags[k] += v
		}
		for k, v := range p.Nontrivial {
			m.Nontrivial[k] += v
		}
		for _, v := range p.Violations {
			if o, ok := byFP[v.Fingerprint]; ok {
				o.Count += v.Count
				if v.Deviations < o.Deviations {
					c := o.Count
					*o = *v
					o.Count = c
				}
				continue
			}
			byFP[v.Fingerprint] = v
			m.Violations = append(m.Violations, v)
		}
		if p.CompletedBound < m.CompletedBound {
			m.CompletedBound = p.CompletedBound
		}
		for i, n := range p.PerBound {
			for len(m.PerBound) <= i {
				m.PerBound = append(m.PerBound, 0)
			}
			m.PerBound[i] += n
		}
		m.Exhaustive = m.Exhaustive && p.Exhaustive
		m.TimedOut = m.TimedOut || p.TimedOut
		m.BonusCut = m.BonusCut || p.BonusCut
		m.EngineErrors = append(m.EngineErrors, p.EngineErrors...)
		if p.MaxPoints > m.MaxPoints {
			m.MaxPoints = p.MaxPoints
		}
		if p.MaxThreads > m.MaxThreads {
			m.MaxThreads = p.MaxThreads
		}
		if p.WallS > m.WallS {
			m.WallS = p.WallS
		}
		if m.SampleOutcome == "" || len(p.SampleSchedule) > len(m.SampleSchedule) {
			if p.SampleOutcome != "" {
				m.SampleOutcome, m.SampleSchedule = p.SampleOutcome, p.SampleSchedule
			}
		}
	}
	if m.Exhaustive && len(m.PerBound) > 0 {
		// the whole tree was walked: the deepest execution has len(PerBound)-1 deviations
		m.CompletedBound = len(m.PerBound) - 1
	}
	sort.Slice(m.Violations, func(i, j int) bool { return m.Violations[i].Fingerprint < m.Violations[j].Fingerprint })
	return m
}

// JSON renders stats.
func (s *Stats) JSON() []byte {
	b, _ := json.MarshalIndent(s, "", " ")
	return b
}
