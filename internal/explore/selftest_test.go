package explore

// Self-tests of the engine: tiny programs whose complete sets of behaviours
// are known are explored exhaustively; the explorer must find exactly those
// behaviours (channel / mutex semantics of the vrt model, deadlock detection,
// completeness of the enumeration).

import (
	"fmt"
	"sort"
	"strings"
	"testing"

	"verif/rt/vrt"
	"verif/rt/vsync"
)

func outcomes(t *testing.T, bound int, body func()) (map[string]int, *Stats) {
	t.Helper()
	st := Explore(body, Config{Bound: bound, ValidateEvery: 1})
	if len(st.EngineErrors) > 0 {
		t.Fatalf("engine errors: %v", st.EngineErrors)
	}
	return st.Outcomes, st
}

func keys(m map[string]int) string {
	var k []string
	for s := range m {
		k = append(k, s)
	}
	sort.Strings(k)
	return strings.Join(k, " | ")
}

// n yields in each of two threads: exactly C(2n+2, n+1)-ish interleavings; we
// check the count for the classic case of two threads with k atomic steps each
// (the number of interleavings is C(2k, k)), for both base schedules.
func TestInterleavingCount(t *testing.T) {
	for k := 1; k <= 4; k++ {
		order := ""
		body := func() {
			order = ""
			vrt.Explore()
			a := vrt.GoWorker("a", func() {
				for i := 0; i < k; i++ {
					vrt.Yield()
					order += "a"
				}
			})
			b := vrt.GoWorker("b", func() {
				for i := 0; i < k; i++ {
					vrt.Yield()
					order += "b"
				}
			})
			vrt.Quiesce()
			if !a.Done() || !b.Done() {
				vrt.Failf("hang", "")
			}
			vrt.Observe("%s", order)
		}
		out, st := outcomes(t, 99, body)
		want := 1
		for i := 1; i <= k; i++ {
			want = want * (k + i) / i
		}
		if len(out) != want {
			t.Errorf("k=%d: %d distinct interleavings, want C(%d,%d)=%d", k, len(out), 2*k, k, want)
		}
		if !st.Exhaustive {
			t.Errorf("k=%d: tree not exhausted", k)
		}
	}
}

// The lost update: two unsynchronised read-modify-write sequences.
func TestLostUpdate(t *testing.T) {
	body := func() {
		x := 0
		vrt.Explore()
		inc := func() {
			vrt.Yield()
			v := x
			vrt.Yield()
			x = v + 1
		}
		vrt.GoWorker("a", inc)
		vrt.GoWorker("b", inc)
		vrt.Quiesce()
		vrt.Observe("x=%d", x)
	}
	out, _ := outcomes(t, 99, body)
	if keys(out) != "x=1 | x=2" {
		t.Errorf("outcomes %s", keys(out))
	}
	// with a mutex only x=2 remains
	body2 := func() {
		x := 0
		var mu vsync.Mutex
		vrt.Explore()
		inc := func() {
			mu.Lock()
			v := x
			vrt.Yield()
			x = v + 1
			mu.Unlock()
		}
		vrt.GoWorker("a", inc)
		vrt.GoWorker("b", inc)
		vrt.Quiesce()
		vrt.Observe("x=%d", x)
	}
	out, _ = outcomes(t, 99, body2)
	if keys(out) != "x=2" {
		t.Errorf("with mutex: outcomes %s", keys(out))
	}
}

// Lock-order inversion must be reported as a deadlock in some schedule and
// only there.
func TestABBADeadlock(t *testing.T) {
	body := func() {
		var a, b vsync.Mutex
		vrt.Explore()
		vrt.GoWorker("t1", func() { a.Lock(); b.Lock(); b.Unlock(); a.Unlock() })
		vrt.GoWorker("t2", func() { b.Lock(); a.Lock(); a.Unlock(); b.Unlock() })
		vrt.Quiesce()
		if len(vrt.LockWaiters()) > 0 {
			vrt.Observe("deadlock")
			vrt.Failf("deadlock", "lock waiters %v", vrt.LockWaiters())
		} else {
			vrt.Observe("ok")
		}
	}
	st := Explore(body, Config{Bound: 99})
	if keys(st.Outcomes) != "deadlock | ok" {
		t.Errorf("outcomes %s", keys(st.Outcomes))
	}
	if len(st.Violations) != 1 || st.Violations[0].Deviations != 1 {
		t.Errorf("violations %+v", st.Violations)
	}
}

// Go's RWMutex: a reader that re-acquires the read lock while a writer is
// waiting deadlocks.
func TestRWMutexWriterPreference(t *testing.T) {
	body := func() {
		var m vsync.RWMutex
		vrt.Explore()
		vrt.GoWorker("reader", func() { m.RLock(); vrt.Yield(); m.RLock(); m.RUnlock(); m.RUnlock() })
		vrt.GoWorker("writer", func() { m.Lock(); m.Unlock() })
		vrt.Quiesce()
		if len(vrt.LockWaiters()) > 0 {
			vrt.Observe("deadlock")
		} else {
			vrt.Observe("ok")
		}
	}
	out, _ := outcomes(t, 99, body)
	if keys(out) != "deadlock | ok" {
		t.Errorf("outcomes %s", keys(out))
	}
}

// Channel semantics against what the Go specification prescribes.
func TestChannelSemantics(t *testing.T) {
	cases := []struct {
		name string
		body func()
		want string
	}{
		{"unbuffered rendezvous", func() {
			c := vrt.MakeChan[int]()
			vrt.Explore()
			got := 0
			vrt.GoWorker("s", func() { c.Send(7) })
			vrt.GoWorker("r", func() { got = c.Recv() })
			vrt.Quiesce()
			vrt.Observe("got=%d", got)
		}, "got=7"},
		{"buffered fifo and close", func() {
			c := vrt.MakeChan[int](2)
			vrt.Explore()
			var got []int
			vrt.GoWorker("s", func() { c.Send(1); c.Send(2); c.Send(3); c.Close() })
			vrt.GoWorker("r", func() {
				for {
					v, ok := c.Recv2()
					if !ok {
						return
					}
					got = append(got, v)
				}
			})
			vrt.Quiesce()
			vrt.Observe("%v", got)
		}, "[1 2 3]"},
		{"select default", func() {
			c := vrt.MakeChan[int]()
			vrt.Explore()
			r := c.RecvCase()
			vrt.Observe("case=%d", vrt.Select(true, r))
		}, "case=-1"},
		{"select both ready: either", func() {
			a, b := vrt.MakeChan[int](1), vrt.MakeChan[int](1)
			a.Send(1)
			b.Send(2)
			vrt.Explore()
			ra, rb := a.RecvCase(), b.RecvCase()
			vrt.Observe("case=%d", vrt.Select(false, ra, rb))
		}, "case=0 | case=1"},
		{"two senders one receiver", func() {
			c := vrt.MakeChan[string]()
			vrt.Explore()
			got := ""
			vrt.GoWorker("a", func() { c.Send("a") })
			vrt.GoWorker("b", func() { c.Send("b") })
			vrt.GoWorker("r", func() { got = c.Recv() + c.Recv() })
			vrt.Quiesce()
			vrt.Observe("%s", got)
		}, "ab | ba"},
		{"nil channel blocks, close wakes", func() {
			var n *vrt.Chan[int]
			c := vrt.MakeChan[int]()
			vrt.Explore()
			res := ""
			w := vrt.GoWorker("w", func() {
				rn, rc := n.RecvCase(), c.RecvCase()
				i := vrt.Select(false, rn, rc)
				res = fmt.Sprintf("case=%d ok=%v", i, rc.Ok)
			})
			vrt.GoWorker("c", func() { c.Close() })
			vrt.Quiesce()
			vrt.Observe("%s done=%v", res, w.Done())
		}, "case=1 ok=false done=true"},
	}
	for _, tc := range cases {
		out, _ := outcomes(t, 99, tc.body)
		if keys(out) != tc.want {
			t.Errorf("%s: outcomes %q, want %q", tc.name, keys(out), tc.want)
		}
	}
}

// Misuse that the Go runtime turns into a crash must be reported as a crash.
func TestCrashes(t *testing.T) {
	for name, body := range map[string]func(){
		"send on closed": func() { c := vrt.MakeChan[int](1); vrt.Explore(); c.Close(); c.Send(1) },
		"double close":   func() { c := vrt.MakeChan[int](1); vrt.Explore(); c.Close(); c.Close() },
		"unlock unlocked": func() {
			var m vsync.Mutex
			vrt.Explore()
			m.Unlock()
		},
		"runlock under write lock": func() {
			var m vsync.RWMutex
			vrt.Explore()
			m.Lock()
			m.RUnlock()
		},
	} {
		st := Explore(body, Config{Bound: 0})
		if len(st.Violations) != 1 || !strings.HasPrefix(st.Violations[0].Fingerprint, "crash:") {
			t.Errorf("%s: violations %+v", name, st.Violations)
		}
	}
}
