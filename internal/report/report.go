// Package report implements the common violation protocol of every check:
// fingerprints, the committed known-findings file, replay files, the
// VIOLATION / KNOWN-FINDING lines, the evidence file and the exit status.
package report

import (
	"bufio"
	"encoding/json"
	"fmt"
	"os"
	"path/filepath"
	"regexp"
	"sort"
	"strconv"
	"strings"
	"time"
)

// Root is the /verif directory.
func Root() string {
	if r := os.Getenv("VERIF_ROOT"); r != "" {
		return r
	}
	return "/verif"
}

// RepoDir is the checkout under test (/repo unless VERIF_REPO redirects a
// development run to a scratch copy).
func RepoDir() string {
	if r := os.Getenv("VERIF_REPO"); r != "" {
		return r
	}
	return "/repo"
}

// GoEnv is the environment for go tooling started by a check.
func GoEnv() []string {
	e := append(os.Environ(), "GOPROXY=off", "GOSUMDB=off", "GOTOOLCHAIN=local")
	if !strings.Contains(os.Getenv("GOFLAGS"), "-modfile") {
		e = append(e, "GOFLAGS=-mod=mod")
	}
	return e
}

// Tier returns "quick" or "thorough" (VERIF_TIER).
func Tier() string {
	if os.Getenv("VERIF_TIER") == "thorough" {
		return "thorough"
	}
	return "quick"
}

// Seed returns VERIF_SEED (0 if unset). Nothing in the deciding step is
// random; the seed only rotates the order in which shards are visited.
func Seed() int {
	n, _ := strconv.Atoi(os.Getenv("VERIF_SEED"))
	return n
}

type violation struct {
	FP     string      `json:"fingerprint"`
	What   string      `json:"what"`
	Replay interface{} `json:"replay"`
	Count  int         `json:"count"`
}

// Checker accumulates the result of one check run.
type Checker struct {
	Property string
	Level    string
	start    time.Time
	viol     map[string]*violation
	order    []string
	engine   []string
}

// New starts a check.
func New(property, level string) *Checker {
	return &Checker{Property: property, Level: level, start: time.Now(), viol: map[string]*violation{}}
}

// Report records a violation identified by its fingerprint.
func (c *Checker) Report(fp, what string, replay interface{}) {
	if v, ok := c.viol[fp]; ok {
		v.Count++
		return
	}
	c.viol[fp] = &violation{FP: fp, What: what, Replay: replay, Count: 1}
	c.order = append(c.order, fp)
}

// Seen reports whether a fingerprint was already recorded.
func (c *Checker) Seen(fp string) bool { _, ok := c.viol[fp]; return ok }

// NViolations returns the number of distinct fingerprints recorded.
func (c *Checker) NViolations() int { return len(c.viol) }

// Unstable records a failure that the enumeration really observed (the oracle
// disagreed with the code under test) but that did not show again when the
// case was re-run on its own: the code under test behaves differently
// depending on what it was given before (a cache, a pooled buffer, a lazily
// built table). It is reported as a violation with the fingerprint
// fp + "/depends-on-earlier-calls" - never as an engine error: a repository
// that keeps state between calls must not turn the check into a tool failure.
func (c *Checker) Unstable(fp, what string, replay interface{}) {
	c.Report(fp+"/depends-on-earlier-calls", what+" (observed during the enumeration; not reproduced by re-running the case alone: the result depends on earlier calls)", replay)
}

// EngineError records a failure of the machinery itself (exit status 2,
// never reported as a violation).
func (c *Checker) EngineError(format string, args ...interface{}) {
	c.engine = append(c.engine, fmt.Sprintf(format, args...))
}

type finding struct {
	property, fp, text string
}

func loadFindings() []finding {
	f, err := os.Open(filepath.Join(Root(), "known-findings.txt"))
	if err != nil {
		return nil
	}
	defer f.Close()
	var out []finding
	re := regexp.MustCompile(`^finding:\s+property=(\S+)\s+fp=(\S+)\s*(.*)$`)
	sc := bufio.NewScanner(f)
	sc.Buffer(make([]byte, 1<<20), 1<<20)
	for sc.Scan() {
		m := re.FindStringSubmatch(strings.TrimSpace(sc.Text()))
		if m != nil {
			out = append(out, finding{m[1], m[2], m[3]})
		}
	}
	return out
}

func matchFinding(fs []finding, property, fp string) *finding {
	for i := range fs {
		f := &fs[i]
		if f.property != property {
			continue
		}
		if f.fp == fp {
			return f
		}
	}
	// name-set fingerprints ("<clause>/<role>=<group>[@<position>]:<n1>+<n2>+..."):
	// the group label and the way names are grouped are derived from tables of
	// the tree under test, which a refactoring may rearrange without changing
	// any behaviour. Such a fingerprint is a listed finding when EVERY name of
	// it is listed for the same clause, role and position (under whatever
	// group); a name that is listed nowhere keeps it unlisted.
	key, names, ok := nameSetKey(fp)
	if !ok {
		return nil
	}
	var first *finding
	for _, n := range names {
		found := false
		for i := range fs {
			f := &fs[i]
			if f.property != property {
				continue
			}
			k2, names2, ok2 := nameSetKey(f.fp)
			if !ok2 || k2 != key {
				continue
			}
			for _, n2 := range names2 {
				if n2 == n {
					found = true
					if first == nil {
						first = f
					}
				}
			}
		}
		if !found {
			return nil
		}
	}
	return first
}

// nameSetKey splits a name-set fingerprint into (clause/role + position, names).
func nameSetKey(fp string) (key string, names []string, ok bool) {
	colon := strings.LastIndex(fp, ":")
	eq := strings.LastIndex(fp, "=")
	if colon < 0 || eq < 0 || eq > colon || colon == len(fp)-1 {
		return "", nil, false
	}
	group := fp[eq+1 : colon]
	pos := ""
	if at := strings.LastIndex(group, "@"); at >= 0 {
		pos = group[at:]
	}
	return fp[:eq+1] + pos, strings.Split(fp[colon+1:], "+"), true
}

var unsafeRe = regexp.MustCompile(`[^A-Za-z0-9_.-]+`)

// FPEscape makes a fingerprint free of white space (fingerprints are single
// tokens in known-findings.txt).
func FPEscape(s string) string {
	return strings.Join(strings.Fields(s), "_")
}

// Finish writes the evidence file, prints the protocol lines and returns the
// exit status.
func (c *Checker) Finish(coverage map[string]interface{}, assumptions []string) int {
	fs := loadFindings()
	unlisted, known := 0, 0
	sort.Strings(c.order)
	var knownList, newList []string
	for _, fp := range c.order {
		v := c.viol[fp]
		if f := matchFinding(fs, c.Property, fp); f != nil {
			known++
			fmt.Printf("KNOWN-FINDING: property=%s %s [fp=%s]\n", c.Property, f.text, fp)
			knownList = append(knownList, fp)
			// keep the witness replayable (not a VIOLATION: no line printed)
			dir := filepath.Join(Root(), "replays", c.Property, "known")
			os.MkdirAll(dir, 0o755)
			name := unsafeRe.ReplaceAllString(fp, "_")
			if len(name) > 120 {
				name = name[:120]
			}
			js, _ := json.MarshalIndent(map[string]interface{}{
				"property": c.Property, "fingerprint": fp, "what": v.What, "count": v.Count, "replay": v.Replay, "known_finding": f.text,
			}, "", " ")
			os.WriteFile(filepath.Join(dir, name+".json"), js, 0o644)
			continue
		}
		unlisted++
		dir := filepath.Join(Root(), "replays", c.Property)
		os.MkdirAll(dir, 0o755)
		name := unsafeRe.ReplaceAllString(fp, "_")
		if len(name) > 120 {
			name = name[:120]
		}
		path := filepath.Join(dir, name+".json")
		js, _ := json.MarshalIndent(map[string]interface{}{
			"property": c.Property, "fingerprint": fp, "what": v.What, "count": v.Count, "replay": v.Replay,
		}, "", " ")
		os.WriteFile(path, js, 0o644)
		fmt.Printf("VIOLATION property=%s replay=%s\n", c.Property, path)
		fmt.Printf("  fingerprint: %s\n  what: %s\n", fp, v.What)
		newList = append(newList, fp)
	}
	if coverage == nil {
		coverage = map[string]interface{}{}
	}
	coverage["known_findings_observed"] = knownList
	coverage["unlisted_violations"] = newList
	if len(c.engine) > 0 {
		coverage["engine_errors"] = c.engine
	}
	ev := map[string]interface{}{
		"property_id": c.Property,
		"tier":        Tier(),
		"seed":        Seed(),
		"level":       c.Level,
		"coverage":    coverage,
		"assumptions": assumptions,
		"wall_s":      time.Since(c.start).Seconds(),
		"violations":  unlisted,
	}
	// evidence describes /repo itself: a development run against another
	// checkout (VERIF_REPO: seeded or benign changes in a scratch worktree)
	// writes its evidence next to the committed files, never over them
	evdir := "evidence"
	if os.Getenv("VERIF_REPO") != "" && os.Getenv("VERIF_REPO") != "/repo" {
		evdir = filepath.Join(".work", "evidence-alt")
	}
	os.MkdirAll(filepath.Join(Root(), evdir), 0o755)
	js, _ := json.MarshalIndent(ev, "", " ")
	if err := os.WriteFile(filepath.Join(Root(), evdir, c.Property+".json"), js, 0o644); err != nil {
		fmt.Fprintln(os.Stderr, "cannot write evidence:", err)
		return 2
	}
	for _, e := range c.engine {
		fmt.Printf("ENGINE-ERROR property=%s %s\n", c.Property, e)
	}
	fmt.Printf("RESULT property=%s tier=%s unlisted_violations=%d known_findings=%d engine_errors=%d wall=%.1fs\n",
		c.Property, Tier(), unlisted, known, len(c.engine), time.Since(c.start).Seconds())
	if unlisted > 0 {
		return 1
	}
	if len(c.engine) > 0 {
		return 2
	}
	return 0
}
