package report
import "testing"
func TestNameSet(t *testing.T) {
	fs := []finding{{"C05","compile/type-mismatch/param-name=generated-local@method:args+buf+c+callErr+errOut+msg+resp","x"},{"C05","compile/type-mismatch/param-name=generated-local@signal:err","y"}}
	if matchFinding(fs,"C05","compile/type-mismatch/param-name=signature.basicConstructors@method:c")==nil { t.Fatal("c should be known") }
	if matchFinding(fs,"C05","compile/type-mismatch/param-name=generated-local@method:args+buf+callErr")==nil { t.Fatal("subset should be known") }
	if matchFinding(fs,"C05","compile/type-mismatch/param-name=generated-local@method:args+zzz")!=nil { t.Fatal("new name must stay unlisted") }
	if matchFinding(fs,"C05","compile/type-mismatch/param-name=generated-local@signal:c")!=nil { t.Fatal("other position must stay unlisted") }
	if matchFinding(fs,"C05","compile/duplicate-declaration/param-name=generated-local@method:c")!=nil { t.Fatal("other clause must stay unlisted") }
}
