package refmodel

import (
	"encoding/hex"
	"fmt"
	"math"
	"strings"
)

// Datum is a value of a signature type, independent of any Go type of the
// repository.
type Datum struct {
	T *Type
	// U holds every fixed width scalar: integers as two's complement
	// truncated to the width, booleans as 0/1, floats as IEEE 754 bits.
	U uint64
	// S holds strings; B raw data.
	S string
	B []byte
	// Elems: list elements, tuple/struct members, map entries as
	// k0,v0,k1,v1,... in wire order.
	Elems []*Datum
	// Dyn: for 'm' the concrete value (any type); for 'o' the datum of
	// ObjectRefSig.
	Dyn *Datum
}

// Span describes which part of an encoding a byte range belongs to.
type Span struct {
	Start, End int    // [Start,End)
	Path       []int  // child indices from the root datum (Dyn = index 0)
	Kind       Kind   // kind of the datum the bytes belong to
	Part       string // "fixed", "len", "body", "count", "sig-len", "sig-body"
}

func (s Span) String() string {
	return fmt.Sprintf("%s-%s", s.Kind.Letter(), s.Part)
}

type enc struct {
	b     []byte
	spans []Span
	track bool
}

func (e *enc) span(start int, path []int, k Kind, part string) {
	if e.track && len(e.b) > start {
		e.spans = append(e.spans, Span{start, len(e.b), append([]int(nil), path...), k, part})
	}
}

// little-endian placement, least significant byte first, written out
// explicitly.
func (e *enc) le(v uint64, width int) {
	for i := 0; i < width; i++ {
		e.b = append(e.b, byte(v>>(8*uint(i))))
	}
}

func (e *enc) str(s string, path []int, k Kind, lenPart, bodyPart string) {
	st := len(e.b)
	e.le(uint64(len(s)), 4)
	e.span(st, path, k, lenPart)
	st = len(e.b)
	e.b = append(e.b, s...)
	e.span(st, path, k, bodyPart)
}

func (e *enc) datum(d *Datum, path []int) {
	t := d.T
	switch t.Kind {
	case Int8, Uint8, Int16, Uint16, Int32, Uint32, Int64, Uint64, Float, Double:
		st := len(e.b)
		e.le(d.U, t.Kind.Width())
		e.span(st, path, t.Kind, "fixed")
	case Bool:
		st := len(e.b)
		if d.U != 0 {
			e.b = append(e.b, 1)
		} else {
			e.b = append(e.b, 0)
		}
		e.span(st, path, t.Kind, "fixed")
	case String:
		e.str(d.S, path, String, "len", "body")
	case Raw:
		e.str(string(d.B), path, Raw, "len", "body")
	case Void:
	case Value:
		e.str(d.Dyn.T.String(), path, Value, "sig-len", "sig-body")
		e.datum(d.Dyn, append(path, 0))
	case Object:
		e.datum(d.Dyn, append(path, 0))
	case List:
		st := len(e.b)
		e.le(uint64(len(d.Elems)), 4)
		e.span(st, path, List, "count")
		for i, c := range d.Elems {
			e.datum(c, append(path, i))
		}
	case Map:
		st := len(e.b)
		e.le(uint64(len(d.Elems)/2), 4)
		e.span(st, path, Map, "count")
		for i, c := range d.Elems {
			e.datum(c, append(path, i))
		}
	case Tuple, Struct:
		for i, c := range d.Elems {
			e.datum(c, append(path, i))
		}
	default:
		panic("refmodel: cannot encode kind " + t.Kind.Letter())
	}
}

// Encode returns the documented serialization of d.
func Encode(d *Datum) []byte {
	e := &enc{}
	e.datum(d, nil)
	if e.b == nil {
		return []byte{}
	}
	return e.b
}

// EncodeSpans returns the serialization plus, for every byte, the element it
// belongs to (spans are disjoint, ordered, and cover the encoding).
func EncodeSpans(d *Datum) ([]byte, []Span) {
	e := &enc{track: true}
	e.datum(d, nil)
	if e.b == nil {
		e.b = []byte{}
	}
	return e.b, e.spans
}

// EncodeValue returns the serialization of d carried as a dynamic value:
// its signature as a string followed by its serialization.
func EncodeValue(d *Datum) []byte {
	return Encode(&Datum{T: &Type{Kind: Value}, Dyn: d})
}

// SpanAt returns the span containing offset off.
func SpanAt(spans []Span, off int) (Span, bool) {
	for _, s := range spans {
		if off >= s.Start && off < s.End {
			return s, true
		}
	}
	return Span{}, false
}

// maxZeroWidthCount bounds the count of a list or map of zero-width entries
// the model agrees to decode (16 times the documented cap of 4096 entries).
const maxZeroWidthCount = 1 << 16

type dec struct {
	b   []byte
	pos int
}

func (r *dec) le(width int) (uint64, error) {
	if r.pos+width > len(r.b) {
		return 0, fmt.Errorf("short input: need %d bytes at %d of %d", width, r.pos, len(r.b))
	}
	var v uint64
	for i := 0; i < width; i++ {
		v |= uint64(r.b[r.pos+i]) << (8 * uint(i))
	}
	r.pos += width
	return v, nil
}

func (r *dec) str() (string, error) {
	n, err := r.le(4)
	if err != nil {
		return "", err
	}
	if uint64(r.pos)+n > uint64(len(r.b)) {
		return "", fmt.Errorf("short input: string of %d bytes at %d of %d", n, r.pos, len(r.b))
	}
	s := string(r.b[r.pos : r.pos+int(n)])
	r.pos += int(n)
	return s, nil
}

func (r *dec) datum(t *Type) (*Datum, error) {
	d := &Datum{T: t}
	var err error
	switch t.Kind {
	case Int8, Uint8, Int16, Uint16, Int32, Uint32, Int64, Uint64, Float, Double:
		d.U, err = r.le(t.Kind.Width())
		return d, err
	case Bool:
		v, err := r.le(1)
		if v != 0 {
			d.U = 1
		}
		return d, err
	case String:
		d.S, err = r.str()
		return d, err
	case Raw:
		s, err := r.str()
		d.B = []byte(s)
		return d, err
	case Void:
		return d, nil
	case Value:
		sig, err := r.str()
		if err != nil {
			return nil, err
		}
		it, err := ParseSig(sig)
		if err != nil {
			return nil, err
		}
		d.Dyn, err = r.datum(it)
		return d, err
	case Object:
		d.Dyn, err = r.datum(MustParse(ObjectRefSig))
		return d, err
	case List, Map:
		n, err := r.le(4)
		if err != nil {
			return nil, err
		}
		// a count the input cannot hold is refused before looping - unless
		// the entries occupy no byte ([()], [v], {vv}...): then the count is
		// all there is, and it is bounded by a constant instead
		zero := t.Elem.ZeroWidth() && (t.Kind == List || t.Key.ZeroWidth())
		if (!zero && n > uint64(len(r.b))) || (zero && n > maxZeroWidthCount) {
			return nil, fmt.Errorf("count %d larger than the input", n)
		}
		for i := 0; i < int(n); i++ {
			if t.Kind == Map {
				k, err := r.datum(t.Key)
				if err != nil {
					return nil, err
				}
				d.Elems = append(d.Elems, k)
			}
			v, err := r.datum(t.Elem)
			if err != nil {
				return nil, err
			}
			d.Elems = append(d.Elems, v)
		}
		return d, nil
	case Tuple, Struct:
		for _, m := range t.Members {
			c, err := r.datum(m)
			if err != nil {
				return nil, err
			}
			d.Elems = append(d.Elems, c)
		}
		return d, nil
	}
	return nil, fmt.Errorf("cannot decode kind %s", t.Kind.Letter())
}

// Decode reads a datum of type t from the front of b and returns the number
// of bytes it occupies.
func Decode(t *Type, b []byte) (*Datum, int, error) {
	r := &dec{b: b}
	d, err := r.datum(t)
	if err != nil {
		return nil, r.pos, err
	}
	return d, r.pos, nil
}

// Equal compares two data structurally (floats by bits, maps by wire order).
func Equal(a, b *Datum) bool {
	if a == nil || b == nil {
		return a == b
	}
	if a.T.String() != b.T.String() || a.U != b.U || a.S != b.S || string(a.B) != string(b.B) || len(a.Elems) != len(b.Elems) {
		return false
	}
	if (a.Dyn == nil) != (b.Dyn == nil) || (a.Dyn != nil && !Equal(a.Dyn, b.Dyn)) {
		return false
	}
	for i := range a.Elems {
		if !Equal(a.Elems[i], b.Elems[i]) {
			return false
		}
	}
	return true
}

// String renders a datum for replay files and samples.
func (d *Datum) String() string {
	var b strings.Builder
	d.render(&b)
	return b.String()
}

func (d *Datum) render(b *strings.Builder) {
	switch d.T.Kind {
	case Int8:
		fmt.Fprintf(b, "%d", int8(d.U))
	case Int16:
		fmt.Fprintf(b, "%d", int16(d.U))
	case Int32:
		fmt.Fprintf(b, "%d", int32(d.U))
	case Int64:
		fmt.Fprintf(b, "%d", int64(d.U))
	case Uint8, Uint16, Uint32, Uint64:
		fmt.Fprintf(b, "%#x", d.U)
	case Float:
		fmt.Fprintf(b, "f32(%#x=%v)", d.U, math.Float32frombits(uint32(d.U)))
	case Double:
		fmt.Fprintf(b, "f64(%#x=%v)", d.U, math.Float64frombits(d.U))
	case Bool:
		fmt.Fprintf(b, "%v", d.U != 0)
	case String:
		if len(d.S) > 24 {
			fmt.Fprintf(b, "str[%d]", len(d.S))
		} else {
			fmt.Fprintf(b, "%q", d.S)
		}
	case Raw:
		fmt.Fprintf(b, "raw(%s)", hex.EncodeToString(d.B))
	case Void:
		b.WriteString("void")
	case Value:
		fmt.Fprintf(b, "m<%s>:", d.Dyn.T)
		d.Dyn.render(b)
	case Object:
		b.WriteString("o:")
		d.Dyn.render(b)
	case List:
		b.WriteByte('[')
		for i, c := range d.Elems {
			if i > 0 {
				b.WriteByte(',')
			}
			c.render(b)
		}
		b.WriteByte(']')
	case Map:
		b.WriteByte('{')
		for i := 0; i+1 < len(d.Elems); i += 2 {
			if i > 0 {
				b.WriteByte(',')
			}
			d.Elems[i].render(b)
			b.WriteByte(':')
			d.Elems[i+1].render(b)
		}
		b.WriteByte('}')
	case Tuple, Struct:
		b.WriteByte('(')
		for i, c := range d.Elems {
			if i > 0 {
				b.WriteByte(',')
			}
			c.render(b)
		}
		b.WriteByte(')')
	}
}

// Child returns the sub-datum at path (Dyn is index 0 of 'm' and 'o').
func (d *Datum) Child(path []int) *Datum {
	for _, i := range path {
		if d.T.Kind == Value || d.T.Kind == Object {
			d = d.Dyn
		} else {
			d = d.Elems[i]
		}
	}
	return d
}

// ChildTypeAt returns, for a datum of type t, the declared type of the
// child at index i of its Elems.
func ChildTypeAt(t *Type, i int) *Type {
	switch t.Kind {
	case List:
		return t.Elem
	case Map:
		if i%2 == 0 {
			return t.Key
		}
		return t.Elem
	case Tuple, Struct:
		return t.Members[i]
	}
	return nil
}

// Replace returns a copy of d in which the sub-datum at path is replaced by
// nd; the types along the path are rebuilt so that the result is well typed.
// For lists and maps every sibling element is converted to the new element
// type only if that is possible without inventing data: it is required that
// the list holds a single element (maps: a single entry), otherwise ok is
// false.
func Replace(d *Datum, path []int, nd *Datum) (res *Datum, ok bool) {
	if len(path) == 0 {
		return nd, true
	}
	i := path[0]
	c := *d
	t := *d.T
	c.T = &t
	switch d.T.Kind {
	case Value:
		sub, ok := Replace(d.Dyn, path[1:], nd)
		if !ok {
			return nil, false
		}
		c.Dyn = sub
		return &c, true
	case Object:
		return nil, false
	case List:
		if len(d.Elems) != 1 {
			return nil, false
		}
		sub, ok := Replace(d.Elems[0], path[1:], nd)
		if !ok {
			return nil, false
		}
		c.Elems = []*Datum{sub}
		t.Elem = sub.T
		return &c, true
	case Map:
		if len(d.Elems) != 2 {
			return nil, false
		}
		sub, ok := Replace(d.Elems[i], path[1:], nd)
		if !ok {
			return nil, false
		}
		c.Elems = append([]*Datum(nil), d.Elems...)
		c.Elems[i] = sub
		if i == 0 {
			t.Key = sub.T
		} else {
			t.Elem = sub.T
		}
		return &c, true
	case Tuple, Struct:
		sub, ok := Replace(d.Elems[i], path[1:], nd)
		if !ok {
			return nil, false
		}
		c.Elems = append([]*Datum(nil), d.Elems...)
		c.Elems[i] = sub
		t.Members = append([]*Type(nil), d.T.Members...)
		t.Members[i] = sub.T
		return &c, true
	}
	return nil, false
}
