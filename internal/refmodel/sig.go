// Package refmodel is the independent reference model of the QiMessaging wire
// format. It is written ONLY from /repo/doc/about-qimessaging.md (sections
// "Message Header", "Signatures", "Serialization") with explicit byte
// placement; it does not import any codec of the repository (type/basic,
// type/encoding, type/value, meta/signature) nor encoding/binary.
//
// Points where the document is silent and the model takes the reading used by
// libqi (stated as assumptions in the evidence of the checks):
//   - 'c' 'C' 'w' 'W' (8/16-bit integers) are not in the document's table;
//     the property statements fix them as little-endian fixed width scalars.
//   - "raw data: an array of byte of a variable size" is taken as a 32-bit
//     count followed by the bytes (same layout as a string).
//   - 'v' (void) occupies no byte.
//   - an object 'o' is the documented description without capability
//     extensions: MetaObject, service id, object id.
package refmodel

import (
	"fmt"
	"strings"
)

// Kind enumerates the type constructors of the signature grammar.
type Kind int

// Kinds.
const (
	Int8 Kind = iota
	Uint8
	Int16
	Uint16
	Int32
	Uint32
	Int64
	Uint64
	Float
	Double
	Bool
	String
	Raw
	Value   // 'm' dynamic value
	Object  // 'o'
	Unknown // 'X'
	Void    // 'v'
	List
	Map
	Tuple
	Struct
)

var atomLetters = map[byte]Kind{
	'c': Int8, 'C': Uint8, 'w': Int16, 'W': Uint16, 'i': Int32, 'I': Uint32,
	'l': Int64, 'L': Uint64, 'f': Float, 'd': Double, 'b': Bool, 's': String,
	'r': Raw, 'm': Value, 'o': Object, 'X': Unknown, 'v': Void,
}

var kindLetters = func() map[Kind]byte {
	m := map[Kind]byte{}
	for l, k := range atomLetters {
		m[k] = l
	}
	return m
}()

// Type is a node of the signature AST.
type Type struct {
	Kind    Kind
	Elem    *Type   // List: element; Map: value
	Key     *Type   // Map: key
	Members []*Type // Tuple, Struct
	Name    string  // Struct
	Fields  []string
}

// MetaObjectSig is the signature of MetaObject as printed in the document
// (section MetaObject).
const MetaObjectSig = "({I(Issss[(ss)<MetaMethodParameter,name,description>]s)<MetaMethod,uid,returnSignature,name,parametersSignature,description,parameters,returnDescription>}{I(Iss)<MetaSignal,uid,name,signature>}{I(Iss)<MetaProperty,uid,name,signature>}s)<MetaObject,methods,signals,properties,description>"

// ObjectRefSig is the description of an object (section Serialization /
// Object, no capability extension): MetaObject, service id, object id.
const ObjectRefSig = "(" + MetaObjectSig + "II)<ObjectReference,metaObject,serviceID,objectID>"

// IsAtom reports whether the type is not built from other types.
func (t *Type) IsAtom() bool { return t.Kind < List }

// Width returns the byte width of fixed-width scalars, -1 otherwise.
func (k Kind) Width() int {
	switch k {
	case Int8, Uint8, Bool:
		return 1
	case Int16, Uint16:
		return 2
	case Int32, Uint32, Float:
		return 4
	case Int64, Uint64, Double:
		return 8
	case Void:
		return 0
	}
	return -1
}

// Letter returns the signature letter of an atom kind, or the opening
// bracket of a composite.
func (k Kind) Letter() string {
	if l, ok := kindLetters[k]; ok {
		return string(l)
	}
	switch k {
	case List:
		return "[]"
	case Map:
		return "{}"
	case Tuple:
		return "()"
	case Struct:
		return "()<>"
	}
	return "?"
}

// Atom returns the type of an atom letter.
func Atom(letter byte) *Type {
	k, ok := atomLetters[letter]
	if !ok {
		panic("refmodel: not an atom: " + string(letter))
	}
	return &Type{Kind: k}
}

// ListOf builds [e].
func ListOf(e *Type) *Type { return &Type{Kind: List, Elem: e} }

// MapOf builds {kv}.
func MapOf(k, v *Type) *Type { return &Type{Kind: Map, Key: k, Elem: v} }

// TupleOf builds (m...).
func TupleOf(m ...*Type) *Type { return &Type{Kind: Tuple, Members: m} }

// StructOf builds (m...)<name,fields...>.
func StructOf(name string, fields []string, m ...*Type) *Type {
	return &Type{Kind: Struct, Members: m, Name: name, Fields: fields}
}

// String prints the signature.
func (t *Type) String() string {
	var b strings.Builder
	t.print(&b)
	return b.String()
}

func (t *Type) print(b *strings.Builder) {
	switch t.Kind {
	case List:
		b.WriteByte('[')
		t.Elem.print(b)
		b.WriteByte(']')
	case Map:
		b.WriteByte('{')
		t.Key.print(b)
		t.Elem.print(b)
		b.WriteByte('}')
	case Tuple, Struct:
		b.WriteByte('(')
		for _, m := range t.Members {
			m.print(b)
		}
		b.WriteByte(')')
		if t.Kind == Struct {
			b.WriteByte('<')
			b.WriteString(t.Name)
			for _, f := range t.Fields {
				b.WriteByte(',')
				b.WriteString(f)
			}
			b.WriteByte('>')
		}
	default:
		b.WriteByte(kindLetters[t.Kind])
	}
}

// Depth is the nesting depth: atoms 0, a constructor 1 + max(children).
func (t *Type) Depth() int {
	d := 0
	for _, c := range t.Children() {
		if cd := c.Depth(); cd > d {
			d = cd
		}
	}
	if t.IsAtom() {
		return 0
	}
	return d + 1
}

// Children returns the direct component types.
func (t *Type) Children() []*Type {
	switch t.Kind {
	case List:
		return []*Type{t.Elem}
	case Map:
		return []*Type{t.Key, t.Elem}
	case Tuple, Struct:
		return t.Members
	}
	return nil
}

// Shape abstracts a signature to its constructors: struct names and field
// names are dropped (they do not influence the serialization).
func (t *Type) Shape() string {
	switch t.Kind {
	case List:
		return "[" + t.Elem.Shape() + "]"
	case Map:
		return "{" + t.Key.Shape() + t.Elem.Shape() + "}"
	case Tuple, Struct:
		s := "("
		for _, m := range t.Members {
			s += m.Shape()
		}
		s += ")"
		if t.Kind == Struct {
			s += "<>"
		}
		return s
	}
	return t.Kind.Letter()
}

// ZeroWidth reports whether every value of t has an empty serialization:
// void, and tuples and structures all of whose members are zero-width (the
// empty tuple first of all).
func (t *Type) ZeroWidth() bool {
	switch t.Kind {
	case Void:
		return true
	case Tuple, Struct:
		for _, m := range t.Members {
			if !m.ZeroWidth() {
				return false
			}
		}
		return true
	}
	return false
}

// Contains reports whether kind k occurs anywhere in t.
func (t *Type) Contains(k Kind) bool {
	if t.Kind == k {
		return true
	}
	for _, c := range t.Children() {
		if c.Contains(k) {
			return true
		}
	}
	return false
}

type sigParser struct {
	s   string
	pos int
}

// ParseSig parses a signature following the grammar of the document
// (section Signature Grammar), extended with the letters c C w W X v and with
// anonymous tuples "(...)" not followed by "<...>".
func ParseSig(s string) (*Type, error) {
	p := &sigParser{s: s}
	t, err := p.decl()
	if err != nil {
		return nil, fmt.Errorf("signature %q: %v", s, err)
	}
	if p.pos != len(s) {
		return nil, fmt.Errorf("signature %q: trailing input at %d", s, p.pos)
	}
	return t, nil
}

// MustParse parses a signature known to be valid.
func MustParse(s string) *Type {
	t, err := ParseSig(s)
	if err != nil {
		panic(err)
	}
	return t
}

func (p *sigParser) peek() byte {
	if p.pos < len(p.s) {
		return p.s[p.pos]
	}
	return 0
}

func (p *sigParser) expect(c byte) error {
	if p.peek() != c {
		return fmt.Errorf("expected %q at %d", c, p.pos)
	}
	p.pos++
	return nil
}

func isAlnum(c byte) bool {
	return c == '_' || (c >= '0' && c <= '9') || (c >= 'a' && c <= 'z') || (c >= 'A' && c <= 'Z')
}

func (p *sigParser) ident() (string, error) {
	start := p.pos
	for isAlnum(p.peek()) {
		p.pos++
	}
	if p.pos == start {
		return "", fmt.Errorf("expected a name at %d", start)
	}
	return p.s[start:p.pos], nil
}

func (p *sigParser) decl() (*Type, error) {
	c := p.peek()
	switch c {
	case 0:
		return nil, fmt.Errorf("unexpected end")
	case '[':
		p.pos++
		e, err := p.decl()
		if err != nil {
			return nil, err
		}
		if err := p.expect(']'); err != nil {
			return nil, err
		}
		return ListOf(e), nil
	case '{':
		p.pos++
		k, err := p.decl()
		if err != nil {
			return nil, err
		}
		v, err := p.decl()
		if err != nil {
			return nil, err
		}
		if err := p.expect('}'); err != nil {
			return nil, err
		}
		return MapOf(k, v), nil
	case '(':
		p.pos++
		var members []*Type
		for p.peek() != ')' {
			m, err := p.decl()
			if err != nil {
				return nil, err
			}
			members = append(members, m)
		}
		p.pos++
		if p.peek() != '<' {
			return &Type{Kind: Tuple, Members: members}, nil
		}
		p.pos++
		name, err := p.ident()
		if err != nil {
			return nil, err
		}
		// C++ template style name: List<double>
		if p.peek() == '<' {
			p.pos++
			inner, err := p.ident()
			if err != nil {
				return nil, err
			}
			if err := p.expect('>'); err != nil {
				return nil, err
			}
			name += "<" + inner + ">"
		}
		var fields []string
		for p.peek() == ',' {
			p.pos++
			f, err := p.ident()
			if err != nil {
				return nil, err
			}
			fields = append(fields, f)
		}
		if err := p.expect('>'); err != nil {
			return nil, err
		}
		if len(fields) != len(members) {
			return nil, fmt.Errorf("%d names for %d members", len(fields), len(members))
		}
		return &Type{Kind: Struct, Members: members, Name: name, Fields: fields}, nil
	}
	if k, ok := atomLetters[c]; ok {
		p.pos++
		return &Type{Kind: k}, nil
	}
	return nil, fmt.Errorf("unexpected %q at %d", c, p.pos)
}
