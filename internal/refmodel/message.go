package refmodel

import "fmt"

// Header is the documented 28-byte message header without the magic (which
// is a constant of the format).
type Header struct {
	ID      uint32
	Size    uint32
	Version uint16
	Type    uint8
	Flags   uint8
	Service uint32
	Object  uint32
	Action  uint32
}

// HeaderSize is the documented size of a header.
const HeaderSize = 28

// Documented constants.
const (
	MagicByte0 = 0x42 // the magic 0x42dead42 is written in big endian
	MagicByte1 = 0xde
	MagicByte2 = 0xad
	MagicByte3 = 0x42
	Version    = 0
	TypeMin    = 1 // Call
	TypeMax    = 8 // Cancelled
)

// EncodeHeader places every byte of the header explicitly, following the
// table of section "Message Header".
func EncodeHeader(h Header) []byte {
	b := make([]byte, 28)
	// offset 0: magic, big endian
	b[0] = 0x42
	b[1] = 0xde
	b[2] = 0xad
	b[3] = 0x42
	// offset 4: message id, little endian
	b[4] = byte(h.ID)
	b[5] = byte(h.ID >> 8)
	b[6] = byte(h.ID >> 16)
	b[7] = byte(h.ID >> 24)
	// offset 8: payload size
	b[8] = byte(h.Size)
	b[9] = byte(h.Size >> 8)
	b[10] = byte(h.Size >> 16)
	b[11] = byte(h.Size >> 24)
	// offset 12: version (16 bits), type, flags
	b[12] = byte(h.Version)
	b[13] = byte(h.Version >> 8)
	b[14] = h.Type
	b[15] = h.Flags
	// offset 16: service
	b[16] = byte(h.Service)
	b[17] = byte(h.Service >> 8)
	b[18] = byte(h.Service >> 16)
	b[19] = byte(h.Service >> 24)
	// offset 20: object
	b[20] = byte(h.Object)
	b[21] = byte(h.Object >> 8)
	b[22] = byte(h.Object >> 16)
	b[23] = byte(h.Object >> 24)
	// offset 24: action
	b[24] = byte(h.Action)
	b[25] = byte(h.Action >> 8)
	b[26] = byte(h.Action >> 16)
	b[27] = byte(h.Action >> 24)
	return b
}

// EncodeMessage is the header followed by the payload; Size is set from the
// payload.
func EncodeMessage(h Header, payload []byte) []byte {
	h.Size = uint32(len(payload))
	return append(EncodeHeader(h), payload...)
}

func u32(b []byte) uint32 {
	return uint32(b[0]) | uint32(b[1])<<8 | uint32(b[2])<<16 | uint32(b[3])<<24
}

// DecodeHeader is the inverse of EncodeHeader; it refuses what the document
// excludes (wrong magic, version other than 0, type outside 1..8).
func DecodeHeader(b []byte) (Header, error) {
	var h Header
	if len(b) < 28 {
		return h, fmt.Errorf("short header: %d bytes", len(b))
	}
	if b[0] != 0x42 || b[1] != 0xde || b[2] != 0xad || b[3] != 0x42 {
		return h, fmt.Errorf("wrong magic % x", b[0:4])
	}
	h.ID = u32(b[4:])
	h.Size = u32(b[8:])
	h.Version = uint16(b[12]) | uint16(b[13])<<8
	h.Type = b[14]
	h.Flags = b[15]
	h.Service = u32(b[16:])
	h.Object = u32(b[20:])
	h.Action = u32(b[24:])
	if h.Version != 0 {
		return h, fmt.Errorf("wrong version %d", h.Version)
	}
	if h.Type < TypeMin || h.Type > TypeMax {
		return h, fmt.Errorf("wrong type %d", h.Type)
	}
	return h, nil
}
