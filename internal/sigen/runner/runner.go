// Package runner holds the small amount of machinery shared by the engine-A
// checks C09, C18 and C20: a guarded call (panic recovery with the top
// repository frame as the site, and a per-case watchdog), and a deterministic
// parallel enumeration loop with an overall deadline.
package runner

import (
	"fmt"
	"runtime"
	"strings"
	"sync"
	"time"
)

// SlowLimit is the per-case watchdog: a case that runs longer is skipped and
// counted, never reported (resource bounds are property C07's business).
const SlowLimit = 10 * time.Second

// Outcome of a guarded call.
type Outcome struct {
	Panic string // recovered panic value, "" if none
	Site  string // top frame inside github.com/lugu/qiloop, "" if none
	Slow  bool   // the watchdog fired; the call was abandoned
}

const repoPrefix = "github.com/lugu/qiloop/"

// topRepoFrame returns the innermost frame of the code under test on the
// panicking goroutine's stack.
func topRepoFrame() string {
	pc := make([]uintptr, 64)
	n := runtime.Callers(3, pc)
	frames := runtime.CallersFrames(pc[:n])
	for {
		f, more := frames.Next()
		if strings.HasPrefix(f.Function, repoPrefix) {
			return strings.TrimPrefix(f.Function, repoPrefix)
		}
		if !more {
			break
		}
	}
	return ""
}

// Guard runs f on its own goroutine, recovers a panic and gives up after
// SlowLimit (the goroutine is then leaked; callers keep inputs small enough
// that this does not happen in practice).
func Guard(f func()) Outcome {
	ch := make(chan Outcome, 1)
	go func() {
		defer func() {
			if r := recover(); r != nil {
				ch <- Outcome{Panic: fmt.Sprint(r), Site: topRepoFrame()}
			}
		}()
		f()
		ch <- Outcome{}
	}()
	t := time.NewTimer(SlowLimit)
	defer t.Stop()
	select {
	case o := <-ch:
		return o
	case <-t.C:
		return Outcome{Slow: true}
	}
}

// GuardInline runs f on the calling goroutine with panic recovery only. It is
// used where the input is known to be cheap (no parser involved).
func GuardInline(f func()) (o Outcome) {
	defer func() {
		if r := recover(); r != nil {
			o = Outcome{Panic: fmt.Sprint(r), Site: topRepoFrame()}
		}
	}()
	f()
	return
}

// MsgClass reduces a panic or error message to a short stable token: its
// first three words, stripped of everything but letters, digits and ".:_-".
func MsgClass(msg string) string {
	words := strings.Fields(msg)
	if len(words) > 3 {
		words = words[:3]
	}
	for i, w := range words {
		var b strings.Builder
		for _, r := range w {
			if r >= 'a' && r <= 'z' || r >= 'A' && r <= 'Z' || r >= '0' && r <= '9' || strings.ContainsRune(".:_-", r) {
				b.WriteRune(r)
			}
		}
		words[i] = b.String()
	}
	return strings.Join(words, "_")
}

// Each runs work(worker, case) for every case produced by gen on `workers`
// goroutines. gen calls emit for each case; emit returns false once the
// deadline has passed, and gen must then return. Each reports whether the
// enumeration ran to its end. Cases are handed out in batches in generation
// order; all per-worker state belongs to the caller (indexed by worker).
func Each[C any](workers int, deadline time.Time, gen func(emit func(C) bool), work func(worker int, c C)) bool {
	if workers < 1 {
		workers = 1
	}
	const batch = 128
	ch := make(chan []C, workers*2)
	var wg sync.WaitGroup
	for w := 0; w < workers; w++ {
		wg.Add(1)
		go func(w int) {
			defer wg.Done()
			for b := range ch {
				for _, c := range b {
					work(w, c)
				}
			}
		}(w)
	}
	complete := true
	cur := make([]C, 0, batch)
	n := 0
	emit := func(c C) bool {
		if !complete {
			return false
		}
		cur = append(cur, c)
		n++
		if len(cur) == batch {
			ch <- cur
			cur = make([]C, 0, batch)
			if time.Now().After(deadline) {
				complete = false
				return false
			}
		}
		return true
	}
	gen(emit)
	if len(cur) > 0 {
		ch <- cur
	}
	close(ch)
	wg.Wait()
	return complete
}
