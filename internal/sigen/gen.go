package sigen

// Gen describes a bounded universe Sig(d, w) of signatures.
//
// A node at distance 0 from the root is the root. Leaves at distance <= 1
// range over Outer; leaves at distance 2 over Inner; leaves at distance >= 3
// over Deepest (Inner if Deepest is empty). Tuples and structs have width
// MinWidth..Width. Every struct at distance k from the root is called
// StructNames[k%len] and its members FieldNames[0..width-1].
type Gen struct {
	Width       int
	MinWidth    int
	Outer       string
	Inner       string
	Deepest     string
	StructNames []string
	FieldNames  []string
	// RootPairShallow >= 0 keeps, for products of two or more components at
	// the root, only those in which at most one component is deeper than
	// RootPairShallow. -1 = no restriction.
	RootPairShallow int
}

// Default returns the generator used by C09 and C18.
func Default(width int) Gen {
	return Gen{
		Width:           width,
		Outer:           AllAtoms,
		Inner:           "isbmC",
		StructNames:     []string{"A", "Bb", "C_1", "D"},
		FieldNames:      []string{"a", "b", "c", "d"},
		RootPairShallow: -1,
	}
}

func (g Gen) atoms(dist int) string {
	switch {
	case dist <= 1:
		return g.Outer
	case dist == 2 || g.Deepest == "":
		return g.Inner
	}
	return g.Deepest
}

func (g Gen) sname(dist int) string { return g.StructNames[dist%len(g.StructNames)] }

// Level materialises every type of depth <= rem rooted at distance dist.
func (g Gen) Level(rem, dist int) []*T {
	var out []*T
	for _, c := range []byte(g.atoms(dist)) {
		out = append(out, A(c))
	}
	if rem <= 0 {
		return out
	}
	kids := g.Level(rem-1, dist+1)
	g.composites(kids, dist, -1, func(t *T) { out = append(out, t) })
	return out
}

// composites calls f for every list, map, tuple and struct over kids.
func (g Gen) composites(kids []*T, dist int, shallow int, f func(*T)) {
	for _, k := range kids {
		f(L(k))
	}
	ok := func(m []*T) bool {
		if shallow < 0 {
			return true
		}
		deep := 0
		for _, x := range m {
			if x.Depth() > shallow {
				deep++
			}
		}
		return deep <= 1
	}
	for _, k := range kids {
		for _, v := range kids {
			if ok([]*T{k, v}) {
				f(M(k, v))
			}
		}
	}
	// tuples and structs of width 0..Width
	var rec func(m []*T)
	rec = func(m []*T) {
		if ok(m) && len(m) >= g.MinWidth {
			mm := append([]*T(nil), m...)
			f(Tu(mm...))
			f(St(g.sname(dist), g.FieldNames[:len(mm)], mm...))
		}
		if len(m) == g.Width {
			return
		}
		for _, k := range kids {
			rec(append(m, k))
		}
	}
	rec(nil)
}

// Each enumerates Sig(d, Width): all root atoms, then every composite whose
// components have depth <= d-1. The callback may be invoked a very large
// number of times; nothing is materialised at the root level.
func (g Gen) Each(d int, f func(*T)) {
	for _, c := range []byte(g.atoms(0)) {
		f(A(c))
	}
	if d <= 0 {
		return
	}
	kids := g.Level(d-1, 1)
	g.composites(kids, 0, g.RootPairShallow, f)
}

// Count returns the number of types Each would produce.
func (g Gen) Count(d int) int {
	n := 0
	g.Each(d, func(*T) { n++ })
	return n
}

// RenameStructs gives every struct of t a name that is a function of its
// content: structurally equal structs share a name, different ones never do
// (names[k] for the k-th distinct struct in post-order, then Sk). The tree is
// copied.
func RenameStructs(t *T, names []string, seen map[string]string) *T {
	c := t.Clone()
	var walk func(x *T)
	walk = func(x *T) {
		for _, e := range x.Elem {
			walk(e)
		}
		if x.Kind == Struct {
			// the key uses the already renamed members
			key := Tu(x.Elem...).Sig() + "<" + joinFields(x.Fields) + ">"
			n, ok := seen[key]
			if !ok {
				k := len(seen)
				if k < len(names) {
					n = names[k]
				} else {
					n = "S" + itoa(k)
				}
				seen[key] = n
			}
			x.Name = n
		}
	}
	walk(c)
	return c
}

func joinFields(f []string) string {
	s := ""
	for _, x := range f {
		s += "," + x
	}
	return s
}

func itoa(n int) string {
	if n == 0 {
		return "0"
	}
	s := ""
	for n > 0 {
		s = string(rune('0'+n%10)) + s
		n /= 10
	}
	return s
}
