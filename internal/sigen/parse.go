package sigen

import "strings"

// Recognize is sigen's own recursive-descent recogniser of the signature
// grammar (no white space tolerated). It returns the tree and true iff the
// whole string is exactly one type.
//
//	type   = atom | "[" type "]" | "{" type type "}" | "(" type* ")" [ "<" sname { "," ident } ">" ]
//	ident  = letter { letter | digit | "_" }
//	sname  = ident [ "<" ident ">" ]
//
// A struct needs as many member names as member types.
func Recognize(s string) (*T, bool) {
	p := &rparser{s: s}
	t := p.typ(0)
	if t == nil || p.i != len(s) {
		return nil, false
	}
	return t, true
}

// Diagnose says why s is not a signature of the grammar: the offset of the
// first byte the recogniser cannot use (len(s) when the input ends too early)
// and the position class it was at:
//
//	type                        a type had to start here
//	list-close, map-close       "]" / "}" had to follow
//	struct-name:first           first character of a struct name
//	struct-name:later           after the characters of a struct name ("<", "," or ">" had to follow)
//	template-parameter:first    first character of the parameter of a template-style name
//	template-parameter:later    after the characters of that parameter (">" had to follow)
//	struct-name:after-template  after the ">" of a template-style name ("," or ">" had to follow)
//	member-name:first           first character of a member name
//	member-name:later           after the characters of a member name ("," or ">" had to follow)
//	arity                       the closing ">" of a struct whose names and types differ in number
//	depth                       nesting deeper than the recogniser follows
//	trailing                    one complete type, and then something more
//
// where is "" (and pos -1) when s is a signature.
func Diagnose(s string) (pos int, where string) {
	p := &rparser{s: s}
	t := p.typ(0)
	switch {
	case t == nil:
		return p.errPos, p.errWhere
	case p.i != len(s):
		return p.i, "trailing"
	}
	return -1, ""
}

// ByteClass is the character class of the byte at offset i of s, as far as
// names are concerned: letter, digit, underscore, between-Z-and-a (the other
// five characters of the ASCII range A-z: [ \ ] ^ and the back quote),
// punctuation (any other printable ASCII character), blank (space, \t \n \v
// \f \r), control (the other bytes below 0x20, 0x7f), non-ascii (0x80 and
// above), end-of-input.
func ByteClass(s string, i int) string {
	if i < 0 || i >= len(s) {
		return "end-of-input"
	}
	switch c := s[i]; {
	case isLetter(c):
		return "letter"
	case c >= '0' && c <= '9':
		return "digit"
	case c == '_':
		return "underscore"
	case c > 'Z' && c < 'a':
		return "between-Z-and-a"
	case c >= 0x80:
		return "non-ascii"
	case c == ' ' || c >= '\t' && c <= '\r':
		return "blank"
	case c < 0x20 || c == 0x7f:
		return "control"
	}
	return "punctuation"
}

type rparser struct {
	s string
	i int
	// first failure (the recogniser never backtracks): offset and position class
	errPos   int
	errWhere string
}

// fail records the first failure and returns nil.
func (p *rparser) fail(where string) *T {
	if p.errWhere == "" {
		p.errPos, p.errWhere = p.i, where
	}
	return nil
}

func (p *rparser) peek() byte {
	if p.i < len(p.s) {
		return p.s[p.i]
	}
	return 0
}

func isLetter(c byte) bool { return c >= 'a' && c <= 'z' || c >= 'A' && c <= 'Z' }
func isWord(c byte) bool   { return isLetter(c) || c >= '0' && c <= '9' || c == '_' }

func (p *rparser) ident() string {
	if !isLetter(p.peek()) {
		return ""
	}
	j := p.i
	for p.i < len(p.s) && isWord(p.s[p.i]) {
		p.i++
	}
	return p.s[j:p.i]
}

func (p *rparser) typ(depth int) *T {
	if depth > 64 {
		return p.fail("depth")
	}
	c := p.peek()
	switch {
	case c != 0 && strings.IndexByte(AllAtoms, c) >= 0:
		p.i++
		return A(c)
	case c == '[':
		p.i++
		e := p.typ(depth + 1)
		if e == nil {
			return nil
		}
		if p.peek() != ']' {
			return p.fail("list-close")
		}
		p.i++
		return L(e)
	case c == '{':
		p.i++
		k := p.typ(depth + 1)
		if k == nil {
			return nil
		}
		v := p.typ(depth + 1)
		if v == nil {
			return nil
		}
		if p.peek() != '}' {
			return p.fail("map-close")
		}
		p.i++
		return M(k, v)
	case c == '(':
		p.i++
		var m []*T
		for p.peek() != ')' {
			e := p.typ(depth + 1)
			if e == nil {
				return nil
			}
			m = append(m, e)
		}
		p.i++
		if p.peek() != '<' {
			return Tu(m...)
		}
		p.i++
		name := p.ident()
		if name == "" {
			return p.fail("struct-name:first")
		}
		after := "struct-name:later"
		if p.peek() == '<' {
			p.i++
			arg := p.ident()
			if arg == "" {
				return p.fail("template-parameter:first")
			}
			if p.peek() != '>' {
				return p.fail("template-parameter:later")
			}
			p.i++
			name += "<" + arg + ">"
			after = "struct-name:after-template"
		}
		var fields []string
		for p.peek() == ',' {
			p.i++
			f := p.ident()
			if f == "" {
				return p.fail("member-name:first")
			}
			fields = append(fields, f)
			after = "member-name:later"
		}
		if p.peek() != '>' {
			return p.fail(after)
		}
		if len(fields) != len(m) {
			return p.fail("arity")
		}
		p.i++
		return St(name, fields, m...)
	}
	return p.fail("type")
}
