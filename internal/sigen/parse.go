package sigen

import "strings"

// Recognize is sigen's own recursive-descent recogniser of the signature
// grammar (no white space tolerated). It returns the tree and true iff the
// whole string is exactly one type.
//
//	type   = atom | "[" type "]" | "{" type type "}" | "(" type* ")" [ "<" sname { "," ident } ">" ]
//	ident  = letter { letter | digit | "_" }
//	sname  = ident [ "<" ident ">" ]
//
// A struct needs as many member names as member types.
func Recognize(s string) (*T, bool) {
	p := &rparser{s: s}
	t := p.typ(0)
	if t == nil || p.i != len(s) {
		return nil, false
	}
	return t, true
}

type rparser struct {
	s string
	i int
}

func (p *rparser) peek() byte {
	if p.i < len(p.s) {
		return p.s[p.i]
	}
	return 0
}

func isLetter(c byte) bool { return c >= 'a' && c <= 'z' || c >= 'A' && c <= 'Z' }
func isWord(c byte) bool   { return isLetter(c) || c >= '0' && c <= '9' || c == '_' }

func (p *rparser) ident() string {
	if !isLetter(p.peek()) {
		return ""
	}
	j := p.i
	for p.i < len(p.s) && isWord(p.s[p.i]) {
		p.i++
	}
	return p.s[j:p.i]
}

func (p *rparser) typ(depth int) *T {
	if depth > 64 {
		return nil
	}
	c := p.peek()
	switch {
	case c != 0 && strings.IndexByte(AllAtoms, c) >= 0:
		p.i++
		return A(c)
	case c == '[':
		p.i++
		e := p.typ(depth + 1)
		if e == nil || p.peek() != ']' {
			return nil
		}
		p.i++
		return L(e)
	case c == '{':
		p.i++
		k := p.typ(depth + 1)
		if k == nil {
			return nil
		}
		v := p.typ(depth + 1)
		if v == nil || p.peek() != '}' {
			return nil
		}
		p.i++
		return M(k, v)
	case c == '(':
		p.i++
		var m []*T
		for p.peek() != ')' {
			e := p.typ(depth + 1)
			if e == nil {
				return nil
			}
			m = append(m, e)
		}
		p.i++
		if p.peek() != '<' {
			return Tu(m...)
		}
		p.i++
		name := p.ident()
		if name == "" {
			return nil
		}
		if p.peek() == '<' {
			save := p.i
			p.i++
			arg := p.ident()
			if arg == "" || p.peek() != '>' {
				p.i = save
				return nil
			}
			p.i++
			name += "<" + arg + ">"
		}
		var fields []string
		for p.peek() == ',' {
			p.i++
			f := p.ident()
			if f == "" {
				return nil
			}
			fields = append(fields, f)
		}
		if p.peek() != '>' || len(fields) != len(m) {
			return nil
		}
		p.i++
		return St(name, fields, m...)
	}
	return nil
}
