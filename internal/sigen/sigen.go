// Package sigen is an independent mini-AST of the QiMessaging signature
// grammar (doc/about-qimessaging.md, "Signatures" and "Signature Grammar",
// plus the tuple / 8- and 16-bit / void / unknown forms named by properties
// C09 and C18). It has its own printers for the signature string and for the
// IDL type name, its own recogniser, bounded-exhaustive generators and a
// deterministic shrinker. Nothing here imports the repository: the
// repository's parser and printers are the code under test, never the oracle.
package sigen

import (
	"sort"
	"strings"
)

// Kind of a node.
type Kind int

// Node kinds.
const (
	Atom Kind = iota
	List
	Map
	Tuple
	Struct
)

func (k Kind) String() string {
	switch k {
	case Atom:
		return "atom"
	case List:
		return "list"
	case Map:
		return "map"
	case Tuple:
		return "tuple"
	case Struct:
		return "struct"
	}
	return "?"
}

// T is a type of the signature grammar.
type T struct {
	Kind   Kind
	Atom   byte     // Atom: the signature letter
	Elem   []*T     // List: 1 element; Map: key, value; Tuple/Struct: members
	Name   string   // Struct: type name (may be template style: List<double>)
	Fields []string // Struct: member names, len(Fields) == len(Elem)
}

// AllAtoms are the one-letter types accepted at the outermost positions.
// 'r' (raw data) is documented but is not listed by the property statement
// and is handled separately as an observation.
const AllAtoms = "cCwWiIlLfdbsmoXv"

// A is an atom.
func A(c byte) *T { return &T{Kind: Atom, Atom: c} }

// L is a list.
func L(e *T) *T { return &T{Kind: List, Elem: []*T{e}} }

// M is a map.
func M(k, v *T) *T { return &T{Kind: Map, Elem: []*T{k, v}} }

// Tu is a tuple.
func Tu(m ...*T) *T { return &T{Kind: Tuple, Elem: m} }

// St is a named struct.
func St(name string, fields []string, m ...*T) *T {
	if len(fields) != len(m) {
		panic("sigen.St: fields and members differ in length")
	}
	return &T{Kind: Struct, Name: name, Fields: fields, Elem: m}
}

// Sig prints the signature string.
func (t *T) Sig() string {
	var b strings.Builder
	t.sig(&b)
	return b.String()
}

func (t *T) sig(b *strings.Builder) {
	switch t.Kind {
	case Atom:
		b.WriteByte(t.Atom)
	case List:
		b.WriteByte('[')
		t.Elem[0].sig(b)
		b.WriteByte(']')
	case Map:
		b.WriteByte('{')
		t.Elem[0].sig(b)
		t.Elem[1].sig(b)
		b.WriteByte('}')
	case Tuple:
		b.WriteByte('(')
		for _, e := range t.Elem {
			e.sig(b)
		}
		b.WriteByte(')')
	case Struct:
		b.WriteByte('(')
		for _, e := range t.Elem {
			e.sig(b)
		}
		b.WriteString(")<")
		b.WriteString(t.Name)
		for _, f := range t.Fields {
			b.WriteByte(',')
			b.WriteString(f)
		}
		b.WriteByte('>')
	}
}

// atomIDL is the IDL spelling of the one-letter types.
var atomIDL = map[byte]string{
	'c': "int8", 'C': "uint8", 'w': "int16", 'W': "uint16",
	'i': "int32", 'I': "uint32", 'l': "int64", 'L': "uint64",
	'f': "float32", 'd': "float64", 'b': "bool", 's': "str",
	'm': "any", 'o': "obj", 'X': "unknown", 'v': "nothing",
}

// IDL prints the IDL type name: basic names, Vec<T>, Map<K,V>,
// Tuple<A,B>, and the bare name for a struct.
func (t *T) IDL() string {
	switch t.Kind {
	case Atom:
		return atomIDL[t.Atom]
	case List:
		return "Vec<" + t.Elem[0].IDL() + ">"
	case Map:
		return "Map<" + t.Elem[0].IDL() + "," + t.Elem[1].IDL() + ">"
	case Tuple:
		parts := make([]string, len(t.Elem))
		for i, e := range t.Elem {
			parts[i] = e.IDL()
		}
		return "Tuple<" + strings.Join(parts, ",") + ">"
	case Struct:
		return t.Name
	}
	return ""
}

// Depth is the nesting depth (atoms: 0).
func (t *T) Depth() int {
	d := 0
	for _, e := range t.Elem {
		if x := e.Depth() + 1; x > d {
			d = x
		}
	}
	if t.Kind != Atom && d == 0 {
		d = 1
	}
	return d
}

// Size is the number of nodes.
func (t *T) Size() int {
	n := 1
	for _, e := range t.Elem {
		n += e.Size()
	}
	return n
}

// Clone makes a deep copy.
func (t *T) Clone() *T {
	c := *t
	c.Elem = make([]*T, len(t.Elem))
	for i, e := range t.Elem {
		c.Elem[i] = e.Clone()
	}
	c.Fields = append([]string(nil), t.Fields...)
	return &c
}

// AtomClass abstracts a letter: all fixed-width integers look alike, the two
// floats look alike.
func AtomClass(c byte) string {
	switch c {
	case 'c', 'C', 'w', 'W', 'i', 'I', 'l', 'L':
		return "int"
	case 'f', 'd':
		return "flt"
	case 'b':
		return "bool"
	case 's':
		return "str"
	case 'm':
		return "any"
	case 'o':
		return "obj"
	case 'X':
		return "unk"
	case 'v':
		return "void"
	}
	return "?"
}

// NameClass abstracts an identifier of a struct or a field.
func NameClass(n string) string {
	if i := strings.IndexByte(n, '<'); i >= 0 {
		return "template"
	}
	cls := "plain"
	if n != "" && n[0] >= 'a' && n[0] <= 'z' {
		cls = "lower"
	}
	if strings.ContainsAny(n, "_0123456789") {
		cls += "+_9"
	}
	return cls
}

// Shape is the structural abstraction used to count distinct cases: the
// constructor tree with atoms reduced to their class and names to their class.
func (t *T) Shape() string {
	var b strings.Builder
	t.shape(&b, NameClass)
	return b.String()
}

// ShapeWith is Shape with a caller-supplied abstraction of names.
func (t *T) ShapeWith(nameClass func(string) string) string {
	var b strings.Builder
	t.shape(&b, nameClass)
	return b.String()
}

func (t *T) shape(b *strings.Builder, nc func(string) string) {
	switch t.Kind {
	case Atom:
		b.WriteString(AtomClass(t.Atom))
	case List:
		b.WriteByte('[')
		t.Elem[0].shape(b, nc)
		b.WriteByte(']')
	case Map:
		b.WriteByte('{')
		t.Elem[0].shape(b, nc)
		b.WriteByte(' ')
		t.Elem[1].shape(b, nc)
		b.WriteByte('}')
	case Tuple, Struct:
		b.WriteByte('(')
		for i, e := range t.Elem {
			if i > 0 {
				b.WriteByte(' ')
			}
			e.shape(b, nc)
		}
		b.WriteByte(')')
		if t.Kind == Struct {
			b.WriteByte('<')
			b.WriteString(nc(t.Name))
			for _, f := range t.Fields {
				b.WriteByte(',')
				b.WriteString(nc(f))
			}
			b.WriteByte('>')
		}
	}
}

// upperFirst is what a Go exported field name derived from n starts with.
func upperFirst(n string) string {
	if n == "" {
		return n
	}
	c := n[0]
	if c >= 'a' && c <= 'z' {
		c -= 'a' - 'A'
	}
	return string(c) + n[1:]
}

// FieldsCollide reports whether some struct in t has two members whose names
// differ at most by the case of their first letter (so that their exported Go
// names are equal) - or are equal outright.
func (t *T) FieldsCollide() bool {
	if t.Kind == Struct {
		seen := map[string]bool{}
		for _, f := range t.Fields {
			u := upperFirst(f)
			if seen[u] {
				return true
			}
			seen[u] = true
		}
	}
	for _, e := range t.Elem {
		if e.FieldsCollide() {
			return true
		}
	}
	return false
}

// HasIdenticalMembers reports whether some struct of t names two members
// identically (a struct that cannot exist in any language binding).
func (t *T) HasIdenticalMembers() bool {
	return t.Contains(func(x *T) bool {
		if x.Kind != Struct {
			return false
		}
		seen := map[string]bool{}
		for _, f := range x.Fields {
			if seen[f] {
				return true
			}
			seen[f] = true
		}
		return false
	})
}

// Comparable predicts whether a Go representation of t can be a map key:
// lists, maps and object references (whose meta-object holds maps) cannot.
func (t *T) Comparable() bool {
	switch t.Kind {
	case Atom:
		return t.Atom != 'o'
	case List, Map:
		return false
	}
	for _, e := range t.Elem {
		if !e.Comparable() {
			return false
		}
	}
	return true
}

// HasUnkeyableMap reports whether some map in t has a key without a
// comparable Go representation.
func (t *T) HasUnkeyableMap() bool {
	if t.Kind == Map && !t.Elem[0].Comparable() {
		return true
	}
	for _, e := range t.Elem {
		if e.HasUnkeyableMap() {
			return true
		}
	}
	return false
}

// Contains reports whether some node satisfies p.
func (t *T) Contains(p func(*T) bool) bool {
	if p(t) {
		return true
	}
	for _, e := range t.Elem {
		if e.Contains(p) {
			return true
		}
	}
	return false
}

// Structs lists the struct nodes of t in post-order (members first).
func (t *T) Structs() []*T {
	var out []*T
	var walk func(*T)
	walk = func(x *T) {
		for _, e := range x.Elem {
			walk(e)
		}
		if x.Kind == Struct {
			out = append(out, x)
		}
	}
	walk(t)
	return out
}

// Kinds summarises which constructs a (minimised) tree is made of: a bare
// atom is "atom=<letter>"; otherwise the sorted set of its constructors, of
// the classes of struct / member names that are not plain, and of the classes
// of the atoms other than i (i is what the shrinker leaves where the atom
// does not matter).
func (t *T) Kinds() string {
	if t.Kind == Atom {
		return "atom=" + string(t.Atom)
	}
	set := map[string]bool{}
	t.Contains(func(x *T) bool {
		switch x.Kind {
		case Atom:
			if x.Atom != 'i' {
				set["atom="+AtomClass(x.Atom)] = true
			}
		case Struct:
			set["struct"] = true
			if c := NameClass(x.Name); c != "plain" {
				set["struct-name="+c] = true
			}
			for _, f := range x.Fields {
				if c := NameClass(f); c != "plain" && c != "lower" {
					set["member-name="+c] = true
				}
			}
			if len(x.Elem) == 0 {
				set["empty"] = true
			}
		case Tuple:
			set["tuple"] = true
			if len(x.Elem) == 0 {
				set["empty"] = true
			}
		default:
			set[x.Kind.String()] = true
		}
		return false
	})
	var l []string
	for k := range set {
		l = append(l, k)
	}
	sort.Strings(l)
	return strings.Join(l, "+")
}

// Less orders types by (size, signature): the shrinker and the choice of the
// minimal witness are deterministic.
func Less(a, b *T) bool {
	if sa, sb := a.Size(), b.Size(); sa != sb {
		return sa < sb
	}
	as, bs := a.Sig(), b.Sig()
	if len(as) != len(bs) {
		return len(as) < len(bs)
	}
	return canon.Replace(as) < canon.Replace(bs)
}

// canon makes i the smallest and s the second smallest letter, so that the
// shrinker converges on i (then s) wherever the atom does not matter.
var canon = strings.NewReplacer("i", "\x01", "s", "\x02")

// Shrinks proposes strictly smaller or simpler variants of t: each child in
// place of its parent, each subtree replaced by the atom i, each struct
// turned into a tuple, names replaced by the plainest ones, integer-like
// atoms replaced by i. Sorted by Less, duplicates removed.
func (t *T) Shrinks() []*T {
	seen := map[string]bool{t.Sig(): true}
	var out []*T
	add := func(x *T) {
		s := x.Sig()
		if !seen[s] {
			seen[s] = true
			out = append(out, x)
		}
	}
	// root-level replacements
	for _, e := range t.Elem {
		add(e.Clone())
	}
	if t.Kind != Atom {
		add(A('i'))
	}
	if t.Kind == Atom && t.Atom != 'i' {
		add(A('i'))
		if t.Atom != 's' {
			add(A('s'))
		}
	}
	if t.Kind == Struct {
		add(Tu(t.Clone().Elem...))
		if t.Name != "A" {
			c := t.Clone()
			c.Name = "A"
			add(c)
		}
		for i, f := range t.Fields {
			plain := string(rune('a' + i))
			if f != plain {
				c := t.Clone()
				c.Fields[i] = plain
				add(c)
			}
		}
	}
	if t.Kind == Tuple || t.Kind == Struct {
		for i := range t.Elem {
			c := t.Clone()
			c.Elem = append(c.Elem[:i], c.Elem[i+1:]...)
			if t.Kind == Struct {
				c.Fields = append(c.Fields[:i], c.Fields[i+1:]...)
			}
			add(c)
		}
	}
	// recursive replacements
	for i, e := range t.Elem {
		for _, s := range e.Shrinks() {
			c := t.Clone()
			c.Elem[i] = s
			add(c)
		}
	}
	sort.SliceStable(out, func(i, j int) bool { return Less(out[i], out[j]) })
	return out
}

// Minimize greedily shrinks t while fails keeps returning true. fails(t) is
// assumed true on entry. At most budget evaluations of fails are made.
func Minimize(t *T, fails func(*T) bool, budget int) *T {
	cur := t
	for budget > 0 {
		progressed := false
		for _, s := range cur.Shrinks() {
			if !Less(s, cur) {
				continue
			}
			budget--
			if fails(s) {
				cur = s
				progressed = true
				break
			}
			if budget <= 0 {
				break
			}
		}
		if !progressed {
			break
		}
	}
	return cur
}
