package enum

import (
	"io"
)

// EOFMode says how the end of the stream is presented to the reader.
type EOFMode int

// EOF modes.
const (
	// EOFWithData: the read that returns the last byte also returns io.EOF.
	EOFWithData EOFMode = iota
	// EOFSeparate: the last byte is returned with a nil error; the next
	// read returns (0, io.EOF).
	EOFSeparate
	// NoEOF: more bytes (a sentinel) follow the data; the consumer must not
	// touch them.
	NoEOF
)

func (m EOFMode) String() string {
	switch m {
	case EOFWithData:
		return "data+EOF"
	case EOFSeparate:
		return "EOF-separate"
	}
	return "more-follows"
}

// EOFModes lists the three modes.
var EOFModes = []EOFMode{EOFWithData, EOFSeparate, NoEOF}

// Sentinel follows the data in mode NoEOF.
var Sentinel = []byte{0xfa, 0xfb, 0xfc, 0xfd, 0xfe, 0xf9, 0xf8, 0xf7}

// FragReader delivers a byte stream through Read with forced short reads: a
// read never crosses a cut position. (0, nil) reads are never produced.
type FragReader struct {
	data   []byte // the stream, sentinel included in mode NoEOF
	n      int    // length of the payload part (without sentinel)
	cuts   []int
	mode   EOFMode
	chunk  int // if > 0 no read returns more than chunk bytes
	pos    int
	ci     int
	Calls  int
	Shorts int // reads that returned fewer bytes than asked (and > 0)
}

// NewFragReader builds a reader over data; cuts are ascending interior
// positions (0 < c < len(data)).
func NewFragReader(data []byte, cuts []int, mode EOFMode, chunk int) *FragReader {
	r := &FragReader{}
	r.Reset(data, cuts, mode, chunk)
	return r
}

// Reset re-arms the reader (allocation free except for the sentinel copy).
func (r *FragReader) Reset(data []byte, cuts []int, mode EOFMode, chunk int) {
	r.n = len(data)
	if mode == NoEOF {
		r.data = append(append(r.data[:0], data...), Sentinel...)
	} else {
		r.data = append(r.data[:0], data...)
	}
	r.cuts, r.mode, r.chunk = cuts, mode, chunk
	r.pos, r.ci, r.Calls, r.Shorts = 0, 0, 0, 0
}

// Pos is the number of bytes handed out so far.
func (r *FragReader) Pos() int { return r.pos }

func (r *FragReader) Read(p []byte) (int, error) {
	r.Calls++
	if len(p) == 0 {
		return 0, nil
	}
	if r.pos >= len(r.data) {
		return 0, io.EOF
	}
	limit := len(r.data)
	for r.ci < len(r.cuts) && r.cuts[r.ci] <= r.pos {
		r.ci++
	}
	if r.ci < len(r.cuts) && r.cuts[r.ci] < limit {
		limit = r.cuts[r.ci]
	}
	if r.chunk > 0 && r.pos+r.chunk < limit {
		limit = r.pos + r.chunk
	}
	n := copy(p, r.data[r.pos:limit])
	r.pos += n
	if n < len(p) {
		r.Shorts++
	}
	if r.pos == len(r.data) && r.mode == EOFWithData {
		return n, io.EOF
	}
	return n, nil
}

// CutSets calls fn with every ascending set of at most k cut positions among
// the interior positions 1..n-1 (the empty set first). The slice passed to
// fn is reused. fn returns false to stop the enumeration; CutSets reports
// whether it ran to completion.
func CutSets(n, k int, fn func(cuts []int) bool) bool {
	buf := make([]int, 0, k)
	var rec func(start int) bool
	rec = func(start int) bool {
		if !fn(buf) {
			return false
		}
		if len(buf) == k {
			return true
		}
		for c := start; c < n; c++ {
			buf = append(buf, c)
			if !rec(c + 1) {
				return false
			}
			buf = buf[:len(buf)-1]
		}
		return true
	}
	return rec(1)
}

// CountCutSets is the number of sets CutSets(n,k) enumerates.
func CountCutSets(n, k int) int {
	m := n - 1
	if m < 0 {
		m = 0
	}
	total, c := 0, 1
	for j := 0; j <= k && j <= m; j++ {
		total += c
		c = c * (m - j) / (j + 1)
	}
	return total
}

// FragWriter accepts bytes with forced short writes: a write never crosses a
// cut position; a short write returns (n, nil) with 0 < n < len(p), which
// the retry loop of a WriteN-style writer must absorb.
type FragWriter struct {
	Buf    []byte
	cuts   []int
	ci     int
	Calls  int
	Shorts int
}

// Reset re-arms the writer.
func (w *FragWriter) Reset(cuts []int) {
	w.Buf = w.Buf[:0]
	w.cuts, w.ci, w.Calls, w.Shorts = cuts, 0, 0, 0
}

func (w *FragWriter) Write(p []byte) (int, error) {
	w.Calls++
	pos := len(w.Buf)
	for w.ci < len(w.cuts) && w.cuts[w.ci] <= pos {
		w.ci++
	}
	n := len(p)
	if w.ci < len(w.cuts) && w.cuts[w.ci]-pos < n {
		n = w.cuts[w.ci] - pos
		w.Shorts++
	}
	w.Buf = append(w.Buf, p[:n]...)
	return n, nil
}
