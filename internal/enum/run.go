package enum

import (
	"fmt"
	"os"
	"sort"
	"sync"
	"sync/atomic"
	"time"

	"verif/internal/report"
)

// Run is the shared bookkeeping of an engine-A check: a thread-safe wrapper
// around the report protocol, evaluation counters, the measured set of
// distinct non-trivial cases, samples and the internal deadline.
type Run struct {
	Chk      *report.Checker
	mu       sync.Mutex
	evals    int64
	distinct map[string]int
	samples  []interface{}
	perFam   map[string]*int64
	deadline time.Time
	timedOut int32
	notes    []string
	cands    map[string]*candidate
	gs       guardSet
	finished int32
	Workers  int
}

// NewRun starts a check; budget is the wall-clock budget of the enumeration.
func NewRun(property string, quick, thorough time.Duration) *Run {
	b := quick
	if report.Tier() == "thorough" {
		b = thorough
	}
	w := 16
	if v := os.Getenv("VERIF_WORKERS"); v != "" {
		fmt.Sscan(v, &w)
	}
	if w < 1 {
		w = 1
	}
	return &Run{
		Chk:      report.New(property, "exploration"),
		distinct: map[string]int{},
		perFam:   map[string]*int64{},
		deadline: time.Now().Add(b),
		Workers:  w,
	}
}

// Thorough reports the tier.
func (r *Run) Thorough() bool { return report.Tier() == "thorough" }

// Expired reports whether the internal deadline has passed (sticky).
func (r *Run) Expired() bool {
	if atomic.LoadInt32(&r.timedOut) != 0 {
		return true
	}
	if time.Now().After(r.deadline) {
		atomic.StoreInt32(&r.timedOut, 1)
		return true
	}
	return false
}

// TimedOut reports whether Expired ever returned true.
func (r *Run) TimedOut() bool { return atomic.LoadInt32(&r.timedOut) != 0 }

// Note records a sentence for the evidence (what was completed, caps hit).
func (r *Run) Note(format string, args ...interface{}) {
	r.mu.Lock()
	r.notes = append(r.notes, fmt.Sprintf(format, args...))
	r.mu.Unlock()
}

// Family returns the counter of a family of cases (created on first use;
// call it before starting workers).
func (r *Run) Family(name string) *int64 {
	r.mu.Lock()
	defer r.mu.Unlock()
	if p, ok := r.perFam[name]; ok {
		return p
	}
	p := new(int64)
	r.perFam[name] = p
	return p
}

// Eval counts n executed cases of a family.
func (r *Run) Eval(fam *int64, n int) {
	atomic.AddInt64(&r.evals, int64(n))
	if fam != nil {
		atomic.AddInt64(fam, int64(n))
	}
}

// Distinct records the class of an executed non-trivial case.
func (r *Run) Distinct(class string) {
	r.mu.Lock()
	r.distinct[class]++
	r.mu.Unlock()
}

// DistinctSet merges a locally accumulated set of classes.
func (r *Run) DistinctSet(m map[string]int) {
	r.mu.Lock()
	for k, v := range m {
		r.distinct[k] += v
	}
	r.mu.Unlock()
}

// Sample keeps at most max samples in total.
func (r *Run) Sample(max int, s interface{}) {
	r.mu.Lock()
	if len(r.samples) < max {
		r.samples = append(r.samples, s)
	}
	r.mu.Unlock()
}

type candidate struct {
	rank   string
	what   string
	replay interface{}
	again  func() bool
	count  int
}

// Fail counts one failing case for fingerprint fp and reports whether this
// case should be kept as the representative: the representative of a
// fingerprint is the failing case with the smallest rank (a sortable string,
// typically zero-padded size then detail), which makes the replay minimal and
// independent of worker scheduling. Call Keep when Fail returns true.
func (r *Run) Fail(fp, rank string) bool {
	r.mu.Lock()
	defer r.mu.Unlock()
	if r.cands == nil {
		r.cands = map[string]*candidate{}
	}
	c, ok := r.cands[fp]
	if !ok {
		r.cands[fp] = &candidate{rank: "\xff", count: 1}
		return true
	}
	c.count++
	return rank < c.rank
}

// Keep stores the representative of a fingerprint (see Fail). again must
// re-execute the case from scratch and say whether it still fails.
func (r *Run) Keep(fp, rank, what string, replay interface{}, again func() bool) {
	r.mu.Lock()
	defer r.mu.Unlock()
	c := r.cands[fp]
	if c == nil || rank >= c.rank {
		return
	}
	c.rank, c.what, c.replay, c.again = rank, what, replay, again
}

// Violation is Fail+Keep for call sites where building the description is
// cheap.
func (r *Run) Violation(fp, rank, what string, replay interface{}, again func() bool) {
	fp = report.FPEscape(fp)
	if r.Fail(fp, rank) {
		r.Keep(fp, rank, what, replay, again)
	}
}

// NFailing returns the number of distinct fingerprints seen so far.
func (r *Run) NFailing() int {
	r.mu.Lock()
	defer r.mu.Unlock()
	return len(r.cands)
}

// flush re-runs every representative 5 times and hands the confirmed
// violations to the report; a case that the enumeration saw failing but that
// does not fail 5 times out of 5 when re-run alone depends on what the code
// under test was given before: it is reported as an order-dependent violation
// (report.Checker.Unstable), not as an engine error.
func (r *Run) flush() {
	r.mu.Lock()
	cands := map[string]*candidate{}
	for fp, c := range r.cands {
		cc := *c
		cands[fp] = &cc
	}
	r.mu.Unlock()
	fps := make([]string, 0, len(cands))
	for fp := range cands {
		fps = append(fps, fp)
	}
	sort.Strings(fps)
	for _, fp := range fps {
		c := cands[fp]
		if c.again == nil && c.what == "" {
			r.Chk.EngineError("fingerprint %s has no representative", fp)
			continue
		}
		ok := true
		if c.again != nil {
			for i := 0; i < 5; i++ {
				if !c.again() {
					r.Chk.Unstable(fp, fmt.Sprintf("%s [re-run %d of 5 of the case alone did not fail]", c.what, i+1), c.replay)
					ok = false
					break
				}
			}
		}
		if !ok {
			continue
		}
		n := c.count
		if n > 1000000 {
			n = 1000000
		}
		for i := 0; i < n; i++ {
			r.Chk.Report(fp, c.what, c.replay)
		}
	}
}

// Unstable records a failure the oracle really observed that does not show
// again when the case is re-run alone (see report.Checker.Unstable): a
// violation, not an engine error.
func (r *Run) Unstable(fp, what string, replay interface{}) {
	r.mu.Lock()
	r.Chk.Unstable(fp, what, replay)
	r.mu.Unlock()
}

// EngineError records a failure of the machinery.
func (r *Run) EngineError(format string, args ...interface{}) {
	r.mu.Lock()
	r.Chk.EngineError(format, args...)
	r.mu.Unlock()
}

// Parallel runs fn(i) for i in [0,n) on the worker pool; items are handed
// out in order; the deadline is checked between items. It returns the number
// of items completed and whether all were.
func (r *Run) Parallel(n int, fn func(i int)) (done int, all bool) {
	var next, completed int64
	var wg sync.WaitGroup
	w := r.Workers
	if w > n {
		w = n
	}
	for k := 0; k < w; k++ {
		wg.Add(1)
		go func() {
			defer wg.Done()
			for {
				if r.Expired() {
					return
				}
				i := int(atomic.AddInt64(&next, 1)) - 1
				if i >= n {
					return
				}
				fn(i)
				atomic.AddInt64(&completed, 1)
			}
		}()
	}
	wg.Wait()
	return int(completed), int(completed) == n
}

// Finish assembles the coverage map and ends the check. distinctRule states
// how cases are enumerated and what makes one distinct / non-trivial.
func (r *Run) Finish(rule string, exhaustive bool, extra map[string]interface{}, assumptions []string) int {
	if !atomic.CompareAndSwapInt32(&r.finished, 0, 1) {
		// the watchdog is already finishing the check
		select {}
	}
	r.flush()
	r.mu.Lock()
	defer r.mu.Unlock()
	cov := map[string]interface{}{}
	for k, v := range extra {
		cov[k] = v
	}
	fam := map[string]int64{}
	for k, p := range r.perFam {
		fam[k] = atomic.LoadInt64(p)
	}
	cov["evaluations"] = atomic.LoadInt64(&r.evals)
	cov["evaluations_per_family"] = fam
	cov["distinct_nontrivial"] = len(r.distinct)
	if len(r.distinct) <= 64 {
		cov["distinct_classes"] = r.distinct
	} else {
		keys := make([]string, 0, len(r.distinct))
		for k := range r.distinct {
			keys = append(keys, k)
		}
		sort.Strings(keys)
		cov["distinct_classes_first"] = keys[:64]
	}
	cov["rule"] = rule
	cov["samples"] = r.samples
	cov["exhaustive"] = exhaustive && !r.TimedOut()
	cov["deadline_hit"] = r.TimedOut()
	cov["workers"] = r.Workers
	if len(r.notes) > 0 {
		cov["notes"] = r.notes
	}
	return r.Chk.Finish(cov, assumptions)
}
