package enum

import (
	"fmt"
	"sort"
	"strings"
	"unicode/utf8"
)

// String CONTENT classes: what the bytes of a string are, as opposed to how
// many there are (length sweep) or where the string sits (positions).
//
// The documented serialization of a string is its length in bytes followed
// by those bytes, copied verbatim: nothing in the format requires the bytes
// to be text, and qiloop carries binary identifiers (ObjectUid) in strings.
// Val(T) only holds well-formed UTF-8 ("", "a", "ab", "he...", a 255-byte
// ASCII string), so a codec that looks INSIDE a string - validates it,
// replaces ill-formed sequences, normalizes, trims, stops at a NUL, escapes -
// is not reached. The universe below is the boundary set of a string
// position with respect to its content:
//
//	bytes-1     every byte 0x00..0xff as a one-byte string (256)
//	units       the empty string, and a fixed list of byte sequences
//	            (StrContentUnits): the first and
//	            the last scalar value of every UTF-8 length (U+0080, U+07FF,
//	            U+0800, U+FFFF, U+10000, U+10FFFF), the neighbours of the
//	            surrogate gap (U+D7FF, U+E000), U+FFFD itself, the byte order
//	            mark, characters that text processing treats specially
//	            (combining accent, NBSP, NEL, line separator, dotted capital I,
//	            sharp s); NUL and ASCII control / quoting characters; and every
//	            way a sequence can be ill-formed (Unicode table 3-7): a lone
//	            continuation byte, a lead byte alone, 2-, 3- and 4-byte
//	            sequences cut after 1, 2, 3 bytes, a lead followed by a byte
//	            that is no continuation, overlong forms of every length,
//	            encoded surrogates (alone and as a CESU-8 pair), values above
//	            U+10FFFF, 5- and 6-byte forms, 0xFE, 0xFF, UTF-16 byte order
//	            marks, Latin-1 text
//	embeddings  every string x of bytes-1 and units also as "a"+x, x+"z" and
//	            "a"+x+"z": the special bytes at the start, at the end and in
//	            the middle of the string
//	runs        n times 0x80, n times 0xFF and n times 0xC3 for n = 2..8 (a
//	            codec that substitutes per run or per byte changes the length
//	            by a different amount)
//	all-bytes   the 256 bytes 0x00..0xff ascending, descending, and the upper
//	            half 0x80..0xff
//	bytes-2     every two-byte string (65536; StrContentPairs) - used at the
//	            position "alone" only
//	edge-3/-4   every string of 3 (4) bytes over the 27 bytes at which the
//	            table of well-formed sequences changes its verdict
//	            (StrContentEdgeBytes; 19683 and 531441 strings) - position
//	            "alone" only
//
// Every string gets an ASCII name (for fingerprints and evidence) and is
// classified by StrClassify.

// StrContent is one enumerated string content.
type StrContent struct {
	S     string
	Name  string // ASCII, unique within StrContents
	Class string // see StrClassify
	Kind  string
	Group string // bytes-1, units, embeddings, runs, all-bytes, bytes-2, edge-3, edge-4
}

// Hex renders the bytes of the content.
func (c StrContent) Hex() string { return fmt.Sprintf("%x", c.S) }

type strUnit struct {
	name string
	s    string
}

// StrContentUnits is the fixed list "units" of the universe (name, bytes).
func StrContentUnits() [][2]string {
	var out [][2]string
	for _, u := range strUnits {
		out = append(out, [2]string{u.name, u.s})
	}
	return out
}

var strUnits = []strUnit{
	// well-formed multi-byte characters: first and last of every length
	{"U+0080-first-2-byte", "\xc2\x80"},
	{"U+00E9-e-acute", "\xc3\xa9"},
	{"U+07FF-last-2-byte", "\xdf\xbf"},
	{"U+0800-first-3-byte", "\xe0\xa0\x80"},
	{"U+20AC-euro", "\xe2\x82\xac"},
	{"U+D7FF-before-surrogates", "\xed\x9f\xbf"},
	{"U+E000-after-surrogates", "\xee\x80\x80"},
	{"U+FFFD-replacement-character", "\xef\xbf\xbd"},
	{"U+FFFF-last-3-byte", "\xef\xbf\xbf"},
	{"U+10000-first-4-byte", "\xf0\x90\x80\x80"},
	{"U+1F600-emoji", "\xf0\x9f\x98\x80"},
	{"U+10FFFF-last-4-byte", "\xf4\x8f\xbf\xbf"},
	{"2+3+4-byte-characters", "\xc3\xa9\xe2\x82\xac\xf0\x9f\x98\x80"},
	// characters text processing treats specially
	{"BOM", "\xef\xbb\xbf"},
	{"BOM-twice", "\xef\xbb\xbf\xef\xbb\xbf"},
	{"e+combining-acute", "e\xcc\x81"},
	{"U+00A0-nbsp", "\xc2\xa0"},
	{"U+0085-nel", "\xc2\x85"},
	{"U+2028-line-separator", "\xe2\x80\xa8"},
	{"U+3000-ideographic-space", "\xe3\x80\x80"},
	{"U+0130-dotted-capital-I", "\xc4\xb0"},
	{"U+00DF-sharp-s", "\xc3\x9f"},
	{"U+FB01-ligature-fi", "\xef\xac\x81"},
	// NUL and ASCII control / quoting
	{"NUL-twice", "\x00\x00"},
	{"NUL-between-letters", "b\x00c"},
	{"CR-LF", "\r\n"},
	{"LF-LF", "\n\n"},
	{"space-twice", "  "},
	{"backslash-n", "\\n"},
	{"backslash-x00", "\\x00"},
	{"backslash-u0000", "\\u0000"},
	{"percent-s", "%s"},
	{"percent-00", "%00"},
	{"ampersand-entity", "&#0;"},
	// ill-formed: lone continuation bytes
	{"continuation-twice", "\x80\xbf"},
	// ill-formed: truncated sequences (the string ends inside a character)
	{"3-byte-cut-after-2", "\xe2\x82"},
	{"4-byte-cut-after-2", "\xf0\x9f"},
	{"4-byte-cut-after-3", "\xf0\x9f\x98"},
	{"e-acute-then-2-byte-lead", "\xc3\xa9\xc3"},
	// ill-formed: a lead followed by a byte that is no continuation
	{"2-byte-lead-then-ascii", "\xc3A"},
	{"3-byte-lead-then-ascii", "\xe2A"},
	{"3-byte-interrupted-after-2", "\xe2\x82A"},
	{"4-byte-interrupted-after-3", "\xf0\x9f\x98A"},
	{"2-byte-lead-twice", "\xc3\xc3"},
	{"2-byte-lead-then-e-acute", "\xc3\xc3\xa9"},
	// ill-formed: overlong forms
	{"overlong-2-NUL", "\xc0\x80"},
	{"overlong-2-slash", "\xc0\xaf"},
	{"overlong-2-last", "\xc1\xbf"},
	{"overlong-3-NUL", "\xe0\x80\x80"},
	{"overlong-3-last", "\xe0\x9f\xbf"},
	{"overlong-4-NUL", "\xf0\x80\x80\x80"},
	{"overlong-4-last", "\xf0\x8f\xbf\xbf"},
	// ill-formed: surrogates
	{"surrogate-first-U+D800", "\xed\xa0\x80"},
	{"surrogate-last-U+DFFF", "\xed\xbf\xbf"},
	{"surrogate-pair-CESU-8", "\xed\xa0\xbd\xed\xb8\x80"},
	// ill-formed: above U+10FFFF, 5- and 6-byte forms, bytes that never occur
	{"U+110000", "\xf4\x90\x80\x80"},
	{"lead-F5", "\xf5\x80\x80\x80"},
	{"lead-F7-last-4-byte-form", "\xf7\xbf\xbf\xbf"},
	{"5-byte-form", "\xf8\x88\x80\x80\x80"},
	{"6-byte-form", "\xfc\x84\x80\x80\x80\x80"},
	{"FE-FF-utf16-bom", "\xfe\xff"},
	{"FF-FE-utf16-bom", "\xff\xfe"},
	{"FF-FE-00-00-utf32-bom", "\xff\xfe\x00\x00"},
	{"utf16le-text", "h\x00i\x00"},
	// ill-formed: Latin-1 text
	{"latin1-cafe", "caf\xe9"},
	{"latin1-uber", "\xfcber"},
	{"latin1-naive", "na\xefve"},
	{"binary-uid-20-bytes", "\x9f\x01\xe2\x00\xff\x10\x80\x7f\xc3\x28\xa0\xa1\xe2\x28\xa1\xf0\x28\x8c\xbc\xfe"},
}

// StrClassify says what the content of a string is. Classes, in order of
// precedence (the first that applies), and their kinds:
//
//	ill-formed-utf8   the string is not well-formed UTF-8 (Unicode table 3-7);
//	                  kind = what makes its FIRST ill-formed sequence
//	                  ill-formed: lone-continuation, truncated (the string ends
//	                  inside a sequence that is well-formed so far),
//	                  interrupted (a lead, or lead + continuations, followed by
//	                  a byte that cannot continue it), overlong (C0, C1, E0
//	                  80..9F, F0 80..8F), surrogate (ED A0..BF),
//	                  above-U+10FFFF (F4 90..BF, F5..F7), invalid-byte
//	                  (F8..FF)
//	bom               well-formed, starts with EF BB BF; kind bom
//	valid-multibyte   well-formed with a character of 2 to 4 bytes; kind =
//	                  2-byte, 3-byte, 4-byte (the longest character)
//	nul               ASCII with a 0x00; kind nul
//	ascii-control     ASCII with a byte below 0x20 or 0x7f; kind whitespace
//	                  (only 09..0d besides printable bytes) or other
//	ascii-printable   bytes 0x20..0x7e only; kind alnum, space (holds 0x20)
//	                  or punct
//	empty             the empty string; kind empty
func StrClassify(s string) (class, kind string) {
	if k := strFirstIllFormed(s); k != "" {
		return "ill-formed-utf8", k
	}
	if s == "" {
		return "empty", "empty"
	}
	if strings.HasPrefix(s, "\xef\xbb\xbf") {
		return "bom", "bom"
	}
	longest, nul, ctl, ws, space, punct := 1, false, false, true, false, false
	for i := 0; i < len(s); i++ {
		b := s[i]
		switch {
		case b >= 0xf0:
			longest = 4
		case b >= 0xe0 && longest < 3:
			longest = 3
		case b >= 0xc0 && longest < 2:
			longest = 2
		case b == 0:
			nul = true
		case b < 0x20 || b == 0x7f:
			ctl = true
			if b < 0x09 || b > 0x0d {
				ws = false
			}
		case b == 0x20:
			space = true
		case b < 0x80 && !(b >= '0' && b <= '9') && !(b >= 'A' && b <= 'Z') && !(b >= 'a' && b <= 'z'):
			punct = true
		}
	}
	switch {
	case longest > 1:
		return "valid-multibyte", fmt.Sprintf("%d-byte", longest)
	case nul:
		return "nul", "nul"
	case ctl && ws:
		return "ascii-control", "whitespace"
	case ctl:
		return "ascii-control", "other"
	case space:
		return "ascii-printable", "space"
	case punct:
		return "ascii-printable", "punct"
	}
	return "ascii-printable", "alnum"
}

// strFirstIllFormed walks s by the table of well-formed UTF-8 byte sequences
// (Unicode 15, table 3-7) and returns the kind of the first ill-formed
// sequence, "" if there is none. It does not use unicode/utf8.
func strFirstIllFormed(s string) string {
	cont := func(b byte) bool { return b >= 0x80 && b <= 0xbf }
	for i := 0; i < len(s); {
		b := s[i]
		var need int
		lo, hi := byte(0x80), byte(0xbf) // admissible range of the second byte
		bad := ""                        // why a second byte outside [lo,hi] but a continuation is refused
		switch {
		case b < 0x80:
			i++
			continue
		case b <= 0xbf:
			return "lone-continuation"
		case b <= 0xc1:
			return "overlong"
		case b <= 0xdf:
			need = 1
		case b == 0xe0:
			need, lo, bad = 2, 0xa0, "overlong"
		case b == 0xed:
			need, hi, bad = 2, 0x9f, "surrogate"
		case b <= 0xef:
			need = 2
		case b == 0xf0:
			need, lo, bad = 3, 0x90, "overlong"
		case b == 0xf4:
			need, hi, bad = 3, 0x8f, "above-U+10FFFF"
		case b <= 0xf3:
			need = 3
		case b <= 0xf7:
			return "above-U+10FFFF"
		default:
			return "invalid-byte"
		}
		for k := 1; k <= need; k++ {
			if i+k >= len(s) {
				return "truncated"
			}
			c := s[i+k]
			if !cont(c) {
				return "interrupted"
			}
			if k == 1 && (c < lo || c > hi) {
				return bad
			}
		}
		i += need + 1
	}
	return ""
}

// StrContentKinds lists every (class, kind) StrClassify can return, in a
// fixed order.
func StrContentKinds() map[string][]string {
	return map[string][]string{
		"ill-formed-utf8": {"lone-continuation", "truncated", "interrupted", "overlong", "surrogate", "above-U+10FFFF", "invalid-byte"},
		"bom":             {"bom"},
		"valid-multibyte": {"2-byte", "3-byte", "4-byte"},
		"nul":             {"nul"},
		"ascii-control":   {"whitespace", "other"},
		"ascii-printable": {"alnum", "space", "punct"},
		"empty":           {"empty"},
	}
}

// StrContentClasses is the order of the classes.
var StrContentClasses = []string{"empty", "ascii-printable", "ascii-control", "nul", "valid-multibyte", "bom", "ill-formed-utf8"}

func strMake(group, name, s string) StrContent {
	c, k := StrClassify(s)
	return StrContent{S: s, Name: name, Class: c, Kind: k, Group: group}
}

// StrContents returns the universe without bytes-2, duplicates (by bytes)
// removed, in a fixed order: bytes-1, units, embeddings, runs, all-bytes.
func StrContents() []StrContent {
	var out []StrContent
	seen := map[string]bool{}
	add := func(group, name, s string) {
		if seen[s] {
			return
		}
		seen[s] = true
		out = append(out, strMake(group, name, s))
	}
	add("units", "empty", "")
	var base []strUnit
	for b := 0; b < 256; b++ {
		u := strUnit{fmt.Sprintf("byte-%02x", b), string([]byte{byte(b)})}
		base = append(base, u)
		add("bytes-1", u.name, u.s)
	}
	for _, u := range strUnits {
		base = append(base, u)
		add("units", u.name, u.s)
	}
	for _, u := range base {
		add("embeddings", "a+"+u.name, "a"+u.s)
		add("embeddings", u.name+"+z", u.s+"z")
		add("embeddings", "a+"+u.name+"+z", "a"+u.s+"z")
	}
	for _, r := range []struct {
		name string
		b    byte
	}{{"80", 0x80}, {"ff", 0xff}, {"c3", 0xc3}} {
		for n := 2; n <= 8; n++ {
			add("runs", fmt.Sprintf("%dx%s", n, r.name), strings.Repeat(string([]byte{r.b}), n))
		}
	}
	asc, desc := make([]byte, 256), make([]byte, 256)
	for i := range asc {
		asc[i], desc[i] = byte(i), byte(255-i)
	}
	add("all-bytes", "00..ff-ascending", string(asc))
	add("all-bytes", "ff..00-descending", string(desc))
	add("all-bytes", "80..ff-upper-half", string(asc[128:]))
	return out
}

// StrContentPairs returns bytes-2: every two-byte string, in order.
func StrContentPairs() []StrContent {
	out := make([]StrContent, 0, 65536)
	for a := 0; a < 256; a++ {
		for b := 0; b < 256; b++ {
			out = append(out, strMake("bytes-2", fmt.Sprintf("bytes-%02x%02x", a, b), string([]byte{byte(a), byte(b)})))
		}
	}
	return out
}

// StrContentEdgeBytes is the alphabet of the groups edge-3 and edge-4: the
// bytes at which the table of well-formed UTF-8 sequences (Unicode table
// 3-7) changes its verdict - first and last byte of every range of lead and
// of second bytes - plus NUL, a letter and DEL.
var StrContentEdgeBytes = []byte{0x00, 0x41, 0x7f, 0x80, 0x8f, 0x90, 0x9f, 0xa0, 0xbf, 0xc0, 0xc1, 0xc2, 0xdf, 0xe0, 0xe1, 0xec, 0xed, 0xee, 0xef, 0xf0, 0xf1, 0xf3, 0xf4, 0xf5, 0xf7, 0xf8, 0xff}

// StrContentEdge returns the group edge-<n>: every string of n bytes over
// StrContentEdgeBytes (27^n strings: every well-formed and every ill-formed
// combination of range boundaries in a character of up to n bytes, and the
// sequences of shorter ones).
func StrContentEdge(n int) []StrContent {
	group := fmt.Sprintf("edge-%d", n)
	total := 1
	for i := 0; i < n; i++ {
		total *= len(StrContentEdgeBytes)
	}
	out := make([]StrContent, 0, total)
	buf := make([]byte, n)
	for k := 0; k < total; k++ {
		v := k
		for i := n - 1; i >= 0; i-- {
			buf[i] = StrContentEdgeBytes[v%len(StrContentEdgeBytes)]
			v /= len(StrContentEdgeBytes)
		}
		out = append(out, strMake(group, fmt.Sprintf("edge-%x", buf), string(buf)))
	}
	return out
}

// StrContentCheck is the self-check of the universe: names are unique and
// ASCII without white space, the classifier agrees with unicode/utf8 on
// which strings are well-formed (on the universe and on every two-byte and
// every enumerated three-byte prefix), and every (class, kind) of
// StrContentKinds occurs. It returns "" or what is wrong.
func StrContentCheck() string {
	names := map[string]bool{}
	have := map[string]bool{}
	all := StrContents()
	for _, c := range all {
		if names[c.Name] {
			return "duplicate name " + c.Name
		}
		names[c.Name] = true
		for i := 0; i < len(c.Name); i++ {
			if c.Name[i] <= 0x20 || c.Name[i] >= 0x7f || c.Name[i] == '/' {
				return fmt.Sprintf("name %q is not a fingerprint token", c.Name)
			}
		}
		if (c.Class == "ill-formed-utf8") == utf8.ValidString(c.S) {
			return fmt.Sprintf("%s (%x) is classified %s but utf8.ValidString says %v", c.Name, c.S, c.Class, utf8.ValidString(c.S))
		}
		have[c.Class+"/"+c.Kind] = true
	}
	for _, c := range StrContentPairs() {
		if (c.Class == "ill-formed-utf8") == utf8.ValidString(c.S) {
			return fmt.Sprintf("%s is classified %s but utf8.ValidString says %v", c.Name, c.Class, utf8.ValidString(c.S))
		}
	}
	// three- and four-byte strings over the bytes at which table 3-7 changes
	edge := StrContentEdgeBytes
	buf := make([]byte, 4)
	for _, a := range edge {
		for _, b := range edge {
			for _, c := range edge {
				for _, d := range edge {
					buf[0], buf[1], buf[2], buf[3] = a, b, c, d
					for n := 3; n <= 4; n++ {
						s := string(buf[:n])
						if cl, _ := StrClassify(s); (cl == "ill-formed-utf8") == utf8.ValidString(s) {
							return fmt.Sprintf("%x is classified %s but utf8.ValidString says %v", s, cl, utf8.ValidString(s))
						}
					}
				}
			}
		}
	}
	var missing []string
	for class, kinds := range StrContentKinds() {
		for _, k := range kinds {
			if !have[class+"/"+k] {
				missing = append(missing, class+"/"+k)
			}
		}
	}
	for ck := range have {
		cl, k := ck[:strings.Index(ck, "/")], ck[strings.Index(ck, "/")+1:]
		ok := false
		for _, x := range StrContentKinds()[cl] {
			ok = ok || x == k
		}
		if !ok {
			missing = append(missing, "unlisted:"+ck)
		}
	}
	if len(missing) > 0 {
		sort.Strings(missing)
		return "kinds without a string in the universe: " + strings.Join(missing, ", ")
	}
	return ""
}

// Non-ASCII content for the length sweep: a leaf string of n bytes whose
// bytes depend on their position (see SweepContentRule for h).
//
//	SweepHighString  byte i = 0x80 | h(i)>>24 & 0x7f: every byte is outside
//	                 ASCII, the string is ill-formed UTF-8 almost everywhere
//	                 (Latin-1 text, binary data)
//	SweepUTF8String  well-formed characters of 1, 2, 3 and 4 bytes chosen by
//	                 h(position of the character) - U+0021.., U+00A1..,
//	                 U+0800.., U+10000.. -, the whole cut at n bytes: the cut
//	                 falls inside a character for most n (a multi-byte
//	                 character cut in the middle), the string is well-formed
//	                 for the others
const SweepNonASCIIRule = "high: byte i = 0x80 | (h(i)>>24 & 0x7f); utf8-cut: characters of 1+h%4 bytes (U+0021+h>>8%94, U+00A1+h>>8%1800, U+0800+h>>8%0xD000 skipping nothing in the surrogate range since 0x0800+0xCFFF < 0xD800, U+10000+h>>8%0x100000) with h = h(byte offset of the character), the string cut at n bytes"

// SweepHighString is the content "high" of length n.
func SweepHighString(n int, salt uint32) string {
	b := make([]byte, n)
	for i := range b {
		b[i] = 0x80 | byte(sweepHash(uint32(i), salt)>>24)&0x7f
	}
	return string(b)
}

// SweepUTF8String is the content "utf8-cut" of length n.
func SweepUTF8String(n int, salt uint32) string {
	b := make([]byte, 0, n+4)
	for len(b) < n {
		h := sweepHash(uint32(len(b)), salt)
		v := h >> 8
		var r rune
		switch h % 4 {
		case 0:
			r = rune(0x21 + v%94)
		case 1:
			r = rune(0xa1 + v%1800)
		case 2:
			r = rune(0x0800 + v%0xd000)
		default:
			r = rune(0x10000 + v%0x100000)
		}
		b = utf8.AppendRune(b, r)
	}
	return string(b[:n])
}
