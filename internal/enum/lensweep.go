package enum

import (
	"fmt"
	"sort"
)

// Length sweep: the lengths a variable-length leaf (string, raw buffer,
// signature string of a dynamic value, element count of a list) is given in
// the length-sweep families of C02 and C03.
//
// Val(T) stops at 255-byte strings and 3-byte raw buffers, so a code path a
// codec takes only from (or up to) a certain length on - an on-stack buffer
// for short strings, a chunked copy through a fixed scratch buffer, a
// pre-allocation limit, a 16-bit counter - is not reached by Sig x Val. Such
// thresholds are small, or sit at a power of two; the sweep therefore has
//
//	dense   every length 0..SweepDenseMax (any small buffer, off by any
//	        header size)
//	pow     around every power of two 2^k, k = 9..K: 2^k-1, 2^k, 2^k+1, and
//	        between two powers 2^k + 2^(k-1) (k < K): a length that is not a
//	        multiple of 2^k and leaves a partial last chunk; plus 70000
//	        (not a multiple of any power of two above 16)
//
// K = 16 (64 KiB + 1) in the quick tier, 20 (1 MiB + 1) in the thorough one.

// SweepDenseMax is the largest length of the dense part.
const SweepDenseMax = 300

// SweepPow returns the power-of-two neighbourhoods (ascending).
func SweepPow(thorough bool) []int {
	top := 16
	if thorough {
		top = 20
	}
	set := map[int]bool{70000: true}
	for k := 9; k <= top; k++ {
		p := 1 << uint(k)
		set[p-1], set[p], set[p+1] = true, true, true
		if k < top {
			set[p+p/2] = true
		}
	}
	var out []int
	for n := range set {
		out = append(out, n)
	}
	sort.Ints(out)
	return out
}

// SweepLengths returns the lengths min <= n <= max of the sweep in ascending
// order: the dense part up to denseMax and the power-of-two neighbourhoods
// (max < 0: no upper limit).
func SweepLengths(thorough bool, denseMax, min, max int) []int {
	var out []int
	for n := min; n <= denseMax && (max < 0 || n <= max); n++ {
		out = append(out, n)
	}
	for _, n := range SweepPow(thorough) {
		if n > denseMax && n >= min && (max < 0 || n <= max) {
			out = append(out, n)
		}
	}
	return out
}

// SweepContentRule states how the content of a swept leaf is derived from
// the position of each byte (for the evidence and the replay files).
const SweepContentRule = "h(i) = x ^ x>>13 with x = y*0x85EBCA77, y = z ^ z>>15, z = (i+1+salt)*0x9E3779B1 (32-bit arithmetic); " +
	"raw byte i = h(i)>>24; string byte i = 0x21 + (h(i)>>8) % 94 (printable ASCII); " +
	"identifier byte 0 = 'a' + (h(0)>>8) % 26, byte i = \"A..Za..z0..9_\"[(h(i)>>8) % 63]: " +
	"the content depends on the position and has no period, a chunk that is dropped, repeated, stale or moved changes the value"

func sweepHash(i, salt uint32) uint32 {
	x := (i + 1 + salt) * 0x9E3779B1
	x ^= x >> 15
	x *= 0x85EBCA77
	x ^= x >> 13
	return x
}

// SweepBytes is the raw content of length n.
func SweepBytes(n int, salt uint32) []byte {
	b := make([]byte, n)
	for i := range b {
		b[i] = byte(sweepHash(uint32(i), salt) >> 24)
	}
	return b
}

// SweepString is the printable content of length n.
func SweepString(n int, salt uint32) string {
	b := make([]byte, n)
	for i := range b {
		b[i] = byte(0x21 + (sweepHash(uint32(i), salt)>>8)%94)
	}
	return string(b)
}

const identAlphabet = "ABCDEFGHIJKLMNOPQRSTUVWXYZabcdefghijklmnopqrstuvwxyz0123456789_"

// SweepIdent is an identifier ([a-z][A-Za-z0-9_]*) of length n >= 1.
func SweepIdent(n int, salt uint32) string {
	b := make([]byte, n)
	for i := range b {
		h := sweepHash(uint32(i), salt) >> 8
		if i == 0 {
			b[i] = byte('a' + h%26)
		} else {
			b[i] = identAlphabet[h%63]
		}
	}
	return string(b)
}

// SweepContentCheck verifies on this run that the content is not periodic:
// for every shift d that a buffer size could produce (every power of two up
// to half the length, and 94, 124, 128-4, 4096-4...) fewer than 1 position
// in 8 holds the same byte as the position d further. It returns "" or what
// is wrong.
func SweepContentCheck(n int) string {
	kinds := map[string][]byte{"raw": SweepBytes(n, 0), "string": []byte(SweepString(n, 0)), "identifier": []byte(SweepIdent(n, 0))}
	var shifts []int
	for d := 1; d <= n/2; d *= 2 {
		shifts = append(shifts, d)
		if d > 8 {
			shifts = append(shifts, d-4, d+4)
		}
	}
	shifts = append(shifts, 26, 63, 94, 100, 1000, 10000)
	for name, c := range kinds {
		for _, d := range shifts {
			if d >= n/2 {
				continue
			}
			same := 0
			for i := 0; i+d < n; i++ {
				if c[i] == c[i+d] {
					same++
				}
			}
			if same*8 > n-d {
				return fmt.Sprintf("%s content of %d bytes: %d of %d positions hold the same byte as the position %d further", name, n, same, n-d, d)
			}
		}
	}
	return ""
}

// SweepThreshold locates the smallest failing length once the enumeration
// has found that length failing fails while every enumerated length below it
// passes. lengths is the ascending enumerated set. If failing-1 was
// enumerated (dense part, or 2^k and 2^k+1) the threshold is failing itself;
// otherwise it is searched by bisection between the largest enumerated
// length below (passes) and failing (fails). The result m satisfies: m
// fails, and m-1 passes or is below min.
func SweepThreshold(lengths []int, failing, min int, fails func(n int) bool) int {
	lo := min - 1
	for _, n := range lengths {
		if n < failing && n > lo {
			lo = n
		}
	}
	hi := failing
	for hi-lo > 1 {
		mid := lo + (hi-lo)/2
		if fails(mid) {
			hi = mid
		} else {
			lo = mid
		}
	}
	return hi
}
