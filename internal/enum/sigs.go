// Package enum holds the deterministic generators of engine A: the closed
// small universes Sig(d,w), Val(T), Frag(n,k), Cut(e). Nothing here is
// random.
package enum

import (
	"verif/internal/refmodel"
)

// SigOpts bounds the signature universe Sig(Depth, Width).
//
// Universe: let X(0) = Inner atoms, Comp(k) the composite types whose
// children come from X(k-1) = Inner ∪ Comp(k-1):
//
//	[x], {q x} (q in InnerKeys), tuples (x1..xn) with 0<=n<=Width,
//	structs (x1..xn)<S,a,b,..> with 1<=n<=Width,
//
// where in a tuple/struct AT MOST ONE member is composite (the others are
// atoms; every position is tried). The universe is
//
//	Outer atoms ∪ the same constructors applied to Outer ∪ Comp(Depth-1)
//	             with map keys from OuterKeys.
//
// So the outermost level ranges over all atoms, deeper levels over the
// reduced atom set.
type SigOpts struct {
	Depth, Width         int
	Outer, Inner         string // atom letters
	OuterKeys, InnerKeys string
	Structs              bool
}

func atoms(letters string) []*refmodel.Type {
	var out []*refmodel.Type
	for i := 0; i < len(letters); i++ {
		out = append(out, refmodel.Atom(letters[i]))
	}
	return out
}

var fieldNames = []string{"a", "b", "c", "d"}

func compose(children, keys []*refmodel.Type, width int, structs bool) []*refmodel.Type {
	var out []*refmodel.Type
	for _, c := range children {
		out = append(out, refmodel.ListOf(c))
	}
	for _, k := range keys {
		for _, c := range children {
			out = append(out, refmodel.MapOf(k, c))
		}
	}
	var ats []*refmodel.Type
	for _, c := range children {
		if c.IsAtom() {
			ats = append(ats, c)
		}
	}
	// sequences of length n with at most one composite member
	var seqs [][]*refmodel.Type
	var rec func(prefix []*refmodel.Type, n int, usedComp bool)
	rec = func(prefix []*refmodel.Type, n int, usedComp bool) {
		if len(prefix) == n {
			seqs = append(seqs, append([]*refmodel.Type(nil), prefix...))
			return
		}
		for _, c := range children {
			if !c.IsAtom() && usedComp {
				continue
			}
			rec(append(prefix, c), n, usedComp || !c.IsAtom())
		}
	}
	for n := 0; n <= width; n++ {
		rec(nil, n, false)
	}
	for _, s := range seqs {
		out = append(out, refmodel.TupleOf(s...))
	}
	if structs {
		for _, s := range seqs {
			if len(s) == 0 {
				continue
			}
			out = append(out, refmodel.StructOf("S", fieldNames[:len(s)], s...))
		}
	}
	return out
}

// Sigs enumerates the universe described at SigOpts, atoms first, then by
// construction order (deterministic).
func Sigs(o SigOpts) []*refmodel.Type {
	inner := atoms(o.Inner)
	innerKeys := atoms(o.InnerKeys)
	var comp []*refmodel.Type
	for k := 1; k < o.Depth; k++ {
		children := append(append([]*refmodel.Type(nil), inner...), comp...)
		comp = compose(children, innerKeys, o.Width, o.Structs)
	}
	out := atoms(o.Outer)
	if o.Depth >= 1 {
		children := append(atoms(o.Outer), comp...)
		out = append(out, compose(children, atoms(o.OuterKeys), o.Width, o.Structs)...)
	}
	return out
}
