package enum

import (
	"fmt"

	"verif/internal/refmodel"
)

// CutOracle reports whether the decoder under test does NOT refuse the strict
// prefix of length k of the reference encoding of d taken as a top-level
// case (it returns a nil error, or panics - "accepted" below means "not
// refused"; the caller names the outcome of the reduced case).
type CutOracle func(d *refmodel.Datum, k int) bool

func hasPrefix(p, prefix []int) bool {
	if len(p) < len(prefix) {
		return false
	}
	for i := range prefix {
		if p[i] != prefix[i] {
			return false
		}
	}
	return true
}

// startOf returns the offset of the first byte of the sub-datum at path.
func startOf(spans []refmodel.Span, path []int) (int, bool) {
	for _, s := range spans {
		if hasPrefix(s.Path, path) {
			return s.Start, true
		}
	}
	return 0, false
}

func ctxName(k refmodel.Kind) string {
	switch k {
	case refmodel.Tuple, refmodel.Struct:
		return "struct"
	case refmodel.List:
		return "list"
	case refmodel.Map:
		return "map"
	case refmodel.Value:
		return "value"
	case refmodel.Object:
		return "object"
	}
	return k.Letter()
}

// FieldPath names the element at path inside type t: struct fields by name,
// tuple members by index, list elements "[]", map "{key}" / "{value}", the
// carried value of an 'm' "<dyn>".
func FieldPath(d *refmodel.Datum, path []int) string {
	s := ""
	for _, i := range path {
		switch d.T.Kind {
		case refmodel.Struct:
			s += "." + d.T.Fields[i]
		case refmodel.Tuple:
			s += fmt.Sprintf(".%d", i)
		case refmodel.List:
			s += "[]"
		case refmodel.Map:
			if i%2 == 0 {
				s += "{key}"
			} else {
				s += "{value}"
			}
		case refmodel.Value:
			s += "<dyn>"
		case refmodel.Object:
			s += "<ref>"
		}
		d = d.Child([]int{i})
	}
	if s == "" {
		return "."
	}
	return s
}

// BlameCut attributes an accepted truncation (prefix k of Encode(d) was
// accepted) by experiment, so that one defect gets one fingerprint:
//
//  1. the element whose bytes are cut (first missing byte) is located with
//     the span map of the reference encoder: kind and part (fixed, len,
//     body, count, sig-len, sig-body);
//  2. if that element, decoded alone as a top-level case and cut at the same
//     relative offset, is accepted too, the defect is in the element's own
//     decoder: "leaf=<kind>-<part>";
//  3. otherwise the innermost enclosing sub-datum that is accepted alone
//     names the context. The cut element is replaced by a 32-bit integer cut
//     in its middle: if still accepted the context swallows any error:
//     "ctx=<struct|list|map|value>/any-leaf";
//  4. otherwise the element kind matters; it is re-tested alone inside a
//     1-tuple and inside a 1-element list: accepted in both gives
//     "leaf=<kind>-<part>/in-any-composite", else
//     "ctx=<ctx>/leaf=<kind>-<part>".
//
// standalone says whether a sub-datum of that type can be decoded alone by
// the entry point (nil = always). The reduced case is returned for the
// replay.
func BlameCut(d *refmodel.Datum, k int, accepted CutOracle, standalone func(*refmodel.Type) bool) (string, *refmodel.Datum, int) {
	if standalone == nil {
		standalone = func(*refmodel.Type) bool { return true }
	}
	_, spans := refmodel.EncodeSpans(d)
	sp, ok := refmodel.SpanAt(spans, k)
	if !ok {
		return "no-span", d, k
	}
	leafName := "leaf=" + sp.String()
	leaf := d.Child(sp.Path)
	leafStart, _ := startOf(spans, sp.Path)
	// 2. the element alone
	if len(sp.Path) > 0 && standalone(leaf.T) && accepted(leaf, k-leafStart) {
		return leafName, leaf, k - leafStart
	}
	if len(sp.Path) == 0 {
		return leafName, d, k
	}
	// 3. innermost accepted context
	ctx, ctxPath, ctxStart := d, []int(nil), 0
	for j := len(sp.Path) - 1; j > 0; j-- {
		a := d.Child(sp.Path[:j])
		if !standalone(a.T) {
			continue
		}
		st, ok := startOf(spans, sp.Path[:j])
		if !ok {
			continue
		}
		if accepted(a, k-st) {
			ctx, ctxPath, ctxStart = a, sp.Path[:j], st
			break
		}
	}
	rel := append([]int(nil), sp.Path[len(ctxPath):]...)
	cname := "ctx=" + ctxName(ctx.T.Kind)
	intD := Dist(refmodel.Atom('i'))
	kctx := k - ctxStart
	// a list or map context with several entries is reduced to the entry
	// that contains the cut when the truncation is still accepted
	if (ctx.T.Kind == refmodel.List || ctx.T.Kind == refmodel.Map) && len(rel) > 0 {
		step := 1
		if ctx.T.Kind == refmodel.Map {
			step = 2
		}
		if len(ctx.Elems) > step {
			first := rel[0] - rel[0]%step
			_, csp := refmodel.EncodeSpans(ctx)
			if est, ok := startOf(csp, []int{first}); ok && kctx >= est {
				c := *ctx
				c.Elems = append([]*refmodel.Datum(nil), ctx.Elems[first:first+step]...)
				nk := 4 + (kctx - est)
				if accepted(&c, nk) {
					ctx, kctx = &c, nk
					rel[0] = rel[0] % step
					ctxStart = k - kctx
					// the cut element is the same datum, at a new offset
					_, nsp := refmodel.EncodeSpans(ctx)
					if ls, ok := startOf(nsp, rel); ok {
						leafStart = ctxStart + ls
					}
				}
			}
		}
	}
	// a struct context: replace its member on the way to the cut element
	// (whatever it contains) by an integer cut in its middle
	if ctx.T.Kind == refmodel.Tuple || ctx.T.Kind == refmodel.Struct {
		if nd, ok := refmodel.Replace(ctx, rel[:1], intD); ok {
			_, nsp := refmodel.EncodeSpans(nd)
			if st, ok := startOf(nsp, rel[:1]); ok && accepted(nd, st+2) {
				return cname + "/any-leaf", nd, st + 2
			}
		}
	}
	if nd, ok := refmodel.Replace(ctx, rel, intD); ok {
		_, nsp := refmodel.EncodeSpans(nd)
		if st, ok := startOf(nsp, rel); ok {
			if accepted(nd, st+2) {
				return cname + "/any-leaf", nd, st + 2
			}
		}
	}
	// 4. does the context matter?
	relOff := k - leafStart
	if standalone(refmodel.TupleOf(leaf.T)) {
		tup := &refmodel.Datum{T: refmodel.TupleOf(leaf.T), Elems: []*refmodel.Datum{leaf}}
		lst := &refmodel.Datum{T: refmodel.ListOf(leaf.T), Elems: []*refmodel.Datum{leaf}}
		if accepted(tup, relOff) && accepted(lst, 4+relOff) {
			return leafName + "/in-any-composite", tup, relOff
		}
	}
	return cname + "/" + leafName, ctx, k - ctxStart
}
