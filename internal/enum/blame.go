package enum

import (
	"sort"
	"strings"

	"verif/internal/refmodel"
)

// Blame reduces a failing (type, value) case by experiment so that one
// defect gets one fingerprint however many signatures expose it. fails must
// evaluate the same oracle clause on any datum taken as a top-level case.
//
//  1. descend: while a composite child (list element, map key/value, tuple
//     member, the concrete value of an 'm') fails on its own, continue with
//     that child;
//  2. shrink: lists and maps with several entries are reduced to a single
//     failing entry when one exists;
//  3. simplify: every node of the remaining datum (pre-order, root
//     excluded) is replaced by the distinguished 32-bit integer whenever the
//     failure persists after the replacement; an 'm' that cannot be replaced
//     gets its carried value replaced by an integer when the failure
//     persists;
//  4. what could not be replaced is necessary for the failure: if atom kinds
//     other than 'i' remain the detail is "nested/<their letters>" (an 'm'
//     whose carried value matters is written "m:<shape of the carried
//     type>"); otherwise the structure itself is to blame and the detail is
//     "shape/<shape of the simplified datum>". A failing atom taken alone is
//     "top/<letter>".
//
// topOK says whether a datum of that type may be evaluated as a top-level
// case (some entry points only exist for composite signatures).
func Blame(d *refmodel.Datum, fails func(*refmodel.Datum) bool, topOK func(*refmodel.Type) bool) (string, *refmodel.Datum) {
	if topOK == nil {
		topOK = func(*refmodel.Type) bool { return true }
	}
	intT := refmodel.Atom('i')
	for round := 0; round < 8; round++ {
		before := d
		d = blameDescend(d, fails, topOK)
		d = shrink(d, fails)
		if d.T.IsAtom() {
			break
		}
		d = blameSimplify(d, fails, intT)
		if d == before {
			break
		}
	}
	if d.T.IsAtom() {
		if d.T.Kind == refmodel.Value && d.Dyn.T.Kind != refmodel.Int32 {
			if nd := Dist(d.T); fails(nd) {
				return "top/m", nd
			}
			return "top/m:" + d.Dyn.T.Shape(), d
		}
		return "top/" + d.T.Kind.Letter(), d
	}
	// 4. what remains is necessary
	need := map[string]bool{}
	for _, path := range nodes(d, nil) {
		cur := d.Child(path)
		if !cur.T.IsAtom() || cur.T.Kind == refmodel.Int32 {
			continue
		}
		l := cur.T.Kind.Letter()
		if cur.T.Kind == refmodel.Value && cur.Dyn.T.Kind != refmodel.Int32 {
			l = "m:" + cur.Dyn.T.Shape()
		}
		need[l] = true
	}
	if len(need) > 0 {
		var ls []string
		for l := range need {
			ls = append(ls, l)
		}
		sort.Strings(ls)
		return "nested/" + strings.Join(ls, "+"), d
	}
	return "shape/" + datumShape(d), d
}

// datumShape is the shape of the data actually present: the element type of
// an empty list or map carries no byte and is left out.
func datumShape(d *refmodel.Datum) string {
	switch d.T.Kind {
	case refmodel.List:
		if len(d.Elems) == 0 {
			return "[]"
		}
		return "[" + datumShape(d.Elems[0]) + "]"
	case refmodel.Map:
		if len(d.Elems) == 0 {
			return "{}"
		}
		return "{" + datumShape(d.Elems[0]) + datumShape(d.Elems[1]) + "}"
	case refmodel.Tuple, refmodel.Struct:
		s := "("
		for _, c := range d.Elems {
			s += datumShape(c)
		}
		s += ")"
		if d.T.Kind == refmodel.Struct {
			s += "<>"
		}
		return s
	}
	return d.T.Kind.Letter()
}

func blameDescend(d *refmodel.Datum, fails func(*refmodel.Datum) bool, topOK func(*refmodel.Type) bool) *refmodel.Datum {
descend:
	for {
		var kids []*refmodel.Datum
		switch d.T.Kind {
		case refmodel.Value:
			kids = []*refmodel.Datum{d.Dyn}
		case refmodel.Object:
		default:
			kids = d.Elems
		}
		for _, c := range kids {
			if (c.T.IsAtom() && c.T.Kind != refmodel.Value) || !topOK(c.T) {
				continue
			}
			if fails(c) {
				d = c
				continue descend
			}
		}
		break
	}
	return d
}

func blameSimplify(d *refmodel.Datum, fails func(*refmodel.Datum) bool, intT *refmodel.Type) *refmodel.Datum {
	for changed := true; changed; {
		changed = false
		for _, path := range nodes(d, nil) {
			cur := d.Child(path)
			if cur.T.Kind == refmodel.Int32 {
				continue
			}
			if nd, ok := refmodel.Replace(d, path, Dist(intT)); ok && fails(nd) {
				d, changed = nd, true
				break
			}
			if cur.T.Kind == refmodel.Value && cur.Dyn.T.Kind != refmodel.Int32 {
				if nd, ok := refmodel.Replace(d, path, Dist(cur.T)); ok && fails(nd) {
					d, changed = nd, true
					break
				}
			}
		}
	}
	return d
}

// nodes lists the paths of all nodes below the root in pre-order (an 'm' or
// an 'o' is not entered).
func nodes(d *refmodel.Datum, prefix []int) [][]int {
	var out [][]int
	if d.T.IsAtom() {
		return nil
	}
	for i, c := range d.Elems {
		p := append(append([]int(nil), prefix...), i)
		out = append(out, p)
		out = append(out, nodes(c, p)...)
	}
	return out
}

// shrink reduces lists and maps (recursively) to single entries while the
// failure persists.
func shrink(d *refmodel.Datum, fails func(*refmodel.Datum) bool) *refmodel.Datum {
	for pass := 0; pass < 4; pass++ {
		changed := false
		var walk func(cur *refmodel.Datum, path []int)
		walk = func(cur *refmodel.Datum, path []int) {
			if changed {
				return
			}
			step := 1
			if cur.T.Kind == refmodel.Map {
				step = 2
			}
			if (cur.T.Kind == refmodel.List || cur.T.Kind == refmodel.Map) && len(cur.Elems) > step {
				for i := 0; i+step <= len(cur.Elems); i += step {
					c := *cur
					c.Elems = append([]*refmodel.Datum(nil), cur.Elems[i:i+step]...)
					nd := replaceKeepType(d, path, &c)
					if nd != nil && fails(nd) {
						d, changed = nd, true
						return
					}
				}
			}
			if cur.T.Kind == refmodel.Value || cur.T.Kind == refmodel.Object {
				return
			}
			for i, ch := range cur.Elems {
				walk(ch, append(append([]int(nil), path...), i))
			}
		}
		walk(d, nil)
		if !changed {
			break
		}
	}
	return d
}

// replaceKeepType replaces the sub-datum at path by nd, which has the same
// type, so any list length is fine.
func replaceKeepType(d *refmodel.Datum, path []int, nd *refmodel.Datum) *refmodel.Datum {
	if len(path) == 0 {
		return nd
	}
	c := *d
	c.Elems = append([]*refmodel.Datum(nil), d.Elems...)
	sub := replaceKeepType(d.Elems[path[0]], path[1:], nd)
	if sub == nil {
		return nil
	}
	c.Elems[path[0]] = sub
	return &c
}
