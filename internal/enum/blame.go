package enum

import (
	"sort"
	"strings"

	"verif/internal/refmodel"
)

// Blame reduces a failing (type, value) case by experiment so that one
// defect gets one fingerprint however many signatures expose it. fails must
// evaluate the same oracle clause on any datum taken as a top-level case.
//
//  1. descend: while a composite child (list element, map key/value, tuple
//     member, the concrete value of an 'm') fails on its own, continue with
//     that child;
//  2. shrink: lists and maps with several entries are reduced to a single
//     failing entry when one exists;
//  3. substitute: every atom leaf of the remaining datum is replaced in turn
//     by the distinguished 32-bit integer; the atom kinds whose replacement
//     makes the failure disappear are blamed: "nested/<letters>" (or
//     "top/<letter>" when the datum itself is an atom). For a blamed 'm' the
//     carried value is replaced by an integer too: if the failure persists
//     the blame is "m", otherwise "m:<shape of the carried type>";
//  4. if no single replacement helps, the shape of the datum is the detail:
//     "shape/<shape>".
//
// topOK says whether a datum of that type may be evaluated as a top-level
// case (some entry points only exist for composite signatures).
func Blame(d *refmodel.Datum, fails func(*refmodel.Datum) bool, topOK func(*refmodel.Type) bool) (string, *refmodel.Datum) {
	if topOK == nil {
		topOK = func(*refmodel.Type) bool { return true }
	}
	// 1. descend
descend:
	for {
		var kids []*refmodel.Datum
		switch d.T.Kind {
		case refmodel.Value:
			kids = []*refmodel.Datum{d.Dyn}
		case refmodel.Object:
		default:
			kids = d.Elems
		}
		for _, c := range kids {
			if (c.T.IsAtom() && c.T.Kind != refmodel.Value) || !topOK(c.T) {
				continue
			}
			if fails(c) {
				d = c
				continue descend
			}
		}
		break
	}
	// 2. shrink
	d = shrink(d, fails)
	if d.T.IsAtom() {
		return "top/" + atomDetail(d, nil, d, fails), d
	}
	// 3. substitute, kind by kind: all leaves of one atom kind at once
	leaves := atomLeaves(d, nil)
	byKind := map[string][][]int{}
	var kinds []string
	for _, path := range leaves {
		l := d.Child(path).T.Kind.Letter()
		if l == "i" {
			continue
		}
		if _, ok := byKind[l]; !ok {
			kinds = append(kinds, l)
		}
		byKind[l] = append(byKind[l], path)
	}
	sort.Strings(kinds)
	blamed := map[string]bool{}
	for _, l := range kinds {
		nd, ok := d, true
		for _, path := range byKind[l] {
			if nd, ok = refmodel.Replace(nd, path, Dist(refmodel.Atom('i'))); !ok {
				break
			}
		}
		if !ok || fails(nd) {
			continue
		}
		det := l
		if l == "m" {
			// does the carried value matter? give every 'm' an integer
			nd, ok = d, true
			plain := true
			for _, path := range byKind[l] {
				if d.Child(path).Dyn.T.Kind != refmodel.Int32 {
					plain = false
				}
				if nd, ok = refmodel.Replace(nd, path, Dist(refmodel.Atom('m'))); !ok {
					break
				}
			}
			if ok && !plain && !fails(nd) {
				shapes := map[string]bool{}
				for _, path := range byKind[l] {
					shapes[d.Child(path).Dyn.T.Shape()] = true
				}
				var ss []string
				for s := range shapes {
					ss = append(ss, s)
				}
				sort.Strings(ss)
				det = "m:" + strings.Join(ss, ",")
			}
		}
		blamed[det] = true
	}
	if len(blamed) > 0 {
		var ls []string
		for l := range blamed {
			ls = append(ls, l)
		}
		sort.Strings(ls)
		return "nested/" + strings.Join(ls, "+"), d
	}
	return "shape/" + d.T.Shape(), d
}

func atomDetail(root *refmodel.Datum, path []int, leaf *refmodel.Datum, fails func(*refmodel.Datum) bool) string {
	l := leaf.T.Kind.Letter()
	if leaf.T.Kind != refmodel.Value || leaf.Dyn.T.Kind == refmodel.Int32 {
		return l
	}
	nd, ok := refmodel.Replace(root, path, Dist(leaf.T))
	if ok && !fails(nd) {
		return "m:" + leaf.Dyn.T.Shape()
	}
	return l
}

// atomLeaves lists the paths of the atom leaves of d (an 'm' is a leaf; the
// inside of an object is not entered).
func atomLeaves(d *refmodel.Datum, prefix []int) [][]int {
	if d.T.IsAtom() {
		return [][]int{append([]int(nil), prefix...)}
	}
	var out [][]int
	for i, c := range d.Elems {
		out = append(out, atomLeaves(c, append(prefix, i))...)
	}
	return out
}

// shrink reduces lists and maps (recursively) to single entries while the
// failure persists.
func shrink(d *refmodel.Datum, fails func(*refmodel.Datum) bool) *refmodel.Datum {
	for pass := 0; pass < 4; pass++ {
		changed := false
		var walk func(cur *refmodel.Datum, path []int)
		walk = func(cur *refmodel.Datum, path []int) {
			if changed {
				return
			}
			step := 1
			if cur.T.Kind == refmodel.Map {
				step = 2
			}
			if (cur.T.Kind == refmodel.List || cur.T.Kind == refmodel.Map) && len(cur.Elems) > step {
				for i := 0; i+step <= len(cur.Elems); i += step {
					c := *cur
					c.Elems = append([]*refmodel.Datum(nil), cur.Elems[i:i+step]...)
					nd := replaceKeepType(d, path, &c)
					if nd != nil && fails(nd) {
						d, changed = nd, true
						return
					}
				}
			}
			if cur.T.Kind == refmodel.Value || cur.T.Kind == refmodel.Object {
				return
			}
			for i, ch := range cur.Elems {
				walk(ch, append(append([]int(nil), path...), i))
			}
		}
		walk(d, nil)
		if !changed {
			break
		}
	}
	return d
}

// replaceKeepType replaces the sub-datum at path by nd, which has the same
// type, so any list length is fine.
func replaceKeepType(d *refmodel.Datum, path []int, nd *refmodel.Datum) *refmodel.Datum {
	if len(path) == 0 {
		return nd
	}
	c := *d
	c.Elems = append([]*refmodel.Datum(nil), d.Elems...)
	sub := replaceKeepType(d.Elems[path[0]], path[1:], nd)
	if sub == nil {
		return nil
	}
	c.Elems[path[0]] = sub
	return &c
}
