package enum

import (
	"fmt"
	"os"
	"sync"
	"sync/atomic"
	"time"
)

// A Guard protects the enumeration against a case that never returns (a
// decoder driven into a huge loop or allocation by a mis-read length): a
// goroutine cannot be killed, so when a guarded case exceeds the hang limit
// the watchdog re-executes it four more times concurrently (five executions
// in total, each observed for the whole limit), files it as a violation with
// the clause "hang" if none returned, and ends the check at once with what
// was completed (exhaustive:false).
type Guard struct {
	r     *Run
	mu    sync.Mutex
	start time.Time
	fp    string
	what  func() (string, interface{})
	again func()
	seq   int64
}

type guardSet struct {
	mu     sync.Mutex
	guards []*Guard
	limit  time.Duration
	finish func() int
	once   sync.Once
}

// SetAbortFinish registers how to end the check early (normally a closure
// calling Finish with the same rule/extra/assumptions as the regular end).
func (r *Run) SetAbortFinish(limit time.Duration, finish func() int) {
	if r.Thorough() {
		// the thorough tier runs next to other checks on a loaded machine
		limit *= 3
	}
	r.gs.limit, r.gs.finish = limit, finish
}

// NewGuard returns a guard slot for one worker goroutine.
func (r *Run) NewGuard() *Guard {
	g := &Guard{r: r}
	r.gs.mu.Lock()
	r.gs.guards = append(r.gs.guards, g)
	r.gs.mu.Unlock()
	r.gs.once.Do(func() { go r.watchdog() })
	return g
}

// Begin marks the start of a guarded case. fp is the fingerprint to use if
// the case hangs, what describes it (called only on a hang), again
// re-executes it.
func (g *Guard) Begin(fp string, what func() (string, interface{}), again func()) {
	g.mu.Lock()
	g.start, g.fp, g.what, g.again = time.Now(), fp, what, again
	g.seq++
	g.mu.Unlock()
}

// End marks the end of the guarded case.
func (g *Guard) End() {
	g.mu.Lock()
	g.start = time.Time{}
	g.what, g.again = nil, nil
	g.mu.Unlock()
}

func (r *Run) watchdog() {
	limit := r.gs.limit
	if limit == 0 {
		limit = 20 * time.Second
	}
	for {
		time.Sleep(500 * time.Millisecond)
		r.gs.mu.Lock()
		guards := append([]*Guard(nil), r.gs.guards...)
		r.gs.mu.Unlock()
		for _, g := range guards {
			g.mu.Lock()
			stuck := !g.start.IsZero() && time.Since(g.start) > limit
			fp, what, again, seq := g.fp, g.what, g.again, g.seq
			g.mu.Unlock()
			if !stuck {
				continue
			}
			// five executions in total: the original plus four re-runs
			var returned int32
			for i := 0; i < 4; i++ {
				go func() {
					defer func() { recover() }()
					again()
					atomic.AddInt32(&returned, 1)
				}()
			}
			still := true
			for waited := time.Duration(0); waited < 3*limit; waited += time.Second {
				time.Sleep(time.Second)
				g.mu.Lock()
				still = g.seq == seq && !g.start.IsZero()
				g.mu.Unlock()
				if !still {
					break
				}
				if waited >= limit && atomic.LoadInt32(&returned) == 0 {
					break
				}
			}
			if !still {
				// merely slow (a loaded machine): not a hang, keep going
				r.Note("a guarded case (%s) took more than %v but returned; the machine is probably overloaded", fp, limit)
				continue
			}
			w, replay := what()
			atomic.StoreInt32(&r.timedOut, 1)
			if atomic.LoadInt32(&returned) == 0 {
				r.Violation(fp, "0", fmt.Sprintf("%s: did not return within %v (5 executions)", w, limit), replay, nil)
			} else {
				r.EngineError("case %s did not return within %v although %d of 4 re-runs of the same case returned: %s", fp, 4*limit, returned, w)
			}
			r.Note("the enumeration was aborted after a case that did not return (%s); only the cases executed before are covered", fp)
			code := 2
			if r.gs.finish != nil {
				code = r.gs.finish()
			}
			os.Exit(code)
		}
	}
}
