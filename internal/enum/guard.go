package enum

import (
	"fmt"
	"os"
	"sync"
	"sync/atomic"
	"time"
)

// A Guard protects the enumeration against a case that never returns (a
// decoder driven into a huge loop or allocation by a mis-read length): a
// goroutine cannot be killed, so when a guarded case exceeds the hang limit
// the watchdog re-executes it four more times concurrently (five executions
// in total, each observed for the whole limit), files it as a violation with
// the clause "hang" if none returned, and ends the check at once with what
// was completed (exhaustive:false).
type Guard struct {
	r     *Run
	mu    sync.Mutex
	start time.Time
	fp    string
	what  func() (string, interface{})
	again func()
	seq   int64
}

type guardSet struct {
	mu     sync.Mutex
	guards []*Guard
	limit  time.Duration
	finish func() int
	once   sync.Once
}

// SetAbortFinish registers how to end the check early (normally a closure
// calling Finish with the same rule/extra/assumptions as the regular end).
func (r *Run) SetAbortFinish(limit time.Duration, finish func() int) {
	r.gs.limit, r.gs.finish = limit, finish
}

// NewGuard returns a guard slot for one worker goroutine.
func (r *Run) NewGuard() *Guard {
	g := &Guard{r: r}
	r.gs.mu.Lock()
	r.gs.guards = append(r.gs.guards, g)
	r.gs.mu.Unlock()
	r.gs.once.Do(func() { go r.watchdog() })
	return g
}

// Begin marks the start of a guarded case. fp is the fingerprint to use if
// the case hangs, what describes it (called only on a hang), again
// re-executes it.
func (g *Guard) Begin(fp string, what func() (string, interface{}), again func()) {
	g.mu.Lock()
	g.start, g.fp, g.what, g.again = time.Now(), fp, what, again
	g.seq++
	g.mu.Unlock()
}

// End marks the end of the guarded case.
func (g *Guard) End() {
	g.mu.Lock()
	g.start = time.Time{}
	g.what, g.again = nil, nil
	g.mu.Unlock()
}

func (r *Run) watchdog() {
	limit := r.gs.limit
	if limit == 0 {
		limit = 20 * time.Second
	}
	for {
		time.Sleep(500 * time.Millisecond)
		r.gs.mu.Lock()
		guards := append([]*Guard(nil), r.gs.guards...)
		r.gs.mu.Unlock()
		for _, g := range guards {
			g.mu.Lock()
			stuck := !g.start.IsZero() && time.Since(g.start) > limit
			fp, what, again, seq := g.fp, g.what, g.again, g.seq
			g.mu.Unlock()
			if !stuck {
				continue
			}
			// five executions in total: the original plus four re-runs
			var returned int32
			for i := 0; i < 4; i++ {
				go func() {
					defer func() { recover() }()
					again()
					atomic.AddInt32(&returned, 1)
				}()
			}
			time.Sleep(limit)
			g.mu.Lock()
			still := g.seq == seq && !g.start.IsZero()
			g.mu.Unlock()
			w, replay := what()
			atomic.StoreInt32(&r.timedOut, 1)
			if still && atomic.LoadInt32(&returned) == 0 {
				r.Violation(fp, "0", fmt.Sprintf("%s: did not return within %v (5 executions)", w, limit), replay, nil)
			} else {
				r.EngineError("case %s exceeded %v once but returned on re-run (%d of 4 re-runs returned): %s", fp, limit, returned, w)
			}
			r.Note("the enumeration was aborted after a case that did not return (%s); only the cases executed before are covered", fp)
			code := 2
			if r.gs.finish != nil {
				code = r.gs.finish()
			}
			os.Exit(code)
		}
	}
}
