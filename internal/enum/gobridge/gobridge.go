// Package gobridge converts reference-model data to and from the Go values
// that generated qiloop proxies and stubs hand to the repository's codecs.
// It is the only place where engine A maps a signature to a Go type:
//
//	c int8  C uint8  w int16  W uint16  i int32  I uint32  l int64  L uint64
//	f float32  d float64  b bool  s string  v struct{}
//	m value.Value (interface)      o object.ObjectReference
//	[T] []T   {KV} map[K]V   (T...) struct{P0 T0; P1 T1...}
//	(T...)<S,a,b> struct{A T0; B T1}  (field names title-cased)
package gobridge

import (
	"bytes"
	"fmt"
	"math"
	"reflect"
	"sort"
	"strings"

	"github.com/lugu/qiloop/type/object"
	"github.com/lugu/qiloop/type/value"

	"verif/internal/refmodel"
)

var valueType = reflect.TypeOf((*value.Value)(nil)).Elem()

// GoType returns the Go type of a signature type.
func GoType(t *refmodel.Type) reflect.Type {
	switch t.Kind {
	case refmodel.Int8:
		return reflect.TypeOf(int8(0))
	case refmodel.Uint8:
		return reflect.TypeOf(uint8(0))
	case refmodel.Int16:
		return reflect.TypeOf(int16(0))
	case refmodel.Uint16:
		return reflect.TypeOf(uint16(0))
	case refmodel.Int32:
		return reflect.TypeOf(int32(0))
	case refmodel.Uint32:
		return reflect.TypeOf(uint32(0))
	case refmodel.Int64:
		return reflect.TypeOf(int64(0))
	case refmodel.Uint64:
		return reflect.TypeOf(uint64(0))
	case refmodel.Float:
		return reflect.TypeOf(float32(0))
	case refmodel.Double:
		return reflect.TypeOf(float64(0))
	case refmodel.Bool:
		return reflect.TypeOf(false)
	case refmodel.String:
		return reflect.TypeOf("")
	case refmodel.Void:
		return reflect.TypeOf(struct{}{})
	case refmodel.Value:
		return valueType
	case refmodel.Object:
		return reflect.TypeOf(object.ObjectReference{})
	case refmodel.List:
		return reflect.SliceOf(GoType(t.Elem))
	case refmodel.Map:
		return reflect.MapOf(GoType(t.Key), GoType(t.Elem))
	case refmodel.Tuple, refmodel.Struct:
		fields := make([]reflect.StructField, len(t.Members))
		for i, m := range t.Members {
			name := fmt.Sprintf("P%d", i)
			if t.Kind == refmodel.Struct {
				name = strings.Title(t.Fields[i])
			}
			fields[i] = reflect.StructField{Name: name, Type: GoType(m)}
		}
		return reflect.StructOf(fields)
	}
	panic("gobridge: no Go type for " + t.String())
}

// ToValue builds the value.Value carrying datum d: the typed constructors
// for the kinds that have one, value.Opaque with reference-model data
// otherwise.
func ToValue(d *refmodel.Datum) value.Value {
	switch d.T.Kind {
	case refmodel.Bool:
		return value.Bool(d.U != 0)
	case refmodel.Int8:
		return value.Int8(int8(d.U))
	case refmodel.Uint8:
		return value.Uint8(uint8(d.U))
	case refmodel.Int16:
		return value.Int16(int16(d.U))
	case refmodel.Uint16:
		return value.Uint16(uint16(d.U))
	case refmodel.Int32:
		return value.Int(int32(d.U))
	case refmodel.Uint32:
		return value.Uint(uint32(d.U))
	case refmodel.Int64:
		return value.Long(int64(d.U))
	case refmodel.Uint64:
		return value.Ulong(d.U)
	case refmodel.Float:
		return value.Float(math.Float32frombits(uint32(d.U)))
	case refmodel.String:
		return value.String(d.S)
	case refmodel.Raw:
		return value.Raw(d.B)
	case refmodel.Void:
		return value.Void()
	}
	return value.Opaque(d.T.String(), refmodel.Encode(d))
}

// ToGo builds the Go value of type rt holding datum d.
func ToGo(d *refmodel.Datum, rt reflect.Type) reflect.Value {
	rv := reflect.New(rt).Elem()
	switch d.T.Kind {
	case refmodel.Int8, refmodel.Int16, refmodel.Int32, refmodel.Int64:
		w := d.T.Kind.Width()
		shift := uint(64 - 8*w)
		rv.SetInt(int64(d.U<<shift) >> shift)
	case refmodel.Uint8, refmodel.Uint16, refmodel.Uint32, refmodel.Uint64:
		rv.SetUint(d.U)
	case refmodel.Float:
		rv.Set(reflect.ValueOf(math.Float32frombits(uint32(d.U))))
	case refmodel.Double:
		rv.SetFloat(math.Float64frombits(d.U))
	case refmodel.Bool:
		rv.SetBool(d.U != 0)
	case refmodel.String:
		rv.SetString(d.S)
	case refmodel.Void:
	case refmodel.Value:
		rv.Set(reflect.ValueOf(ToValue(d.Dyn)))
	case refmodel.Object:
		return ToGo(d.Dyn, rt)
	case refmodel.List:
		s := reflect.MakeSlice(rt, len(d.Elems), len(d.Elems))
		for i, e := range d.Elems {
			s.Index(i).Set(ToGo(e, rt.Elem()))
		}
		rv.Set(s)
	case refmodel.Map:
		m := reflect.MakeMapWithSize(rt, len(d.Elems)/2)
		for i := 0; i+1 < len(d.Elems); i += 2 {
			m.SetMapIndex(ToGo(d.Elems[i], rt.Key()), ToGo(d.Elems[i+1], rt.Elem()))
		}
		rv.Set(m)
	case refmodel.Tuple, refmodel.Struct:
		for i, e := range d.Elems {
			rv.Field(i).Set(ToGo(e, rt.Field(i).Type))
		}
	default:
		panic("gobridge: cannot build " + d.T.String())
	}
	return rv
}

// FromGo reads a Go value back into a datum of type t. Map entries come out
// sorted by the encoding of their key (see Canon). A value.Value is read back
// through its own Write.
func FromGo(rv reflect.Value, t *refmodel.Type) (d *refmodel.Datum, err error) {
	defer func() {
		if r := recover(); r != nil {
			err = fmt.Errorf("cannot read back a %s as %s: %v", rv.Type(), t, r)
		}
	}()
	return fromGo(rv, t)
}

func fromGo(rv reflect.Value, t *refmodel.Type) (*refmodel.Datum, error) {
	d := &refmodel.Datum{T: t}
	switch t.Kind {
	case refmodel.Int8, refmodel.Int16, refmodel.Int32, refmodel.Int64:
		w := t.Kind.Width()
		d.U = uint64(rv.Int())
		if w < 8 {
			d.U &= (uint64(1) << (8 * uint(w))) - 1
		}
	case refmodel.Uint8, refmodel.Uint16, refmodel.Uint32, refmodel.Uint64:
		d.U = rv.Uint()
	case refmodel.Float:
		d.U = uint64(math.Float32bits(float32(rv.Float())))
		if f, ok := rv.Interface().(float32); ok {
			d.U = uint64(math.Float32bits(f))
		}
	case refmodel.Double:
		d.U = math.Float64bits(rv.Float())
	case refmodel.Bool:
		if rv.Bool() {
			d.U = 1
		}
	case refmodel.String:
		d.S = rv.String()
	case refmodel.Void:
	case refmodel.Value:
		if rv.Kind() == reflect.Interface && rv.IsNil() {
			return nil, fmt.Errorf("nil value.Value")
		}
		v, ok := rv.Interface().(value.Value)
		if !ok || v == nil {
			return nil, fmt.Errorf("not a value.Value: %v", rv.Type())
		}
		var buf bytes.Buffer
		if err := v.Write(&buf); err != nil {
			return nil, fmt.Errorf("Value.Write: %v", err)
		}
		vd, n, err := refmodel.Decode(t, buf.Bytes())
		if err != nil || n != buf.Len() {
			return nil, fmt.Errorf("Value.Write produced %x which is not a well-formed dynamic value: %v", buf.Bytes(), err)
		}
		return vd, nil
	case refmodel.Object:
		sub, err := fromGo(rv, refmodel.MustParse(refmodel.ObjectRefSig))
		if err != nil {
			return nil, err
		}
		d.Dyn = sub
	case refmodel.List:
		for i := 0; i < rv.Len(); i++ {
			e, err := fromGo(rv.Index(i), t.Elem)
			if err != nil {
				return nil, err
			}
			d.Elems = append(d.Elems, e)
		}
	case refmodel.Map:
		type pair struct {
			k, v *refmodel.Datum
			kb   []byte
		}
		var ps []pair
		for _, k := range rv.MapKeys() {
			kd, err := fromGo(k, t.Key)
			if err != nil {
				return nil, err
			}
			vd, err := fromGo(rv.MapIndex(k), t.Elem)
			if err != nil {
				return nil, err
			}
			ps = append(ps, pair{kd, vd, refmodel.Encode(kd)})
		}
		sort.Slice(ps, func(i, j int) bool { return bytes.Compare(ps[i].kb, ps[j].kb) < 0 })
		for _, p := range ps {
			d.Elems = append(d.Elems, p.k, p.v)
		}
	case refmodel.Tuple, refmodel.Struct:
		if rv.NumField() != len(t.Members) {
			return nil, fmt.Errorf("%d fields for %d members", rv.NumField(), len(t.Members))
		}
		for i, m := range t.Members {
			e, err := fromGo(rv.Field(i), m)
			if err != nil {
				return nil, err
			}
			d.Elems = append(d.Elems, e)
		}
	default:
		return nil, fmt.Errorf("cannot read back kind %s", t.Kind.Letter())
	}
	return d, nil
}

// Canon returns a copy of d in which the entries of every map are sorted by
// the encoding of their key (the wire order of a Go map is unspecified).
func Canon(d *refmodel.Datum) *refmodel.Datum {
	c := *d
	if d.Dyn != nil {
		c.Dyn = Canon(d.Dyn)
	}
	if len(d.Elems) > 0 {
		c.Elems = make([]*refmodel.Datum, len(d.Elems))
		for i, e := range d.Elems {
			c.Elems[i] = Canon(e)
		}
	}
	if d.T.Kind == refmodel.Map {
		n := len(c.Elems) / 2
		idx := make([]int, n)
		keys := make([][]byte, n)
		for i := range idx {
			idx[i] = i
			keys[i] = refmodel.Encode(c.Elems[2*i])
		}
		sort.Slice(idx, func(a, b int) bool { return bytes.Compare(keys[idx[a]], keys[idx[b]]) < 0 })
		out := make([]*refmodel.Datum, 0, len(c.Elems))
		for _, i := range idx {
			out = append(out, c.Elems[2*i], c.Elems[2*i+1])
		}
		c.Elems = out
	}
	return &c
}

// Orders returns the data obtained from d by permuting the entries of its
// maps in every possible way (maps have at most 2 entries in Val(T), so the
// number of variants is 2^(number of 2-entry maps); capped at max).
func Orders(d *refmodel.Datum, max int) []*refmodel.Datum {
	out := []*refmodel.Datum{d}
	var paths [][]int
	var walk func(cur *refmodel.Datum, path []int)
	walk = func(cur *refmodel.Datum, path []int) {
		if cur.T.Kind == refmodel.Map && len(cur.Elems) == 4 {
			paths = append(paths, append([]int(nil), path...))
		}
		if cur.Dyn != nil && cur.T.Kind == refmodel.Object {
			walk(cur.Dyn, append(append([]int(nil), path...), 0))
		}
		for i, e := range cur.Elems {
			walk(e, append(append([]int(nil), path...), i))
		}
	}
	walk(d, nil)
	// deeper maps first: swapping a parent map moves its children wholesale,
	// so child paths must be applied while positions are still the original
	sort.SliceStable(paths, func(a, b int) bool { return len(paths[a]) > len(paths[b]) })
	for _, p := range paths {
		n := len(out)
		for i := 0; i < n && len(out) < max; i++ {
			out = append(out, swapAt(out[i], p))
		}
	}
	return out
}

func swapAt(d *refmodel.Datum, path []int) *refmodel.Datum {
	c := *d
	if len(path) == 0 {
		c.Elems = []*refmodel.Datum{d.Elems[2], d.Elems[3], d.Elems[0], d.Elems[1]}
		return &c
	}
	if d.T.Kind == refmodel.Object {
		c.Dyn = swapAt(d.Dyn, path[1:])
		return &c
	}
	c.Elems = append([]*refmodel.Datum(nil), d.Elems...)
	c.Elems[path[0]] = swapAt(d.Elems[path[0]], path[1:])
	return &c
}
