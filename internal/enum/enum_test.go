package enum

import (
	"bytes"
	"testing"

	"verif/internal/refmodel"
)

func TestRefmodelSelfConsistency(t *testing.T) {
	sigs := Sigs(SigOpts{Depth: 2, Width: 2, Outer: "cCwWiIlLfdbsrmov", Inner: "isbmC", OuterKeys: "cCwWiIlLbs", InnerKeys: "isC", Structs: true})
	t.Logf("%d signatures", len(sigs))
	seen := map[string]bool{}
	nvals := 0
	for _, s := range sigs {
		str := s.String()
		if seen[str] {
			t.Fatalf("duplicate signature %s", str)
		}
		seen[str] = true
		p, err := refmodel.ParseSig(str)
		if err != nil || p.String() != str {
			t.Fatalf("parse/print %s: %v", str, err)
		}
		for _, v := range Vals(s) {
			nvals++
			e, spans := refmodel.EncodeSpans(v)
			if !bytes.Equal(e, refmodel.Encode(v)) {
				t.Fatal("spans change encoding")
			}
			pos := 0
			for _, sp := range spans {
				if sp.Start != pos || sp.End <= sp.Start {
					t.Fatalf("spans not contiguous for %s %s", str, v)
				}
				pos = sp.End
			}
			if pos != len(e) {
				t.Fatalf("spans do not cover %s", str)
			}
			d, n, err := refmodel.Decode(s, append(append([]byte{}, e...), 0xff, 0xff))
			if err != nil || n != len(e) || !refmodel.Equal(d, v) {
				t.Fatalf("decode(encode) %s %s: %v n=%d len=%d", str, v, err, n, len(e))
			}
			for k := 0; k < len(e); k++ {
				if _, _, err := refmodel.Decode(s, e[:k]); err == nil {
					t.Fatalf("refmodel accepts prefix %d of %s %s", k, str, v)
				}
			}
		}
	}
	t.Logf("%d values", nvals)
}

func TestCutSets(t *testing.T) {
	for n := 0; n < 12; n++ {
		for k := 0; k <= 3; k++ {
			c := 0
			CutSets(n, k, func(cuts []int) bool { c++; return true })
			if c != CountCutSets(n, k) {
				t.Fatalf("n=%d k=%d: %d vs %d", n, k, c, CountCutSets(n, k))
			}
		}
	}
}

func TestHeaderLayout(t *testing.T) {
	h := refmodel.Header{ID: 0x01020304, Size: 0x05060708, Version: 0, Type: 1, Flags: 2, Service: 0x11121314, Object: 0x21222324, Action: 0x31323334}
	b := refmodel.EncodeHeader(h)
	want := []byte{0x42, 0xde, 0xad, 0x42, 4, 3, 2, 1, 8, 7, 6, 5, 0, 0, 1, 2, 0x14, 0x13, 0x12, 0x11, 0x24, 0x23, 0x22, 0x21, 0x34, 0x33, 0x32, 0x31}
	if !bytes.Equal(b, want) {
		t.Fatalf("% x", b)
	}
	g, err := refmodel.DecodeHeader(b)
	if err != nil || g != h {
		t.Fatal(err, g)
	}
}

func TestSweepLengths(t *testing.T) {
	q := SweepLengths(false, SweepDenseMax, 0, -1)
	if len(q) != 301+32 || q[0] != 0 || q[300] != 300 || q[301] != 511 || q[len(q)-1] != 70000 {
		t.Fatalf("quick sweep: %d lengths, %v", len(q), q[295:])
	}
	th := SweepLengths(true, SweepDenseMax, 1, -1)
	if th[0] != 1 || th[len(th)-1] != 1<<20+1 {
		t.Fatalf("thorough sweep: %v", th[295:])
	}
	for _, want := range []int{4095, 4096, 4097, 6144, 16385, 65537, 70000, 98304, 1 << 20} {
		found := false
		for _, n := range th {
			found = found || n == want
		}
		if !found {
			t.Fatalf("thorough sweep lacks %d", want)
		}
	}
	if c := SweepLengths(true, SweepDenseMax, 0, 4096); c[len(c)-1] != 4096 {
		t.Fatalf("capped sweep ends at %d", c[len(c)-1])
	}
	if msg := SweepContentCheck(1 << 16); msg != "" {
		t.Fatal(msg)
	}
	// the threshold is found wherever it lies between two enumerated lengths
	for _, thr := range []int{1, 125, 301, 400, 4097, 5000, 66000} {
		first := -1
		for _, n := range q {
			if n >= thr {
				first = n
				break
			}
		}
		if m := SweepThreshold(q, first, 0, func(n int) bool { return n >= thr }); m != thr {
			t.Fatalf("threshold %d located at %d", thr, m)
		}
	}
}
