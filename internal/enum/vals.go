package enum

import (
	"math"
	"strings"

	"verif/internal/refmodel"
)

// Val(T): per-type boundary sets.
//
//   - atoms at nesting level <= 1 (the top-level type itself or a direct
//     child of the top-level constructor) range over the FULL boundary set;
//     deeper atoms over the REDUCED set (zero/empty, the distinguished
//     value, all-ones/multi-byte);
//   - lists: [], [v] for every v of the element set, [v_i, v_i+1] for every
//     cyclic consecutive pair;
//   - maps: {}, {k:dist} for every key, {distkey:v} for every value, and two
//     two-entry maps (keys are distinct by construction);
//   - tuples/structs: for each member in turn its whole set while the other
//     members hold their distinguished non-zero value, plus the diagonal
//     (j-th value of every member);
//   - dynamic values 'm': a fixed list of concrete (signature, value) pairs
//     covering every scalar kind, a string, void, lists, a tuple, a map
//     (reduced set deeper: i, s, [i]);
//   - objects 'o': the all-empty description and the distinguished one (one
//     method with one parameter, one signal, one property).

func mask(width int) uint64 {
	if width >= 8 {
		return ^uint64(0)
	}
	return (uint64(1) << (8 * uint(width))) - 1
}

// asym is a byte-asymmetric pattern: every byte differs, so a swapped byte
// order or a dropped byte is visible.
func asym(width int) uint64 {
	return 0x0102030405060708 >> (8 * uint(8-width))
}

func scalar(t *refmodel.Type, u uint64) *refmodel.Datum {
	return &refmodel.Datum{T: t, U: u & mask(t.Kind.Width())}
}

func str(t *refmodel.Type, s string) *refmodel.Datum { return &refmodel.Datum{T: t, S: s} }

var long255 = strings.Repeat("0123456789abcdef", 16)[:255]

// dynSigs are the concrete types carried by the enumerated dynamic values.
var dynFull = []string{"i", "s", "b", "C", "d", "[i]", "(is)", "{sI}", "v", "[s]", "c", "w", "W", "I", "l", "L", "f"}
var dynReduced = []string{"i", "s", "[i]"}

// Dist returns the distinguished non-zero value of a type.
func Dist(t *refmodel.Type) *refmodel.Datum {
	switch t.Kind {
	case refmodel.Bool:
		return scalar(t, 1)
	case refmodel.Float:
		return scalar(t, uint64(math.Float32bits(1.5)))
	case refmodel.Double:
		return scalar(t, math.Float64bits(-2.25))
	case refmodel.String:
		return str(t, "ab")
	case refmodel.Raw:
		return &refmodel.Datum{T: t, B: []byte{0xa1, 0xb2, 0xc3}}
	case refmodel.Void:
		return &refmodel.Datum{T: t}
	case refmodel.Value:
		it := refmodel.Atom('i')
		return &refmodel.Datum{T: t, Dyn: scalar(it, asym(4))}
	case refmodel.Object:
		return &refmodel.Datum{T: t, Dyn: Dist(refmodel.MustParse(refmodel.ObjectRefSig))}
	case refmodel.List:
		return &refmodel.Datum{T: t, Elems: []*refmodel.Datum{Dist(t.Elem)}}
	case refmodel.Map:
		return &refmodel.Datum{T: t, Elems: []*refmodel.Datum{Dist(t.Key), Dist(t.Elem)}}
	case refmodel.Tuple, refmodel.Struct:
		d := &refmodel.Datum{T: t}
		for _, m := range t.Members {
			d.Elems = append(d.Elems, Dist(m))
		}
		return d
	}
	if w := t.Kind.Width(); w > 0 {
		return scalar(t, asym(w))
	}
	panic("enum: no distinguished value for " + t.String())
}

// Zero returns the all-zero / all-empty value of a type.
func Zero(t *refmodel.Type) *refmodel.Datum {
	switch t.Kind {
	case refmodel.Value:
		return &refmodel.Datum{T: t, Dyn: scalar(refmodel.Atom('i'), 0)}
	case refmodel.Object:
		return &refmodel.Datum{T: t, Dyn: Zero(refmodel.MustParse(refmodel.ObjectRefSig))}
	case refmodel.Tuple, refmodel.Struct:
		d := &refmodel.Datum{T: t}
		for _, m := range t.Members {
			d.Elems = append(d.Elems, Zero(m))
		}
		return d
	}
	return &refmodel.Datum{T: t}
}

func atomVals(t *refmodel.Type, full bool) []*refmodel.Datum {
	var out []*refmodel.Datum
	switch t.Kind {
	case refmodel.Bool:
		return []*refmodel.Datum{scalar(t, 0), scalar(t, 1)}
	case refmodel.Int8, refmodel.Int16, refmodel.Int32, refmodel.Int64,
		refmodel.Uint8, refmodel.Uint16, refmodel.Uint32, refmodel.Uint64:
		w := t.Kind.Width()
		m := mask(w)
		top := uint64(1) << (8*uint(w) - 1)
		set := []uint64{0, asym(w), m}
		if full {
			set = []uint64{0, 1, m, top, top - 1, asym(w)}
		}
		seen := map[uint64]bool{}
		for _, u := range set {
			if !seen[u&m] {
				seen[u&m] = true
				out = append(out, scalar(t, u))
			}
		}
		return out
	case refmodel.Float:
		set := []float32{0, 1.5, float32(math.Inf(-1))}
		if full {
			set = []float32{0, float32(math.Copysign(0, -1)), 1.5, math.MaxFloat32, float32(math.Inf(1))}
		}
		for _, f := range set {
			out = append(out, scalar(t, uint64(math.Float32bits(f))))
		}
		if full {
			out = append(out, scalar(t, 0x7fc01234)) // a NaN with a payload
		}
		return out
	case refmodel.Double:
		set := []float64{0, -2.25, math.Inf(-1)}
		if full {
			set = []float64{0, math.Copysign(0, -1), -2.25, math.MaxFloat64, math.Inf(1)}
		}
		for _, f := range set {
			out = append(out, scalar(t, math.Float64bits(f)))
		}
		if full {
			out = append(out, scalar(t, 0x7ff8000000abcdef))
		}
		return out
	case refmodel.String:
		if full {
			return []*refmodel.Datum{str(t, ""), str(t, "a"), str(t, "ab"), str(t, "hé€\U0001F600"), str(t, long255)}
		}
		return []*refmodel.Datum{str(t, ""), str(t, "ab"), str(t, "é€")}
	case refmodel.Raw:
		return []*refmodel.Datum{{T: t, B: []byte{}}, {T: t, B: []byte{0}}, {T: t, B: []byte{0xa1, 0xb2, 0xc3}}}
	case refmodel.Void:
		return []*refmodel.Datum{{T: t}}
	case refmodel.Value:
		sigs := dynReduced
		if full {
			sigs = dynFull
		}
		for _, s := range sigs {
			it := refmodel.MustParse(s)
			out = append(out, &refmodel.Datum{T: t, Dyn: Dist(it)})
		}
		if full {
			out = append(out, &refmodel.Datum{T: t, Dyn: Zero(refmodel.MustParse("[i]"))})
			out = append(out, &refmodel.Datum{T: t, Dyn: str(refmodel.Atom('s'), "")})
		}
		return out
	case refmodel.Object:
		return []*refmodel.Datum{Zero(t), Dist(t)}
	}
	panic("enum: no values for " + t.String())
}

// Vals enumerates Val(t) for a top-level type t.
func Vals(t *refmodel.Type) []*refmodel.Datum { return vals(t, 0) }

func vals(t *refmodel.Type, level int) []*refmodel.Datum {
	if t.IsAtom() {
		return atomVals(t, level <= 1)
	}
	switch t.Kind {
	case refmodel.List:
		ev := vals(t.Elem, level+1)
		out := []*refmodel.Datum{{T: t}}
		for _, v := range ev {
			out = append(out, &refmodel.Datum{T: t, Elems: []*refmodel.Datum{v}})
		}
		if len(ev) >= 2 {
			for i := range ev {
				out = append(out, &refmodel.Datum{T: t, Elems: []*refmodel.Datum{ev[i], ev[(i+1)%len(ev)]}})
			}
		} else if len(ev) == 1 {
			out = append(out, &refmodel.Datum{T: t, Elems: []*refmodel.Datum{ev[0], ev[0]}})
		}
		return out
	case refmodel.Map:
		kv := vals(t.Key, level+1)
		vv := vals(t.Elem, level+1)
		dk, dv := Dist(t.Key), Dist(t.Elem)
		out := []*refmodel.Datum{{T: t}}
		for _, k := range kv {
			out = append(out, &refmodel.Datum{T: t, Elems: []*refmodel.Datum{k, dv}})
		}
		for _, v := range vv {
			out = append(out, &refmodel.Datum{T: t, Elems: []*refmodel.Datum{dk, v}})
		}
		if len(kv) >= 2 {
			a, b := kv[0], kv[len(kv)-1]
			out = append(out, &refmodel.Datum{T: t, Elems: []*refmodel.Datum{a, vv[0], b, vv[len(vv)-1]}})
			out = append(out, &refmodel.Datum{T: t, Elems: []*refmodel.Datum{b, dv, a, dv}})
		}
		return out
	case refmodel.Tuple, refmodel.Struct:
		n := len(t.Members)
		if n == 0 {
			return []*refmodel.Datum{{T: t}}
		}
		sets := make([][]*refmodel.Datum, n)
		dist := make([]*refmodel.Datum, n)
		maxLen := 0
		for i, m := range t.Members {
			sets[i] = vals(m, level+1)
			dist[i] = Dist(m)
			if len(sets[i]) > maxLen {
				maxLen = len(sets[i])
			}
		}
		var out []*refmodel.Datum
		for i := 0; i < n; i++ {
			for _, v := range sets[i] {
				d := &refmodel.Datum{T: t, Elems: append([]*refmodel.Datum(nil), dist...)}
				d.Elems[i] = v
				out = append(out, d)
			}
		}
		if n > 1 {
			for j := 0; j < maxLen; j++ {
				d := &refmodel.Datum{T: t}
				for i := 0; i < n; i++ {
					d.Elems = append(d.Elems, sets[i][j%len(sets[i])])
				}
				out = append(out, d)
			}
		}
		return out
	}
	panic("enum: no values for " + t.String())
}
