// Package c04 holds the engine-B scenarios of property C04: every call gets
// exactly one answer - its own - and runs its method exactly once.
package c04

import (
	"fmt"
	"strings"

	"github.com/lugu/qiloop/bus"
	"github.com/lugu/qiloop/bus/net"

	"verif/rt/vrt"
	"verif/scenarios/fx"
	"verif/scenarios/probe"
	"verif/scenarios/reg"
)

type call struct {
	name     string
	arg      int32
	returned int
	res      int32
	err      error
}

// checkWire: on one connection, every (service, object, action, id) tuple gets
// at most as many Reply/Error frames as Call frames carrying it were sent
// (message ids are unique per client object, not per connection), and none
// for the ids listed in silent (posts).
func checkWire(name string, c *fx.Conn, silent map[uint32]bool) {
	type key struct{ s, o, a, id uint32 }
	calls := map[key]int{}
	for _, f := range c.Out.Frames {
		if f.Hdr.Type == net.Call {
			calls[key{f.Hdr.Service, f.Hdr.Object, f.Hdr.Action, f.Hdr.ID}]++
		}
	}
	seen := map[key]int{}
	for _, f := range c.In.Frames {
		if f.Hdr.Type == net.Reply || f.Hdr.Type == net.Error {
			seen[key{f.Hdr.Service, f.Hdr.Object, f.Hdr.Action, f.Hdr.ID}]++
			if silent[f.Hdr.ID] {
				vrt.Failf("post-answered", "a post (id %d) was answered with a frame of type %d on %s", f.Hdr.ID, f.Hdr.Type, name)
			}
		}
	}
	for k, n := range seen {
		if n > calls[k] {
			vrt.Failf("more-answers-than-calls", "%d call frame(s) for service %d object %d action %d id %d got %d answers on %s", calls[k], k.s, k.o, k.a, k.id, n, name)
		}
	}
}

func checkCalls(root *probe.Impl, calls []*call) {
	for _, c := range calls {
		if c.returned != 1 {
			continue // a hang is reported by Settle
		}
		key := fmt.Sprintf("%s(%d)", c.name, c.arg)
		want := probe.EchoResult(c.arg)
		if c.name == "noarg" {
			key, want = "noarg#", 42
		}
		n := root.Calls[key]
		if c.name == "noarg" {
			n = -1 // several noarg callers share one counter; checked globally
		}
		if c.err == nil {
			if c.res != want {
				vrt.Failf("wrong-result/"+c.name, "%s returned %d, its own arguments give %d", key, c.res, want)
			}
			if n >= 0 && n != 1 {
				vrt.Failf("execution-count/"+c.name, "%s succeeded but its method body ran %d times", key, n)
			}
		} else if n > 1 {
			vrt.Failf("execution-count/"+c.name, "%s failed (%v) and its method body ran %d times", key, c.err, n)
		}
	}
}

// callers: concurrent calls through two proxies of one connection and one
// proxy of a second connection, plus a one-way post.
func callers(nThreads int, fine bool, shared ...bool) func() {
	return func() {
		w := fx.Start(bus.Yes{})
		c1, c2 := w.MustConnect(), w.MustConnect()
		pA, pB, pC := c1.Probe(1), c1.Probe(1), c2.Probe(1)
		if len(shared) > 0 && shared[0] {
			// the two goroutines share ONE proxy object (the ordinary way to
			// use a proxy from several goroutines)
			pB = pA
		}
		calls := []*call{{name: "echo", arg: 5}, {name: "echo", arg: 7}, {name: "echo", arg: 9}, {name: "slow", arg: 11}}
		postID := uint32(9001)
		vrt.Explore()
		vrt.SetFine(fine)
		var ws []*vrt.Thread
		ws = append(ws, vrt.GoWorker("A", func() {
			calls[0].res, calls[0].err = pA.Echo(5)
			calls[0].returned++
			calls[3].res, calls[3].err = pA.Slow(11)
			calls[3].returned++
		}))
		ws = append(ws, vrt.GoWorker("B", func() {
			calls[1].res, calls[1].err = pB.Echo(7)
			calls[1].returned++
		}))
		if nThreads >= 3 {
			ws = append(ws, vrt.GoWorker("C", func() {
				calls[2].res, calls[2].err = pC.Echo(9)
				calls[2].returned++
				// a one-way post of inc() on the second connection
				m := net.NewMessage(net.NewHeader(net.Post, w.ServiceID, 1, 101, postID), nil)
				c2.EP.Send(m)
			}))
		} else {
			calls[2].returned = -1
		}
		vrt.Quiesce()
		fx.Settle(ws...)
		for _, c := range calls {
			if c.returned == 1 && c.err != nil {
				vrt.Failf("call-failed/"+c.name, "%s(%d) failed on a healthy system: %v", c.name, c.arg, c.err)
			}
		}
		checkCalls(w.Root, calls)
		if nThreads >= 3 && w.Root.Calls["inc"] != 1 {
			vrt.Failf("post-count", "posted inc() ran %d times", w.Root.Calls["inc"])
		}
		checkWire("conn1", c1, nil)
		checkWire("conn2", c2, map[uint32]bool{postID: true})
		if len(w.Root.Order) >= 2 && w.Root.Order[0] != "echo(5)" {
			vrt.Flag("server-order-differs-from-default")
		}
		// replies crossing: B's reply reached conn1 before A's first reply
		var ids []uint32
		for _, f := range c1.In.Frames {
			if f.Hdr.Type == net.Reply && f.Hdr.Action == 100 {
				ids = append(ids, f.Hdr.ID)
			}
		}
		if len(ids) == 2 && ids[0] > ids[1] {
			vrt.Flag("replies-crossed")
		}
		vrt.Observe("order=%v", w.Root.Order)
	}
}

// failing: calls whose method answers with an error race successful calls
// and a call to an action that does not exist: every caller gets its own
// answer - the error text its own method produced - exactly once.
func failing() {
	w := fx.Start(bus.Yes{})
	c1, c2 := w.MustConnect(), w.MustConnect()
	pA, pB, pC := c1.Probe(1), c1.Probe(1), c2.Probe(1)
	vrt.Explore()
	type res struct {
		v        int32
		err      error
		returned int
	}
	rs := make([]res, 5)
	ws := []*vrt.Thread{
		vrt.GoWorker("A", func() {
			rs[0].v, rs[0].err = pA.Echo(-7)
			rs[0].returned++
			rs[1].v, rs[1].err = pA.Echo(6)
			rs[1].returned++
		}),
		vrt.GoWorker("B", func() {
			rs[2].v, rs[2].err = pB.Echo(8)
			rs[2].returned++
			_, rs[3].err = pB.Proxy().CallID(999, nil)
			rs[3].returned++
		}),
		vrt.GoWorker("C", func() {
			rs[4].v, rs[4].err = pC.Echo(-9)
			rs[4].returned++
		}),
	}
	vrt.Quiesce()
	fx.Settle(ws...)
	wantErr := func(i int, name, text string) {
		if rs[i].returned != 1 {
			return
		}
		if rs[i].err == nil {
			vrt.Failf("error-lost/"+name, "%s succeeded (returned %d) although its method answered with an error", name, rs[i].v)
		} else if rs[i].err.Error() != text && !strings.HasSuffix(rs[i].err.Error(), text) {
			vrt.Failf("wrong-error/"+name, "%s failed with %q, its own method answered %q", name, rs[i].err.Error(), text)
		}
	}
	wantOK := func(i int, name string, arg int32) {
		if rs[i].returned != 1 {
			return
		}
		if rs[i].err != nil {
			vrt.Failf("call-failed/"+name, "%s failed on a healthy system: %v", name, rs[i].err)
		} else if rs[i].v != probe.EchoResult(arg) {
			vrt.Failf("wrong-result/"+name, "%s returned %d, its own arguments give %d", name, rs[i].v, probe.EchoResult(arg))
		}
	}
	wantErr(0, "echo(-7)", probe.EchoError(-7))
	wantOK(1, "echo(6)", 6)
	wantOK(2, "echo(8)", 8)
	wantErr(3, "unknown-action", bus.ErrActionNotFound.Error())
	wantErr(4, "echo(-9)", probe.EchoError(-9))
	for _, k := range []string{"echo(-7)", "echo(6)", "echo(8)", "echo(-9)"} {
		if n := w.Root.Calls[k]; n != 1 {
			vrt.Failf("execution-count/echo", "%s ran %d times", k, n)
		}
	}
	checkWire("conn1", c1, nil)
	checkWire("conn2", c2, nil)
	if len(w.Root.Order) >= 1 && w.Root.Order[0] != "echo(-7)" {
		vrt.Flag("server-order-differs-from-default")
	}
	vrt.Observe("order=%v", w.Root.Order)
}

// oversized: a method whose answer is exactly as large as a message may be,
// and one whose answer is larger: each call still gets exactly one outcome.
func oversized() {
	w := fx.Start(bus.Yes{})
	c1, c2 := w.MustConnect(), w.MustConnect()
	pA, pB := c1.Probe(1), c2.Probe(1)
	limit := int32(net.MaxPayloadSize) - 4 // the string is preceded by its 4-byte length
	vrt.Explore()
	var sA, sB string
	var eA, eB error
	doneA, doneB := false, false
	ws := []*vrt.Thread{
		vrt.GoWorker("A", func() { sA, eA = pA.Blob(limit); doneA = true }),
		vrt.GoWorker("B", func() { sB, eB = pB.Blob(limit + 1); doneB = true }),
	}
	vrt.Quiesce()
	if !doneA {
		vrt.Failf("hang/limit-size-answer", "a call whose answer has exactly the largest payload size never returned")
	} else if eA != nil || len(sA) != int(limit) {
		vrt.Failf("call-failed/limit-size-answer", "a call whose answer has exactly the largest payload size returned %d bytes, %v", len(sA), eA)
	}
	if !doneB {
		vrt.Failf("hang/oversized-answer", "a call whose answer exceeds the largest payload size never returned (the method ran %d times)", w.Root.Calls[fmt.Sprintf("blob(%d)", limit+1)])
	} else if eB == nil && len(sB) != int(limit+1) {
		vrt.Failf("wrong-result/oversized-answer", "blob(%d) returned %d bytes", limit+1, len(sB))
	}
	for _, n := range []int32{limit, limit + 1} {
		if k := w.Root.Calls[fmt.Sprintf("blob(%d)", n)]; k != 1 {
			vrt.Failf("execution-count/blob", "blob(%d) ran %d times", n, k)
		}
	}
	_ = ws
	// the service keeps serving
	c3 := w.MustConnect()
	if v, err := c3.Probe(1).Echo(3); err != nil || v != probe.EchoResult(3) {
		vrt.Failf("service-unavailable-after-oversized-answer", "echo on a fresh connection: %d, %v", v, err)
	}
	vrt.Observe("A=%v B=%v", eA != nil, eB != nil)
}

// twoClients: two client objects share one connection (as bus.Cache.Proxy and
// the relays of client-side objects create them); their message counters
// run in parallel, so two pending calls can carry the same message id. Same
// service, same action, different objects; the later call is answered first.
func twoClients() {
	w := fx.Start(bus.Yes{})
	c1 := w.MustConnect()
	child, err := c1.Probe(1).Spawn()
	if err != nil {
		vrt.Failf("harness/spawn", "%v", err)
		return
	}
	childID := child.Proxy().ObjectID()
	x, y := bus.NewClient(c1.Client.Channel()), bus.NewClient(c1.Client.Channel())
	w.Root.Gate = make(chan struct{})
	vrt.Explore()
	var rx, ry []byte
	var ex, ey error
	doneX, doneY := false, false
	wx := vrt.GoWorker("X", func() { rx, ex = x.Call(nil, w.ServiceID, 1, 103, fx.Int32(11)); doneX = true })
	vrt.Quiesce() // slow(11) is running on the service object, held by the gate
	wy := vrt.GoWorker("Y", func() { ry, ey = y.Call(nil, w.ServiceID, childID, 103, fx.Int32(12)); doneY = true })
	vrt.Quiesce()
	if !doneY {
		vrt.Failf("hang/Y", "the call to the child object did not return while another object was busy")
	} else if v, err := fx.ReadInt32(ry); ey != nil || err != nil || v != probe.EchoResult(12) {
		vrt.Failf("wrong-result/second-client", "slow(12) on the child object returned %d, %v / %v; its own arguments give %d", v, ey, err, probe.EchoResult(12))
	}
	if doneX {
		v, _ := fx.ReadInt32(rx)
		vrt.Failf("answer-of-another-call/first-client", "slow(11) on the service object returned (%d, %v) while its method was still running: it received the answer of another client's call carrying the same message id", v, ex)
	}
	close(w.Root.Gate)
	vrt.Quiesce()
	fx.Settle(wx, wy)
	if v, err := fx.ReadInt32(rx); doneX && (ex != nil || err != nil || v != probe.EchoResult(11)) {
		vrt.Failf("wrong-result/first-client", "slow(11) returned %d, %v; its own arguments give %d", v, ex, probe.EchoResult(11))
	}
	checkWire("conn1", c1, nil)
	vrt.Observe("x=%v y=%v", ex != nil, ey != nil)
}

// lentObject: client A hosts an object and lends it to the service
// (adopt); client B, on another connection, obtains it from the service
// (adopted) and calls it: the service relays the calls to A's connection and
// the answers - results and errors alike - back to B.
func lentObject() {
	w := fx.Start(bus.Yes{})
	cA, cB := w.MustConnect(), w.MustConnect()
	pA, pB := cA.Probe(1), cB.Probe(1)
	mine := probe.New("lent")
	svcA := pA.Proxy().ProxyService(cA.Session())
	lent, err := probe.CreateProbe(cA.Session(), svcA, mine)
	if err != nil {
		vrt.Failf("harness/create", "%v", err)
		return
	}
	if err := pA.Adopt(lent); err != nil {
		vrt.Failf("harness/adopt", "%v", err)
		return
	}
	vrt.Quiesce()
	vrt.Explore()
	var v5 int32
	var e5, e7, eGet error
	step := 0
	wb := vrt.GoWorker("B", func() {
		o, err := pB.Adopted()
		if err != nil {
			eGet = err
			return
		}
		step = 1
		v5, e5 = o.Echo(5)
		step = 2
		_, e7 = o.Echo(-7)
		step = 3
	})
	var vA int32
	var eA error
	wa := vrt.GoWorker("A", func() { vA, eA = pA.Echo(3) })
	vrt.Quiesce()
	if !wb.Done() {
		vrt.Failf(fmt.Sprintf("hang/lent-object-call/step%d", step), "client B's call on the object lent by client A never returned (after step %d: 1 = obtained, 2 = echo(5) returned, 3 = echo(-7) returned); blocked on %s", step, wb.BlockedOn())
	}
	fx.Settle(wa)
	vrt.Freeze() // what follows (a post to the lent object, the wire checks) runs on the default schedule
	switch {
	case eGet != nil:
		vrt.Failf("call-failed/adopted", "adopted() failed: %v", eGet)
	case step >= 2 && (e5 != nil || v5 != probe.EchoResult(5)):
		vrt.Failf("wrong-result/lent-object", "echo(5) on the lent object returned %d, %v", v5, e5)
	case step >= 3 && e7 == nil:
		vrt.Failf("error-lost/lent-object", "echo(-7) on the lent object succeeded although its method answers with an error")
	case step >= 3 && !strings.HasSuffix(e7.Error(), probe.EchoError(-7)):
		vrt.Failf("wrong-error/lent-object", "echo(-7) on the lent object failed with %q, its method answered %q", e7.Error(), probe.EchoError(-7))
	}
	if step >= 3 && (mine.Calls["echo(5)"] != 1 || mine.Calls["echo(-7)"] != 1) {
		vrt.Failf("execution-count/lent-object", "the lent object ran echo(5) %d times and echo(-7) %d times", mine.Calls["echo(5)"], mine.Calls["echo(-7)"])
	}
	if eA != nil || vA != probe.EchoResult(3) {
		vrt.Failf("call-failed/echo", "client A's own call failed meanwhile: %d, %v", vA, eA)
	}
	// a one-way post to the lent object is relayed and never answered
	if step >= 3 {
		if o, err := pB.Adopted(); err == nil {
			postID := uint32(9101)
			m := net.NewMessage(net.NewHeader(net.Post, w.ServiceID, o.Proxy().ObjectID(), 101, postID), nil)
			cB.EP.Send(m)
			vrt.Quiesce()
			if mine.Calls["inc"] != 1 {
				vrt.Failf("post-count/lent-object", "a posted inc() to the lent object ran %d times", mine.Calls["inc"])
			}
			checkWire("connB", cB, map[uint32]bool{postID: true})
		}
	}
	checkWire("connA", cA, nil)
	checkWire("connB", cB, nil)
	vrt.Observe("step=%d", step)
}

// lentSubscribe: client B subscribes to a signal of the object client A lent
// to the service: the registerEvent call travels through the service's relay
// (bus.clientObject). Like every call it gets exactly one answer; afterwards
// an event emitted by the object's host reaches the subscriber once.
func lentSubscribe() {
	w := fx.Start(bus.Yes{})
	cA, cB := w.MustConnect(), w.MustConnect()
	pA, pB := cA.Probe(1), cB.Probe(1)
	mine := probe.New("lent")
	svcA := pA.Proxy().ProxyService(cA.Session())
	lent, err := probe.CreateProbe(cA.Session(), svcA, mine)
	if err != nil {
		vrt.Failf("harness/create", "%v", err)
		return
	}
	if err := pA.Adopt(lent); err != nil {
		vrt.Failf("harness/adopt", "%v", err)
		return
	}
	o, err := pB.Adopted()
	if err != nil {
		vrt.Failf("harness/adopted", "%v", err)
		return
	}
	vrt.Quiesce()
	vrt.Explore()
	var got []int32
	var subErr error
	returned := false
	wb := vrt.GoWorker("B-subscribes", func() {
		_, ch, err := o.SubscribeTick()
		returned, subErr = true, err
		if err != nil {
			return
		}
		vrt.GoNamed("B-drain", func() {
			for v := range ch {
				got = append(got, v)
			}
		})
	})
	vrt.Quiesce()
	if !wb.Done() {
		vrt.Failf("hang/lent-object-subscribe", "client B's registerEvent call on the object lent by client A is never answered: SubscribeTick blocked on %s", wb.BlockedOn())
		checkWire("connB", cB, nil)
		return
	}
	vrt.Freeze()
	if returned && subErr == nil {
		for _, n := range []int32{1, 2} {
			if err := mine.Helper.SignalTick(n); err != nil {
				vrt.Failf("emit-error/lent-object", "the host of the lent object cannot emit tick(%d): %v", n, err)
			}
			vrt.Quiesce()
		}
		if fmt.Sprint(got) != "[1 2]" {
			vrt.Failf("events-differ/lent-object", "subscribed to the lent object (SubscribeTick succeeded), its host emitted tick(1), tick(2); the subscriber received %v", got)
		}
	}
	checkWire("connB", cB, nil)
	vrt.Observe("subscribed=%v err=%v got=%v", returned, subErr, got)
}

// manyPending: more calls in flight on one connection than the endpoint's
// ten preallocated handler slots; the call registered last is answered first
// (it addresses another object); every call still gets its own answer.
func manyPending() {
	w := fx.Start(bus.Yes{})
	c1 := w.MustConnect()
	child, err := c1.Probe(1).Spawn()
	if err != nil {
		vrt.Failf("harness/spawn", "%v", err)
		return
	}
	pRoot := c1.Probe(1)
	w.Root.Gate = make(chan struct{})
	const n = 11 // one executing + ten in the object's mailbox
	vrt.Explore()
	res := make([]int32, n)
	errs := make([]error, n)
	done := make([]bool, n)
	var ws []*vrt.Thread
	for i := 0; i < n; i++ {
		i := i
		ws = append(ws, vrt.GoWorker(fmt.Sprintf("slow%d", i), func() {
			res[i], errs[i] = pRoot.Slow(int32(100 + i))
			done[i] = true
		}))
		vrt.Quiesce() // the calls are issued one after the other: handler slots 0..10
	}
	var vc int32
	var ec error
	wc := vrt.GoWorker("last", func() { vc, ec = child.Echo(7) })
	vrt.Quiesce()
	if !wc.Done() {
		vrt.Failf("hang/last-call", "the call to another object, issued last, is not answered while %d calls wait for a busy object", n)
	} else if ec != nil || vc != probe.EchoResult(7) {
		vrt.Failf("wrong-result/last-call", "echo(7) returned %d, %v", vc, ec)
	}
	close(w.Root.Gate)
	vrt.Quiesce()
	for i := 0; i < n; i++ {
		switch {
		case !done[i]:
			vrt.Failf("hang/pending-call", "call %d of %d simultaneous calls on one connection (handler slot %d) never returned after the busy object was released", i, n+1, i)
		case errs[i] != nil:
			vrt.Failf("call-failed/pending-call", "slow(%d) failed: %v", 100+i, errs[i])
		case res[i] != probe.EchoResult(int32(100+i)):
			vrt.Failf("wrong-result/pending-call", "slow(%d) returned %d", 100+i, res[i])
		}
	}
	checkWire("conn1", c1, nil)
	vrt.Observe("done")
}

// cancel: a call with a cancel channel racing the closing of that channel.
func cancel(action uint32, key string, payload []byte, want int32) func() {
	return func() {
		w := fx.Start(bus.Yes{})
		c1 := w.MustConnect()
		vrt.Explore()
		cancelCh := make(chan struct{})
		var res []byte
		var err error
		returned := 0
		w1 := vrt.GoWorker("caller", func() {
			res, err = c1.Client.Call(cancelCh, w.ServiceID, 1, action, payload)
			returned++
		})
		w2 := vrt.GoWorker("canceller", func() { close(cancelCh) })
		vrt.Quiesce()
		fx.Settle(w1, w2)
		n := w.Root.Calls[key]
		// one call was issued: at most one method body may run, whatever
		// arguments it ran with (a Cancel frame must never be decoded as a
		// second call of the method)
		if t := w.Root.Total(); n > 1 || t > 1 {
			vrt.Failf("cancel-executes-again", "one call of %s, cancelled: %d method bodies ran: %v", key, t, w.Root.Order)
		}
		if returned == 1 && err == nil {
			v, _ := fx.ReadInt32(res)
			if v != want {
				vrt.Failf("wrong-result/cancelled-call", "%s returned %d", key, v)
			}
			if n != 1 {
				vrt.Failf("execution-count/cancelled-call", "%s succeeded but ran %d times", key, n)
			}
		}
		if returned == 1 && err == bus.ErrCancelled {
			vrt.Flag("cancelled")
			if n >= 1 {
				vrt.Flag("cancelled-after-execution")
			}
		}
		checkWire("conn1", c1, nil)
		vrt.Observe("err=%v ran=%d", err != nil, n)
	}
}

var typeNames = map[uint8]string{0: "type-0", 1: "call", 2: "reply", 3: "error", 4: "post", 5: "event", 6: "capability", 7: "cancel", 8: "cancelled", 9: "type-9", 200: "type-200"}

// frameTypes: the eight defined message types and three undefined type bytes.
var frameTypes = []uint8{1, 2, 3, 4, 5, 6, 7, 8, 0, 9, 200}

// frames: every message type addressed to a method (and a call followed by a
// second frame with the same id), from an authenticated raw peer.
func frames() {
	w := fx.Start(bus.Yes{})
	p := w.RawPeer()
	p.StartDrain()
	if !p.Authenticate("", "") {
		vrt.Failf("harness/auth", "raw peer could not authenticate")
		return
	}
	type target struct {
		action  uint32
		payload []byte
		key     string
	}
	targets := []target{
		{102, nil, "noarg"}, {101, nil, "inc"}, {100, fx.Int32(6), "echo(6)"}, {7, nil, ""}, {999, nil, ""},
	}
	// one frame of any of the 8 types, or a call followed by a frame of any
	// type carrying the same id
	first := frameTypes[vrt.ChooseFree(len(frameTypes), "type")]
	tg := targets[vrt.ChooseFree(len(targets), "target")]
	// the object's statistics / tracing modes wrap the caller's channel
	switch vrt.ChooseFree(3, "object-mode") {
	case 1:
		p.Send(net.Call, w.ServiceID, 1, 81, p.NextID(), []byte{1})
		vrt.Quiesce()
	case 2:
		p.Send(net.Call, w.ServiceID, 1, 85, p.NextID(), []byte{1})
		vrt.Quiesce()
	}
	second := uint8(255) // 255: no second frame
	if first == net.Call {
		if k := vrt.ChooseFree(len(frameTypes)+1, "second-type"); k > 0 {
			second = frameTypes[k-1]
		}
	}
	vrt.Explore()
	id := p.NextID()
	p.Send(first, w.ServiceID, 1, tg.action, id, tg.payload)
	if second != 255 {
		p.Send(second, w.ServiceID, 1, tg.action, id, tg.payload)
	}
	vrt.Quiesce()
	fx.Settle()
	execs := 0
	if first == net.Call || first == net.Post {
		execs++
	}
	if second == net.Call || second == net.Post {
		execs++
	}
	// label: the frame type that is not a call / post (there is at most one)
	label := typeNames[first]
	if second != 255 {
		label = "call+" + typeNames[second]
	}
	odd := typeNames[first]
	if second != 255 {
		odd = typeNames[second]
	}
	undefined := first == 0 || first > 8 || (second != 255 && (second == 0 || second > 8))
	if tg.key != "" {
		got := w.Root.Calls[tg.key]
		if got > execs {
			vrt.Failf("non-call-executes/"+odd, "frames %s addressed to %s ran the method %d times (at most %d allowed)", label, tg.key, got, execs)
		}
		if first == net.Call && second == 255 && got != 1 {
			vrt.Failf("call-not-executed", "a single call of %s ran the method %d times", tg.key, got)
		}
	}
	if tg.key == "" && w.Root.Total() > 0 {
		vrt.Failf("unrelated-method-executed/"+odd, "frames %s to action %d ran %d method bodies: %v", label, tg.action, w.Root.Total(), w.Root.Order)
	}
	// answers
	nReply, nErr := 0, 0
	for _, f := range p.Got {
		if f.Hdr.ID != id {
			continue
		}
		if f.Hdr.Type == net.Reply {
			nReply++
		} else if f.Hdr.Type == net.Error {
			nErr++
		}
	}
	calls := 0
	if first == net.Call {
		calls++
	}
	if second == net.Call {
		calls++
	}
	if nReply > calls {
		vrt.Failf("non-call-answered/"+odd, "frames %s to action %d produced %d success replies for %d calls", label, tg.action, nReply, calls)
	}
	if first == net.Post && nReply+nErr > 0 {
		vrt.Failf("post-answered/"+fmt.Sprint(tg.action), "a Post frame to action %d produced %d replies and %d errors carrying its id", tg.action, nReply, nErr)
	}
	if calls == 1 && second == 255 && nReply+nErr != 1 {
		vrt.Failf("call-answer-count", "a single call to action %d got %d replies and %d errors", tg.action, nReply, nErr)
	}
	// the service is still alive (a frame with an undefined type byte is a
	// protocol error: the connection may be closed, so ask on a new one)
	if undefined {
		p = w.RawPeer()
		p.StartDrain()
		if !p.Authenticate("", "") {
			vrt.Failf("service-dead-after/"+odd, "a new connection cannot authenticate after frames %s", label)
			return
		}
	}
	id2 := p.NextID()
	p.Send(net.Call, w.ServiceID, 1, 100, id2, fx.Int32(1))
	vrt.Quiesce()
	if len(p.Replies(id2)) != 1 {
		vrt.Failf("service-dead-after/"+odd, "echo(1) got %d answers after frames %s", len(p.Replies(id2)), label)
	}
	vrt.Observe("%s->%d: reply=%d err=%d ran=%d", label, tg.action, nReply, nErr, w.Root.Total())
}

// lentTwoCallers: clients B and C call the object client A lent to the service at the
// same time: both relayed calls are waiting at A's connection when its object gets to
// them. Each caller receives its own result, each method body runs once (seed C04-19
// served every queued message in its own goroutine sharing the loop variable: the second
// call ran twice, the first never).
func lentTwoCallers() {
	w := fx.Start(bus.Yes{})
	cA, cB, cC := w.MustConnect(), w.MustConnect(), w.MustConnect()
	pA, pB, pC := cA.Probe(1), cB.Probe(1), cC.Probe(1)
	mine := probe.New("lent")
	svcA := pA.Proxy().ProxyService(cA.Session())
	lent, err := probe.CreateProbe(cA.Session(), svcA, mine)
	if err != nil {
		vrt.Failf("harness/create", "%v", err)
		return
	}
	if err := pA.Adopt(lent); err != nil {
		vrt.Failf("harness/adopt", "%v", err)
		return
	}
	oB, errB := pB.Adopted()
	oC, errC := pC.Adopted()
	if errB != nil || errC != nil {
		vrt.Failf("harness/adopted", "%v %v", errB, errC)
		return
	}
	vrt.Quiesce()
	vrt.Explore()
	var v5, v6 int32
	var e5, e6 error
	wb := vrt.GoWorker("B", func() { v5, e5 = oB.Echo(5) })
	wc := vrt.GoWorker("C", func() { v6, e6 = oC.Echo(6) })
	vrt.Quiesce()
	for _, t := range []*vrt.Thread{wb, wc} {
		if !t.Done() {
			vrt.Failf("hang/lent-object-two-callers", "the call of client %s on the object lent by client A never returned while another client called the same object; blocked on %s (the object ran echo(5) %d times, echo(6) %d times)", t.Name, t.BlockedOn(), mine.Calls["echo(5)"], mine.Calls["echo(6)"])
		}
	}
	vrt.Freeze()
	if wb.Done() && (e5 != nil || v5 != probe.EchoResult(5)) {
		vrt.Failf("wrong-result/lent-object-two-callers", "echo(5) returned %d, %v", v5, e5)
	}
	if wc.Done() && (e6 != nil || v6 != probe.EchoResult(6)) {
		vrt.Failf("wrong-result/lent-object-two-callers", "echo(6) returned %d, %v", v6, e6)
	}
	if mine.Calls["echo(5)"] > 1 || mine.Calls["echo(6)"] > 1 || (wb.Done() && wc.Done() && (mine.Calls["echo(5)"] != 1 || mine.Calls["echo(6)"] != 1)) {
		vrt.Failf("execution-count/lent-object-two-callers", "the lent object ran echo(5) %d times and echo(6) %d times", mine.Calls["echo(5)"], mine.Calls["echo(6)"])
	}
	checkWire("connA", cA, nil)
	checkWire("connB", cB, nil)
	checkWire("connC", cC, nil)
	vrt.Observe("v5=%d v6=%d", v5, v6)
}

func init() {
	reg.Register(&reg.Scenario{Property: "C04", Name: "backlog-behind-busy-object", Body: fx.Backlog(12), Quick: 1, Thorough: 2,
		Doc: "an object busy in a gated call; one connection pipelines terminate() + 12 calls (more than its mailbox holds), a second connection one more; then the gate opens"})
	reg.Register(&reg.Scenario{Property: "C04", Name: "two-callers-statement-level", Body: callers(2, true), Quick: 2, Thorough: 3,
		Doc: "as two-callers with bus/client.go interleaved at statement level (unsynchronised client state)", MustFlag: []string{"replies-crossed"}})
	reg.Register(&reg.Scenario{Property: "C04", Name: "two-callers-one-proxy", Body: callers(2, false, true), Quick: 2, Thorough: 3,
		Doc: "two goroutines call echo(5), slow(11) and echo(7) through one shared proxy object: each gets its own result, each method ran once with its own argument"})
	reg.Register(&reg.Scenario{Property: "C04", Name: "two-callers-one-proxy-statement-level", Body: callers(2, true, true), Quick: 1, Thorough: 2,
		Doc: "the same with bus/client.go and bus/proxy.go interleaved at statement level"})
	reg.Register(&reg.Scenario{Property: "C04", Name: "two-callers", Body: callers(2, false), Quick: 2, Thorough: 3,
		Doc: "2 goroutines, 2 proxies on one connection: echo(5);slow(11) || echo(7)", MustFlag: []string{"replies-crossed"}})
	reg.Register(&reg.Scenario{Property: "C04", Name: "three-callers-post", Body: callers(3, false), Quick: 2, Thorough: 3,
		Doc: "3 goroutines on 2 connections: echo(5);slow(11) || echo(7) || echo(9);post inc()", MustFlag: []string{"server-order-differs-from-default"}})
	reg.Register(&reg.Scenario{Property: "C04", Name: "failing-calls", Body: failing, Quick: 2, Thorough: 3,
		Doc: "A: echo(-7) [method error], echo(6) || B (same connection): echo(8), unknown action 999 || C (other connection): echo(-9): each caller gets its own result or its own error text", MustFlag: []string{"server-order-differs-from-default"}})
	reg.Register(&reg.Scenario{Property: "C04", Name: "limit-size-and-oversized-answers", Body: oversized, Quick: 0, Thorough: 1,
		Doc: "A: a call whose answer is exactly MaxPayloadSize bytes || B (other connection): a call whose answer is one byte larger: each gets exactly one outcome, the service keeps serving"})
	reg.Register(&reg.Scenario{Property: "C04", Name: "two-clients-one-connection", Body: twoClients, Quick: 1, Thorough: 3,
		Doc: "two client objects on one connection (equal message counters) call the same action of two objects; the later call is answered first"})
	reg.Register(&reg.Scenario{Property: "C04", Name: "lent-client-object-two-callers", Body: lentTwoCallers, Quick: 2, Thorough: 3,
		Doc: "clients B and C call the object lent by client A at the same time (both relayed calls wait at A's connection): own results, each body once, no caller left waiting"})
	reg.Register(&reg.Scenario{Property: "C04", Name: "lent-client-object", Body: lentObject, Quick: 2, Thorough: 3,
		Doc: "client A lends an object it hosts to the service (adopt); client B obtains it (adopted) and calls echo(5) and echo(-7) on it through the service's relay while A calls the service: results and errors come back to their own callers"})
	reg.Register(&reg.Scenario{Property: "C04", Name: "lent-client-object-subscribe", Body: lentSubscribe, Quick: 1, Thorough: 2,
		Doc: "client B subscribes to a signal of the object client A lent to the service (registerEvent relayed by bus.clientObject): the call gets one answer; if it succeeds, the events emitted by the host arrive once"})
	reg.Register(&reg.Scenario{Property: "C04", Name: "twelve-calls-in-flight", Body: manyPending, Quick: 0, Thorough: 1,
		Doc: "eleven calls wait for a busy object on one connection (handler slots 0..10), a twelfth call to another object is answered first; then the object is released: every call gets its own answer"})
	reg.Register(&reg.Scenario{Property: "C04", Name: "cancel-slow", Body: cancel(103, "slow(4)", fx.Int32(4), probe.EchoResult(4)), Quick: 2, Thorough: 3,
		Doc: "Call(slow(4)) with a cancel channel || close(cancel)", MustFlag: []string{"cancelled"}})
	reg.Register(&reg.Scenario{Property: "C04", Name: "cancel-noarg", Body: cancel(102, "noarg", nil, 42), Quick: 2, Thorough: 3,
		Doc: "Call(noarg()) with a cancel channel || close(cancel)", MustFlag: []string{"cancelled"}})
	reg.Register(&reg.Scenario{Property: "C04", Name: "message-types", Body: frames, Quick: 1, Thorough: 2,
		Doc: "authenticated raw peer: 8 message types x 5 targets x (alone | followed by any of 8 types with the same id) x object mode {plain, statistics, tracing}"})
}
