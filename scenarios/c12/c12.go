// Package c12 holds the engine-B scenarios of property C12: one client cannot
// stop a service from serving others.
package c12

import (
	"bytes"
	"fmt"

	"github.com/lugu/qiloop/bus"
	"github.com/lugu/qiloop/bus/net"
	"github.com/lugu/qiloop/type/basic"
	"github.com/lugu/qiloop/type/value"

	"verif/rt/vrt"
	"verif/scenarios/fx"
	"verif/scenarios/probe"
	"verif/scenarios/reg"
)

func regPayload(obj, signal uint32, handler uint64) []byte {
	var b bytes.Buffer
	basic.WriteUint32(obj, &b)
	basic.WriteUint32(signal, &b)
	basic.WriteUint64(handler, &b)
	return b.Bytes()
}

func u32(v uint32) []byte {
	var b bytes.Buffer
	basic.WriteUint32(v, &b)
	return b.Bytes()
}

func values(vs ...value.Value) []byte {
	var b bytes.Buffer
	for _, v := range vs {
		v.Write(&b)
	}
	return b.Bytes()
}

type hostile struct {
	name   string
	typ    uint8
	svc    uint32
	obj    uint32
	act    uint32
	pay    []byte
	raw    []byte // raw bytes instead of a frame
	repeat int
	close  bool
	// prelude: that many metaObject calls to the same object are written
	// first, in the same burst (the object's mailbox is busy when the
	// frames proper arrive)
	prelude int
	// mid: a frame written in the middle of the burst of repeated frames
	// (after midAt of them)
	mid   *hostile
	midAt int
	// trail: frames for the same object written right behind, in the same burst
	// (they wait in the object's mailbox behind the frame proper)
	trail []hostile
}

// childPlaceholder stands for the identifier of the second object (known
// only at run time); the payload of such a frame is that identifier.
const childPlaceholder = 0xC41D0000

// otherHandler is a signal handler id registered by a well-behaved client on
// another connection during set-up.
const otherHandler = 88

func alphabet() []hostile {
	hugeString := append([]byte{1, 0, 0, 0, 's'}, 0xff, 0xff, 0xff, 0xff)
	bigList := append([]byte{3, 0, 0, 0, '[', 'i', ']'}, 0x00, 0x00, 0x10, 0x00)
	return []hostile{
		{name: "register(77)", typ: net.Call, svc: 1, obj: 1, act: 0, pay: regPayload(1, 105, 77)},
		{name: "register(77,other-signal)", typ: net.Call, svc: 1, obj: 1, act: 0, pay: regPayload(1, 106, 77)},
		{name: "register(id-of-other-connection)", typ: net.Call, svc: 1, obj: 1, act: 0, pay: regPayload(1, 105, otherHandler)},
		{name: "register(wrong-object)", typ: net.Call, svc: 1, obj: 1, act: 0, pay: regPayload(5, 105, 78)},
		{name: "register(unknown-signal)", typ: net.Call, svc: 1, obj: 1, act: 0, pay: regPayload(1, 999, 79)},
		{name: "register(truncated)", typ: net.Call, svc: 1, obj: 1, act: 0, pay: []byte{1, 0, 0}},
		{name: "unregister(55-unknown)", typ: net.Call, svc: 1, obj: 1, act: 1, pay: regPayload(1, 105, 55)},
		{name: "unregister(77)", typ: net.Call, svc: 1, obj: 1, act: 1, pay: regPayload(1, 105, 77)},
		{name: "unregister(id-of-other-connection)", typ: net.Call, svc: 1, obj: 1, act: 1, pay: regPayload(1, 105, otherHandler)},
		{name: "metaObject(wrong-object)", typ: net.Call, svc: 1, obj: 1, act: 2, pay: u32(5)},
		{name: "terminate(wrong-object)", typ: net.Call, svc: 1, obj: 1, act: 3, pay: u32(5)},
		{name: "unknown-action", typ: net.Call, svc: 1, obj: 1, act: 999},
		{name: "enableStats(true)", typ: net.Call, svc: 1, obj: 1, act: 81, pay: []byte{1}},
		{name: "enableTrace(true)", typ: net.Call, svc: 1, obj: 1, act: 85, pay: []byte{1}},
		{name: "stats()", typ: net.Call, svc: 1, obj: 1, act: 82},
		{name: "register(trace-signal,90)", typ: net.Call, svc: 1, obj: 1, act: 0, pay: regPayload(1, 0x56, 90)},
		{name: "register(trace-signal,91)", typ: net.Call, svc: 1, obj: 1, act: 0, pay: regPayload(1, 0x56, 91)},
		{name: "clearStats()", typ: net.Call, svc: 1, obj: 1, act: 83},
		{name: "echo(truncated)", typ: net.Call, svc: 1, obj: 1, act: 100, pay: []byte{1, 2}},
		{name: "echo(garbage)", typ: net.Call, svc: 1, obj: 1, act: 100, pay: bytes.Repeat([]byte{0xfe}, 64)},
		{name: "setProperty(malformed)", typ: net.Call, svc: 1, obj: 1, act: 6, pay: []byte{9, 0, 0, 0, 'x'}},
		{name: "setProperty(huge-string-length)", typ: net.Call, svc: 1, obj: 1, act: 6, pay: append(values(value.String("level")), hugeString...)},
		{name: "setProperty(list-count-1M)", typ: net.Call, svc: 1, obj: 1, act: 6, pay: append(values(value.String("level")), bigList...)},
		{name: "setProperty(level,string)", typ: net.Call, svc: 1, obj: 1, act: 6, pay: values(value.String("level"), value.String("abc"))},
		{name: "setProperty(unknown,int)", typ: net.Call, svc: 1, obj: 1, act: 6, pay: values(value.String("nope"), value.Int(1))},
		{name: "property(malformed)", typ: net.Call, svc: 1, obj: 1, act: 5, pay: []byte{1, 0, 0, 0, 'i', 1}},
		{name: "property(unknown)", typ: net.Call, svc: 1, obj: 1, act: 5, pay: values(value.String("nope"))},
		{name: "post-echo(3)", typ: net.Post, svc: 1, obj: 1, act: 100, pay: fx.Int32(3)},
		{name: "post-unknown-action", typ: net.Post, svc: 1, obj: 1, act: 999},
		{name: "post-register(77)", typ: net.Post, svc: 1, obj: 1, act: 0, pay: regPayload(1, 105, 77)},
		{name: "authenticate(count=16M)", typ: net.Call, svc: 0, obj: 0, act: 8, pay: []byte{0, 0, 0, 1}},
		{name: "authenticate(count=2^31-1)", typ: net.Call, svc: 0, obj: 0, act: 8, pay: []byte{0xff, 0xff, 0xff, 0x7f}},
		{name: "unknown-object", typ: net.Call, svc: 1, obj: 999, act: 100, pay: fx.Int32(1)},
		{name: "unknown-service", typ: net.Call, svc: 9, obj: 1, act: 100, pay: fx.Int32(1)},
		{name: "12-calls-unread", typ: net.Call, svc: 1, obj: 1, act: 100, pay: fx.Int32(2), repeat: 12},
		{name: "45-posts-with-a-register-among-them", typ: net.Post, svc: 1, obj: 1, act: 100, pay: fx.Int32(2), repeat: 44,
			mid: &hostile{typ: net.Call, svc: 1, obj: 1, act: 0, pay: regPayload(1, 105, 79)}, midAt: 14},
		{name: "45-events-and-replies", typ: net.Event, svc: 1, obj: 1, act: 105, pay: fx.Int32(2), repeat: 44,
			mid: &hostile{typ: net.Reply, svc: 1, obj: 1, act: 100, pay: fx.Int32(1)}, midAt: 20},
		{name: "terminate(second-object)x2", typ: net.Call, svc: 1, obj: childPlaceholder, act: 3, repeat: 1},
		{name: "6-calls+terminate(second-object)x2", typ: net.Call, svc: 1, obj: childPlaceholder, act: 3, repeat: 1, prelude: 6},
		{name: "4-calls+terminate(second-object)+requests-behind-it", typ: net.Call, svc: 1, obj: childPlaceholder, act: 3, prelude: 4, trail: []hostile{
			{typ: net.Call, act: 6, pay: values(value.String("level"), value.Int(5))},
			{typ: net.Call, act: 5, pay: values(value.String("level"))},
			{typ: net.Call, act: 100, pay: fx.Int32(1)},
			{typ: net.Call, act: 81, pay: []byte{1}},
			{typ: net.Call, act: 82},
			{typ: net.Post, act: 6, pay: values(value.String("level"), value.Int(6))},
			{typ: net.Call, act: 2},
		}},
		{name: "half-frame-then-close", raw: []byte{0x42, 0xde, 0xad, 0x42, 1, 0, 0, 0, 40, 0, 0}, close: true},
		{name: "close", close: true},
	}
}

// body: a hostile authenticated peer sends up to n frames of the alphabet;
// then a fresh client must still be served by every object.
func body(n int, bounded bool, custom ...func() []hostile) func() {
	return func() {
		w := fx.Start(bus.Yes{})
		// a well-behaved client creates a second object and a subscription
		good := w.MustConnect()
		child, err := good.Probe(1).Spawn()
		if err != nil {
			vrt.Failf("harness/spawn", "%v", err)
			return
		}
		childID := child.Proxy().ObjectID()
		if _, err := good.Client.Call(nil, w.ServiceID, 1, 0, regPayload(1, 105, otherHandler)); err != nil {
			vrt.Failf("harness/register", "%v", err)
			return
		}
		h := w.RawPeer()
		// authenticate by hand, reading exactly one reply
		h.Send(net.Call, 0, 0, 8, h.NextID(), fx.CapPayload(bus.ClientCap("", "")))
		var m net.Message
		if err := m.Read(h.Raw); err != nil {
			vrt.Failf("harness/auth", "%v", err)
			return
		}
		if bounded {
			// finite socket buffer towards a peer that never reads
			h.Raw.Peer().Cap = 160
		} else {
			h.StartDrain()
		}
		abc := alphabet()
		if len(custom) > 0 {
			abc = custom[0]()
		}
		var seq []hostile
		for i := 0; i < n; i++ {
			k := vrt.ChooseFree(len(abc)+1, "frame")
			if k == len(abc) {
				break
			}
			seq = append(seq, abc[k])
			if abc[k].close {
				break
			}
		}
		disconnect := vrt.ChooseFree(2, "abrupt-disconnect") == 1
		vrt.Explore()
		names := ""
		childNamed := false // the hostile client asked for the removal of the second object
		for _, f := range seq {
			names += f.name + ";"
			if f.raw != nil {
				h.SendRaw(f.raw)
			} else if f.typ != 0 {
				obj, pay := f.obj, f.pay
				if obj == childPlaceholder {
					obj, pay = childID, u32(childID)
					childNamed = true
				}
				for r := 0; r < f.prelude; r++ {
					h.Send(net.Call, f.svc, obj, 2, h.NextID(), u32(obj))
				}
				for r := 0; r <= f.repeat; r++ {
					if f.mid != nil && r == f.midAt {
						h.Send(f.mid.typ, f.mid.svc, f.mid.obj, f.mid.act, h.NextID(), f.mid.pay)
					}
					if h.Send(f.typ, f.svc, obj, f.act, h.NextID(), pay) != nil {
						break
					}
				}
				for _, t := range f.trail {
					tp := t.pay
					if t.act == 2 {
						tp = u32(obj)
					}
					if h.Send(t.typ, f.svc, obj, t.act, h.NextID(), tp) != nil {
						break
					}
				}
			}
			if f.close {
				h.Raw.Close()
			}
			vrt.Quiesce()
		}
		if disconnect {
			h.Raw.Close()
			vrt.Quiesce()
		}
		// a fresh client must be served by every object
		okRoot, okChild, okGood := false, false, false
		pw := vrt.GoWorker("probe-client", func() {
			c, err := w.Connect("", "")
			if err != nil {
				vrt.Failf("probe-connect-failed", "a fresh client cannot connect after [%s]: %v", names, err)
				return
			}
			okRoot = fullService(c.Probe(1), 21)
			if childNamed {
				return // the hostile client named the second object for removal: it may be gone
			}
			okChild = fullService(c.Probe(childID), 22)
		})
		gw := vrt.GoWorker("good-client", func() {
			if v, err := good.Probe(1).Echo(23); err == nil && v == probe.EchoResult(23) {
				okGood = true
			}
		})
		vrt.Quiesce()
		model := "unbounded"
		if bounded {
			model = "bounded"
		}
		// one symptom per execution, most specific first; the fingerprint
		// names the multiset of hostile frames (vcheck keeps only the minimal
		// failing multisets)
		set := "{" + multiset(seq) + "}"
		// a library thread blocked writing to the hostile peer's connection:
		// the slow-consumer stall, whatever frames filled the buffer
		stalled := ""
		for _, b := range vrt.Snapshot() {
			if b.Kind == vrt.KIO && b.Label == "write "+h.Raw.Peer().Name() {
				stalled = b.Thread
			}
		}
		served := pw.Done() && gw.Done() && okRoot && (okChild || childNamed) && okGood
		switch lws := vrt.LockWaiters(); {
		case stalled != "" && !served:
			vrt.Failf("=slow-consumer-stall", "thread %s is blocked writing to the hostile peer, which never reads (finite send buffer), after [%s]; fresh client served: %v, established client served: %v", stalled, names, pw.Done() && okRoot && okChild, gw.Done() && okGood)
		case len(lws) > 0 && !served:
			vrt.Failf("=deadlock/"+set, "thread %s blocked on %s at quiescence after hostile frames [%s] disconnect=%v (%s buffers); fresh client served: %v", lws[0].Thread, lws[0].Label, names, disconnect, model, pw.Done())
		case !pw.Done():
			vrt.Failf("=fresh-client-not-served/"+set, "a fresh client is not served after hostile frames [%s] disconnect=%v (%s buffers): blocked on %s", names, disconnect, model, pw.BlockedOn())
		case !gw.Done():
			vrt.Failf("=established-client-not-served/"+set, "an established client is not served after [%s] (%s buffers): blocked on %s", names, model, gw.BlockedOn())
		case !okRoot:
			vrt.Failf("=service-object-dead/"+set, "echo on the service object fails after [%s] (%s buffers)", names, model)
		case !okChild && !childNamed:
			vrt.Failf("=second-object-dead/"+set, "echo on the second object fails after [%s] (%s buffers)", names, model)
		case !okGood:
			vrt.Failf("=established-client-refused/"+set, "an established client gets an error after [%s] (%s buffers)", names, model)
		case w.Root.Terminated > 0:
			vrt.Failf("=object-terminated/"+set, "the service object was terminated by [%s]", names)
		}
		if served && len(vrt.LockWaiters()) > 0 {
			// everybody is served although a goroutine is stuck on a mutex for
			// good (a leak, e.g. the closer of a connection that is gone): the
			// statement speaks of the service to other clients - recorded, not judged
			vrt.Flag("goroutine-stuck-on-a-mutex-while-everybody-is-served")
		}
		vrt.Observe("%s|%s|disc=%v|root=%v child=%v good=%v", model, names, disconnect, okRoot, okChild, okGood)
	}
}

// fullService: what "the object keeps answering" means for a probe client - a
// call, a subscription (the object's registration tables), a property write
// and read (its property tables and the emission to subscribers), the end of
// the subscription. A lock that a hostile sequence left held, or a goroutine
// stuck while holding one, shows as one of these not returning.
func fullService(p probe.ProbeProxy, arg int32) bool {
	if v, err := p.Echo(arg); err != nil || v != probe.EchoResult(arg) {
		return false
	}
	cancel, ch, err := p.SubscribeTick()
	if err != nil {
		return false
	}
	vrt.GoNamed("probe-drain", func() {
		for range ch {
		}
	})
	if err := p.SetLevel(arg); err != nil {
		return false
	}
	if v, err := p.GetLevel(); err != nil || v != arg {
		return false
	}
	cancel()
	return true
}

// vanishing: requests that make the server act on the hostile client's own
// connection state (registrations, their removal, statistics, a burst of
// calls, removal of an object it follows), sent back to back and followed at
// once by the loss of the connection: the server tears the connection down
// while the object's mailbox goroutine still works on the requests.
func vanishing() []hostile {
	return []hostile{
		{name: "register(77)", typ: net.Call, svc: 1, obj: 1, act: 0, pay: regPayload(1, 105, 77)},
		{name: "unregister(77)", typ: net.Call, svc: 1, obj: 1, act: 1, pay: regPayload(1, 105, 77)},
		{name: "register(77,other-signal)", typ: net.Call, svc: 1, obj: 1, act: 0, pay: regPayload(1, 106, 77)},
		{name: "register(second-object,80)", typ: net.Call, svc: 1, obj: childPlaceholder, act: 0, pay: nil},
		{name: "terminate(second-object)", typ: net.Call, svc: 1, obj: childPlaceholder, act: 3},
		{name: "enableStats(true)", typ: net.Call, svc: 1, obj: 1, act: 81, pay: []byte{1}},
		{name: "echo(2)x3", typ: net.Call, svc: 1, obj: 1, act: 100, pay: fx.Int32(2), repeat: 2},
		{name: "setProperty(level,7)", typ: net.Call, svc: 1, obj: 1, act: 6, pay: values(value.String("level"), value.Int(7))},
	}
}

// vanish: the hostile client first registers two subscriptions (and waits for
// them), then sends up to n frames of the vanishing menu in one burst and
// drops the connection at once - no quiescence in between, so the teardown of
// the connection races the requests (deviation-bounded schedules).
func vanish(n int) func() {
	return func() {
		w := fx.Start(bus.Yes{})
		good := w.MustConnect()
		child, err := good.Probe(1).Spawn()
		if err != nil {
			vrt.Failf("harness/spawn", "%v", err)
			return
		}
		childID := child.Proxy().ObjectID()
		if _, err := good.Client.Call(nil, w.ServiceID, 1, 0, regPayload(1, 105, otherHandler)); err != nil {
			vrt.Failf("harness/register", "%v", err)
			return
		}
		h := w.RawPeer()
		h.StartDrain()
		if !h.Authenticate("", "") {
			vrt.Failf("harness/auth", "raw peer could not authenticate")
			return
		}
		// live subscriptions of the hostile client: tick (105) with handler
		// 77 and the level property with handler 76
		h.Send(net.Call, 1, 1, 0, h.NextID(), regPayload(1, 105, 77))
		h.Send(net.Call, 1, 1, 0, h.NextID(), regPayload(1, 106, 76))
		vrt.Quiesce()
		abc := vanishing()
		var seq []hostile
		for i := 0; i < n; i++ {
			k := vrt.ChooseFree(len(abc)+1, "frame")
			if k == len(abc) {
				break
			}
			seq = append(seq, abc[k])
		}
		vrt.Explore()
		names := ""
		childNamed := false
		for _, f := range seq {
			names += f.name + ";"
			obj, pay := f.obj, f.pay
			if obj == childPlaceholder {
				obj = childID
				if f.act == 3 {
					pay = u32(childID)
					childNamed = true
				} else {
					pay = regPayload(childID, 105, 80)
				}
			}
			for r := 0; r <= f.repeat; r++ {
				h.Send(f.typ, f.svc, obj, f.act, h.NextID(), pay)
			}
		}
		h.Raw.Close()
		vrt.Quiesce()
		// the race under test is over: the probes run on the default schedule
		vrt.Freeze()
		okRoot, okChild, okGood := false, false, false
		pw := vrt.GoWorker("probe-client", func() {
			c, err := w.Connect("", "")
			if err != nil {
				vrt.Failf("probe-connect-failed", "a fresh client cannot connect after [%s]: %v", names, err)
				return
			}
			okRoot = fullService(c.Probe(1), 21)
			if childNamed {
				return
			}
			okChild = fullService(c.Probe(childID), 22)
		})
		gw := vrt.GoWorker("good-client", func() {
			if v, err := good.Probe(1).Echo(23); err == nil && v == probe.EchoResult(23) {
				okGood = true
			}
		})
		vrt.Quiesce()
		set := "{" + multiset(seq) + "}"
		served := pw.Done() && gw.Done() && okRoot && (okChild || childNamed) && okGood
		switch lws := vrt.LockWaiters(); {
		case len(lws) > 0 && !served:
			vrt.Failf("=deadlock/"+set, "thread %s blocked on %s at quiescence after the hostile client sent [%s] and vanished; fresh client served: %v", lws[0].Thread, lws[0].Label, names, pw.Done())
		case !pw.Done():
			vrt.Failf("=fresh-client-not-served/"+set, "a fresh client is not served after the hostile client sent [%s] and vanished: blocked on %s", names, pw.BlockedOn())
		case !gw.Done():
			vrt.Failf("=established-client-not-served/"+set, "an established client is not served after [%s] and the loss of that connection: blocked on %s", names, gw.BlockedOn())
		case !okRoot:
			vrt.Failf("=service-object-dead/"+set, "echo on the service object fails after [%s]", names)
		case !okChild && !childNamed:
			vrt.Failf("=second-object-dead/"+set, "echo on the second object fails after [%s]", names)
		case !okGood:
			vrt.Failf("=established-client-refused/"+set, "an established client gets an error after [%s]", names)
		case w.Root.Terminated > 0:
			vrt.Failf("=object-terminated/"+set, "the service object was terminated by [%s]", names)
		}
		if served && len(vrt.LockWaiters()) > 0 {
			vrt.Flag("goroutine-stuck-on-a-mutex-while-everybody-is-served")
		}
		vrt.Observe("vanish|%s|root=%v child=%v good=%v", names, okRoot, okChild, okGood)
	}
}

// tracedVanish: tracing is on, one connection holds two subscriptions to the trace
// signal (made while tracing was on: notifying them is itself traced), another
// connection holds a subscription and is dropped abruptly while an established client's
// call is being traced. Afterwards every client is still served (seed C12-20 sent the
// events under the read lock of the subscriber list: the nested notification takes the
// read lock again behind the writer the disconnection queued).
func tracedVanish() {
	w := fx.Start(bus.Yes{})
	good := w.MustConnect()
	pg := good.Probe(1)
	if _, err := good.Client.Call(nil, w.ServiceID, 1, 85, []byte{1}); err != nil {
		vrt.Failf("harness/enable-trace", "%v", err)
		return
	}
	h := w.RawPeer()
	h.StartDrain()
	if !h.Authenticate("", "") {
		vrt.Failf("harness/auth", "raw peer could not authenticate")
		return
	}
	// the two subscriptions of one connection: to tick (every notification of a traced
	// subscriber emits a trace event in turn) or to the trace signal itself
	twice := []uint32{105, 0x56}[vrt.ChooseFree(2, "signal followed twice by one connection")]
	h.Send(net.Call, 1, 1, 0, h.NextID(), regPayload(1, twice, 90))
	h.Send(net.Call, 1, 1, 0, h.NextID(), regPayload(1, twice, 91))
	v := w.RawPeer()
	v.StartDrain()
	if !v.Authenticate("", "") {
		vrt.Failf("harness/auth", "raw peer could not authenticate")
		return
	}
	which := []uint32{0x56, 105}[vrt.ChooseFree(2, "signal the vanishing client follows")]
	v.Send(net.Call, 1, 1, 0, v.NextID(), regPayload(1, which, 92))
	vrt.Quiesce()
	vrt.Explore()
	we := vrt.GoWorker("emitter", func() { w.Root.Helper.SignalTick(7) })
	wv := vrt.GoWorker("vanisher", func() { v.Raw.Close() })
	vrt.Quiesce()
	fx.Settle(wv)
	// the race under test is over: the probes run on the default schedule
	vrt.Freeze()
	if !we.Done() {
		vrt.Failf("=deadlock/traced-subscribers", "the service's own emission of tick never returned (blocked on %s): tracing on, two traced subscriptions of one connection to signal %d, a subscriber of signal %d vanished meanwhile", we.BlockedOn(), twice, which)
		return
	}
	okCall := false
	wc := vrt.GoWorker("caller", func() {
		if r, err := pg.Echo(23); err == nil && r == probe.EchoResult(23) {
			okCall = true
		}
	})
	okRoot := false
	pw := vrt.GoWorker("probe-client", func() {
		c, err := w.Connect("", "")
		if err != nil {
			vrt.Failf("probe-connect-failed", "a fresh client cannot connect after a traced subscriber vanished: %v", err)
			return
		}
		okRoot = fullService(c.Probe(1), 21)
	})
	vrt.Quiesce()
	served := wc.Done() && pw.Done() && okCall && okRoot
	switch lws := vrt.LockWaiters(); {
	case len(lws) > 0 && !served:
		vrt.Failf("=deadlock/traced-subscribers", "thread %s blocked on %s at quiescence: tracing on, two traced subscriptions of one connection to signal %d, a subscriber of signal %d vanished while tick was emitted and a call was traced; emitter and established caller returned: %v, fresh client served: %v", lws[0].Thread, lws[0].Label, twice, which, wc.Done(), pw.Done())
	case !wc.Done():
		vrt.Failf("=established-client-not-served/traced-subscribers", "the call of an established client does not return: blocked on %s", wc.BlockedOn())
	case !pw.Done():
		vrt.Failf("=fresh-client-not-served/traced-subscribers", "a fresh client is not served: blocked on %s", pw.BlockedOn())
	case !okCall:
		vrt.Failf("=established-client-refused/traced-subscribers", "the call of the established client failed")
	case !okRoot:
		vrt.Failf("=service-object-dead/traced-subscribers", "the service object does not serve a fresh client")
	}
	vrt.Observe("traced-vanish signal=%d call=%v root=%v", which, okCall, okRoot)
}

// truncations: every well-formed request of a base list with its payload cut
// at every length (the frame itself is complete: header size = bytes sent).
func truncations() []hostile {
	type base struct {
		name string
		act  uint32
		pay  []byte
	}
	bases := []base{
		{"register", 0, regPayload(1, 105, 77)},
		{"unregister", 1, regPayload(1, 105, 88)},
		{"metaObject", 2, u32(1)},
		{"property", 5, values(value.String("level"))},
		{"setProperty", 6, values(value.String("level"), value.Int(3))},
		{"properties", 7, nil},
		{"registerEventWithSignature", 8, append(regPayload(1, 105, 79), 1, 0, 0, 0, 'i')},
		{"enableStats", 81, []byte{1}},
		{"enableTrace", 85, []byte{1}},
		{"echo", 100, fx.Int32(3)},
		{"slow", 103, fx.Int32(2)},
		{"blob", 120, fx.Int32(4)},
	}
	var out []hostile
	for _, b := range bases {
		for k := 0; k <= len(b.pay); k++ {
			out = append(out, hostile{name: fmt.Sprintf("%s[:%d/%d]", b.name, k, len(b.pay)), typ: net.Call, svc: 1, obj: 1, act: b.act, pay: b.pay[:k]})
			if k < len(b.pay) {
				out = append(out, hostile{name: fmt.Sprintf("post-%s[:%d/%d]", b.name, k, len(b.pay)), typ: net.Post, svc: 1, obj: 1, act: b.act, pay: b.pay[:k]})
			}
		}
	}
	return out
}

// multiset renders the sorted multiset of frame names.
func multiset(seq []hostile) string {
	var names []string
	for _, f := range seq {
		names = append(names, f.name)
	}
	for i := range names {
		for j := i + 1; j < len(names); j++ {
			if names[j] < names[i] {
				names[i], names[j] = names[j], names[i]
			}
		}
	}
	s := ""
	for i, x := range names {
		if i > 0 {
			s += "+"
		}
		s += x
	}
	return s
}

// cuts: a valid frame is cut at every byte position and the connection is
// closed (or left open and silent); everybody else must still be served.
func cuts() {
	w := fx.Start(bus.Yes{})
	good := w.MustConnect()
	child, err := good.Probe(1).Spawn()
	if err != nil {
		vrt.Failf("harness/spawn", "%v", err)
		return
	}
	childID := child.Proxy().ObjectID()
	h := w.RawPeer()
	h.StartDrain()
	if !h.Authenticate("", "") {
		vrt.Failf("harness/auth", "raw peer could not authenticate")
		return
	}
	frames := []hostile{
		{name: "register(77)", typ: net.Call, svc: 1, obj: 1, act: 0, pay: regPayload(1, 105, 77)},
		{name: "echo(5)", typ: net.Call, svc: 1, obj: 1, act: 100, pay: fx.Int32(5)},
		{name: "setProperty(level,7)", typ: net.Call, svc: 1, obj: 1, act: 6, pay: values(value.String("level"), value.Int(7))},
	}
	f := frames[vrt.ChooseFree(len(frames), "frame")]
	var buf bytes.Buffer
	m := net.NewMessage(net.NewHeader(f.typ, f.svc, f.obj, f.act, h.NextID()), f.pay)
	m.Write(&buf)
	// a complete frame first (so that a registration exists), then the cut one
	h.SendRaw(buf.Bytes())
	cut := vrt.ChooseFree(buf.Len(), "cut-position")
	closeAfter := vrt.ChooseFree(2, "close-after-cut") == 1
	vrt.Explore()
	m2 := net.NewMessage(net.NewHeader(f.typ, f.svc, f.obj, f.act, h.NextID()), f.pay)
	var buf2 bytes.Buffer
	m2.Write(&buf2)
	h.SendRaw(buf2.Bytes()[:cut])
	vrt.Quiesce()
	if closeAfter {
		h.Raw.Close()
		vrt.Quiesce()
	}
	okRoot, okChild, okGood := false, false, false
	pw := vrt.GoWorker("probe-client", func() {
		c, err := w.Connect("", "")
		if err != nil {
			return
		}
		okRoot = fullService(c.Probe(1), 21)
		okChild = fullService(c.Probe(childID), 22)
	})
	gw := vrt.GoWorker("good-client", func() {
		if v, err := good.Probe(1).Echo(23); err == nil && v == probe.EchoResult(23) {
			okGood = true
		}
	})
	vrt.Quiesce()
	what := fmt.Sprintf("%s cut after %d of %d bytes, close=%v", f.name, cut, buf2.Len(), closeAfter)
	switch lws := vrt.LockWaiters(); {
	case len(lws) > 0 && !(pw.Done() && gw.Done() && okRoot && okChild && okGood):
		vrt.Failf("deadlock/cut-frame/"+f.name, "thread %s blocked on %s after %s", lws[0].Thread, lws[0].Label, what)
	case !pw.Done() || !gw.Done():
		vrt.Failf("client-not-served/cut-frame/"+f.name, "a client is not served after %s", what)
	case !okRoot || !okChild || !okGood:
		vrt.Failf("object-dead/cut-frame/"+f.name, "root=%v child=%v established=%v after %s", okRoot, okChild, okGood, what)
	}
	if cut == 0 {
		vrt.Flag("nothing-sent")
	} else if cut < 28 {
		vrt.Flag("cut-in-header")
	} else {
		vrt.Flag("cut-in-payload")
	}
	vrt.Observe("%s", what)
}

func init() {
	reg.Register(&reg.Scenario{Property: "C12", Name: "backlog-behind-busy-object", Body: fx.Backlog(12), Quick: 1, Thorough: 2,
		Doc: "an object busy in a gated call; one connection pipelines terminate() + 12 calls (more than its mailbox holds), a second connection one more; then the gate opens"})
	reg.Register(&reg.Scenario{Property: "C12", Name: "traced-subscribers-one-vanishes", Body: tracedVanish, Quick: 2, Thorough: 3, MaxSteps: 60000, StepLimitFails: true,
		Doc: "tracing on, one connection holds two subscriptions to the trace signal, another connection holding a subscription (trace signal or tick) is dropped while an established client's call is traced: the caller, and then a fresh client, are served"})
	reg.Register(&reg.Scenario{Property: "C12", Name: "vanishing-client-1", Body: vanish(1), Quick: 2, Thorough: 3, MaxSteps: 60000, StepLimitFails: true,
		Doc: "a hostile client with two live subscriptions sends one request of a menu of 8 (unregister, register, terminate of an object it follows, statistics, calls, a property write) and drops the connection at once: the teardown of the connection races the request; afterwards a fresh and an established client are served by every object"})
	reg.Register(&reg.Scenario{Property: "C12", Name: "vanishing-client-2", Body: vanish(2), Quick: 1, Thorough: 2, MaxSteps: 60000, StepLimitFails: true,
		Doc: "same with bursts of two requests"})
	reg.Register(&reg.Scenario{Property: "C12", Name: "cut-frames", Body: cuts, Quick: 0, Thorough: 1,
		Doc: "an authenticated peer sends a complete frame, then the same frame cut at every byte position, and closes or stays silent; then a fresh and an established client call every object", MustFlag: []string{"cut-in-header", "cut-in-payload"}})
	reg.Register(&reg.Scenario{Property: "C12", Name: "truncated-payloads", Body: body(1, false, truncations), Quick: 0, Thorough: 1, MaxSteps: 60000, StepLimitFails: true,
		Doc: "every request of a 12-request base list (register, unregister, metaObject, property, setProperty, ..., echo, slow, blob) as a call and as a post with its payload cut at every length (complete frames): afterwards every object still serves a fresh and an established client"})
	reg.Register(&reg.Scenario{Property: "C12", Name: "hostile-2-unbounded", Body: body(2, false), Quick: 0, Thorough: 1, MaxSteps: 60000, StepLimitFails: true,
		Doc: "authenticated hostile peer: all sequences of <=2 frames of a 35-frame alphabet x abrupt disconnect, unbounded buffers; then a fresh and an established client call every object"})
	reg.Register(&reg.Scenario{Property: "C12", Name: "hostile-2-bounded", Body: body(2, true), Quick: 0, Thorough: 1, MaxSteps: 60000, StepLimitFails: true,
		Doc: "same with a finite send buffer towards a hostile peer that never reads"})
	reg.Register(&reg.Scenario{Property: "C12", Name: "hostile-3-unbounded", Body: body(3, false), Quick: -1, Thorough: 0, MaxSteps: 60000, StepLimitFails: true,
		Doc: "all sequences of <=3 hostile frames, unbounded buffers"})
}
