package c12

import (
	"crypto/tls"
	"sort"
	"strings"

	"github.com/lugu/qiloop/bus"
	"github.com/lugu/qiloop/bus/net"

	"verif/rt/vnet"
	"verif/rt/vrt"
	"verif/scenarios/fx"
	"verif/scenarios/probe"
	"verif/scenarios/reg"
)

// The server listens on tcps://: the repository's own listener and dialler
// (bus/net listenTLS / dialTLS) with the real crypto/tls running over the
// in-memory network (rt/vtls). One peer misbehaves at the transport level -
// before, during or right after the handshake; the service must go on serving
// a client that was connected before and a client that connects afterwards.

type tlsHostile struct {
	name string
	act  func(raw *vnet.MemConn)
}

func tlsBehaviours() []tlsHostile {
	plain := func() []byte {
		m := net.NewMessage(net.NewHeader(net.Call, 0, 0, 8, 1), fx.CapPayload(bus.ClientCap("", "")))
		b, w := []byte{}, &sliceWriter{}
		m.Write(w)
		return append(b, w.b...)
	}
	return []tlsHostile{
		{"connects-and-says-nothing", func(raw *vnet.MemConn) {}},
		{"connects-and-leaves", func(raw *vnet.MemConn) { raw.Close() }},
		{"half-a-record-header", func(raw *vnet.MemConn) { raw.Write([]byte{0x16, 0x03, 0x01}) }},
		{"record-header-announcing-more", func(raw *vnet.MemConn) { raw.Write([]byte{0x16, 0x03, 0x01, 0x00, 0x64, 0x01, 0x00}) }},
		{"record-header-then-leaves", func(raw *vnet.MemConn) { raw.Write([]byte{0x16, 0x03, 0x01, 0x00, 0x64, 0x01}); raw.Close() }},
		{"plaintext-frame", func(raw *vnet.MemConn) { raw.Write(plain()) }},
		{"plaintext-frame-then-leaves", func(raw *vnet.MemConn) { raw.Write(plain()); raw.Close() }},
		{"garbage", func(raw *vnet.MemConn) { raw.Write([]byte{0xff, 0xff, 0xff, 0xff, 0xff, 0xff, 0xff, 0xff}) }},
		{"alert-record", func(raw *vnet.MemConn) { raw.Write([]byte{0x15, 0x03, 0x01, 0x00, 0x02, 0x02, 0x28}) }},
		{"handshake-then-silence", func(raw *vnet.MemConn) {
			c := tls.Client(raw, &tls.Config{InsecureSkipVerify: true})
			if err := c.Handshake(); err != nil {
				vrt.Failf("harness/hostile-handshake", "%v", err)
			}
		}},
		{"handshake-then-garbage-record", func(raw *vnet.MemConn) {
			c := tls.Client(raw, &tls.Config{InsecureSkipVerify: true})
			if err := c.Handshake(); err != nil {
				vrt.Failf("harness/hostile-handshake", "%v", err)
			}
			// bytes written below the TLS layer: a record that does not authenticate
			raw.Write([]byte{0x17, 0x03, 0x03, 0x00, 0x05, 1, 2, 3, 4, 5})
		}},
		{"handshake-then-leaves-without-notify", func(raw *vnet.MemConn) {
			c := tls.Client(raw, &tls.Config{InsecureSkipVerify: true})
			if err := c.Handshake(); err != nil {
				vrt.Failf("harness/hostile-handshake", "%v", err)
			}
			raw.Close()
		}},
	}
}

func tlsSet(seq []tlsHostile) string {
	var names []string
	for _, h := range seq {
		names = append(names, h.name)
	}
	sort.Strings(names)
	return "{" + strings.Join(names, "+") + "}"
}

type sliceWriter struct{ b []byte }

func (w *sliceWriter) Write(p []byte) (int, error) { w.b = append(w.b, p...); return len(p), nil }

func tlsConnect(w *fx.World) (*fx.Conn, error) {
	ep, err := net.DialEndPoint("tcps://" + w.Host)
	if err != nil {
		return nil, err
	}
	ch := bus.NewChannel(ep, bus.ClientCap("", ""))
	if err := ch.Authenticate(); err != nil {
		return nil, err
	}
	return &fx.Conn{EP: ep, Client: bus.NewClient(ch), W: w}, nil
}

func tlsListener(n int) func() {
	return func() {
		w := &fx.World{Host: "tsrv", Root: probe.New("root")}
		l, err := net.Listen("tcps://" + w.Host)
		if err != nil {
			vrt.Failf("harness/listen", "%v", err)
			return
		}
		w.Srv, err = bus.StandAloneServer(l, bus.Yes{}, bus.PrivateNamespace())
		if err != nil {
			vrt.Failf("harness/server", "%v", err)
			return
		}
		w.Actor = probe.ProbeObject(w.Root)
		w.Service, err = w.Srv.NewService("Probe", w.Actor)
		if err != nil {
			vrt.Failf("harness/service", "%v", err)
			return
		}
		w.ServiceID = w.Service.ServiceID()
		est, err := tlsConnect(w)
		if err != nil {
			vrt.Failf("harness/established-client", "%v", err)
			return
		}
		estProxy := est.Probe(1)
		if v, err := estProxy.Echo(3); err != nil || v != probe.EchoResult(3) {
			vrt.Failf("harness/established-client-call", "%v %v", v, err)
			return
		}
		abc := tlsBehaviours()
		var seq []tlsHostile
		for i := 0; i < n; i++ {
			k := vrt.ChooseFree(len(abc)+1, "behaviour")
			if k == len(abc) {
				break
			}
			seq = append(seq, abc[k])
		}
		vrt.Explore()
		names := ""
		for _, h := range seq {
			names += h.name + ";"
			raw, err := vnet.DialMem("tcp", w.Host)
			if err != nil {
				vrt.Failf("=tls/listener-gone/"+tlsSet(seq[:len(strings.Split(names, ";"))-1]), "the listener refuses connections after [%s]: %v", names, err)
				return
			}
			h.act(raw)
			vrt.Quiesce()
		}
		freshOK, estOK := false, false
		freshErr, estErr := "", ""
		fw := vrt.GoWorker("fresh-client", func() {
			c, err := tlsConnect(w)
			if err != nil {
				freshErr = err.Error()
				return
			}
			v, err := c.Probe(1).Echo(5)
			if err != nil {
				freshErr = err.Error()
				return
			}
			freshOK = v == probe.EchoResult(5)
		})
		ew := vrt.GoWorker("established-client", func() {
			v, err := estProxy.Echo(7)
			if err != nil {
				estErr = err.Error()
				return
			}
			estOK = v == probe.EchoResult(7)
		})
		vrt.Quiesce()
		switch lws := vrt.LockWaiters(); {
		case len(lws) > 0:
			vrt.Failf("=tls/deadlock/"+tlsSet(seq), "thread %s blocked on %s at quiescence after [%s]", lws[0].Thread, lws[0].Label, names)
		case !ew.Done():
			vrt.Failf("=tls/established-client-not-served/"+tlsSet(seq), "a client connected before [%s] is no longer served: blocked on %s", names, ew.BlockedOn())
		case !estOK:
			vrt.Failf("=tls/established-client-not-served/"+tlsSet(seq), "a client connected before [%s] is no longer served: %s", names, estErr)
		case !fw.Done():
			vrt.Failf("=tls/fresh-client-not-served/"+tlsSet(seq), "a client connecting after [%s] is not served: blocked on %s", names, fw.BlockedOn())
		case !freshOK:
			vrt.Failf("=tls/fresh-client-not-served/"+tlsSet(seq), "a client connecting after [%s] is not served: %s", names, freshErr)
		}
		vrt.Observe("%s|fresh=%v est=%v", names, freshOK, estOK)
	}
}

func init() {
	reg.Register(&reg.Scenario{Property: "C12", Name: "tls-listener-2", Body: tlsListener(2), Quick: 0, Thorough: 1, StepLimitFails: true,
		Doc: "the server listens on tcps:// (bus/net listenTLS and dialTLS, real crypto/tls over the in-memory network); <=2 peers misbehave at the transport level (silent, leaving, partial / plaintext / garbage / alert records, a complete handshake followed by silence, a forged record or an abrupt close); a client connected before and a client connecting afterwards must both be served"})
}
