package c12

import (
	"bytes"
	"fmt"
	"strings"

	"github.com/lugu/qiloop/bus"
	"github.com/lugu/qiloop/bus/directory"
	"github.com/lugu/qiloop/bus/net"
	"github.com/lugu/qiloop/type/basic"
	"github.com/lugu/qiloop/type/object"

	"verif/rt/vrt"
	"verif/scenarios/fx"
	"verif/scenarios/reg"
)

// The service directory is an object like any other, with one documented
// removal request (unregisterService): a hostile authenticated client sends
// it well-formed and malformed requests; afterwards a fresh client must still
// be served, and everything the hostile client did not name must still be
// there.

type dirSession struct{ c *fx.Conn }

func (s dirSession) Proxy(name string, objectID uint32) (bus.Proxy, error) {
	meta, err := bus.GetMetaObject(s.c.Client, 1, objectID)
	if err != nil {
		return nil, err
	}
	return bus.NewProxy(s.c.Client, meta, 1, objectID), nil
}
func (s dirSession) Object(ref object.ObjectReference) (bus.Proxy, error) {
	return bus.NewProxy(s.c.Client, ref.MetaObject, ref.ServiceID, ref.ObjectID), nil
}
func (s dirSession) Terminate() error { return nil }

func dirProxy(c *fx.Conn) (directory.ServiceDirectoryProxy, error) {
	return directory.ServiceDirectory(dirSession{c})
}

func infoPayload(name string, id uint32) []byte {
	var b bytes.Buffer
	directory.WriteServiceInfo(directory.ServiceInfo{Name: name, ServiceId: id, MachineId: "m", ProcessId: 7, Endpoints: []string{"tcp://x"}}, &b)
	return b.Bytes()
}

func strPayload(s string) []byte {
	var b bytes.Buffer
	basic.WriteString(s, &b)
	return b.Bytes()
}

// ids: the directory is 1, the good client's ready service "keep" is 2, its
// staged (registered, not ready) service "staged" is 3.
func dirAlphabet() []hostile {
	d := func(name string, act uint32, pay []byte) hostile {
		return hostile{name: name, typ: net.Call, svc: 1, obj: 1, act: act, pay: pay}
	}
	return []hostile{
		d("register(x)", 102, infoPayload("x", 0)),
		d("register(keep)", 102, infoPayload("keep", 0)),
		d("register(staged)", 102, infoPayload("staged", 0)),
		d("register(empty-name)", 102, infoPayload("", 0)),
		d("register(truncated)", 102, infoPayload("x", 0)[:7]),
		d("unregister(2)", 103, u32(2)),
		d("unregister(3)", 103, u32(3)),
		d("unregister(4)", 103, u32(4)),
		d("unregister(99)", 103, u32(99)),
		d("unregister(1)", 103, u32(1)),
		d("unregister(truncated)", 103, []byte{2, 0}),
		d("ready(3)", 104, u32(3)),
		d("ready(4)", 104, u32(4)),
		d("ready(2)", 104, u32(2)),
		d("ready(99)", 104, u32(99)),
		d("update(keep,2)", 105, infoPayload("keep", 2)),
		d("update(keep,3)", 105, infoPayload("keep", 3)),
		d("update(other,2)", 105, infoPayload("other", 2)),
		d("update(truncated)", 105, infoPayload("keep", 2)[:9]),
		d("service(keep)", 100, strPayload("keep")),
		d("service(nope)", 100, strPayload("nope")),
		d("service(truncated)", 100, []byte{9, 0, 0, 0, 'k'}),
		d("services()", 101, nil),
		d("machineId()", 108, nil),
		d("socketOfService(2)", 109, u32(2)),
		d("unknown-action", 999, nil),
		{name: "post-unregister(3)", typ: net.Post, svc: 1, obj: 1, act: 103, pay: u32(3)},
		{name: "post-register(y)", typ: net.Post, svc: 1, obj: 1, act: 102, pay: infoPayload("y", 0)},
		{name: "close", close: true},
	}
}

func hostileDirectory(n int) func() {
	return func() {
		if _, err := directory.NewServer("tcp://sd", bus.Yes{}); err != nil {
			panic(err)
		}
		w := &fx.World{Host: "sd", ServiceID: 1}
		good := w.MustConnect()
		gp, err := dirProxy(good)
		if err != nil {
			vrt.Failf("harness/directory-proxy", "%v", err)
			return
		}
		mk := func(name string) uint32 {
			id, err := gp.RegisterService(directory.ServiceInfo{Name: name, MachineId: "m", ProcessId: 7, Endpoints: []string{"tcp://x"}})
			if err != nil {
				vrt.Failf("harness/register", "%v", err)
			}
			return id
		}
		keepID, stagedID := mk("keep"), mk("staged")
		if err := gp.ServiceReady(keepID); err != nil || keepID != 2 || stagedID != 3 {
			vrt.Failf("harness/ready", "ids %d %d: %v", keepID, stagedID, err)
			return
		}
		h := w.RawPeer()
		h.StartDrain()
		if !h.Authenticate("", "") {
			vrt.Failf("harness/auth", "hostile peer could not authenticate")
			return
		}
		abc := dirAlphabet()
		var seq []hostile
		for i := 0; i < n; i++ {
			k := vrt.ChooseFree(len(abc)+1, "frame")
			if k == len(abc) {
				break
			}
			seq = append(seq, abc[k])
			if abc[k].close {
				break
			}
		}
		disconnect := vrt.ChooseFree(2, "abrupt-disconnect") == 1
		vrt.Explore()
		names := ""
		for _, f := range seq {
			names += f.name + ";"
			if f.typ != 0 {
				h.Send(f.typ, f.svc, f.obj, f.act, h.NextID(), f.pay)
			}
			if f.close {
				h.Raw.Close()
			}
			vrt.Quiesce()
		}
		if disconnect {
			h.Raw.Close()
			vrt.Quiesce()
		}
		// what the hostile client named for removal (well-formed requests only)
		removedKeep, removedStaged := false, false
		for _, f := range seq {
			if f.name == "unregister(2)" {
				removedKeep = true
			}
			if f.name == "unregister(3)" || f.name == "post-unregister(3)" {
				removedStaged = true
			}
		}
		listed, keepSeen, freshOK, stagedOK := false, false, false, false
		listing := ""
		pw := vrt.GoWorker("probe-client", func() {
			c, err := w.Connect("", "")
			if err != nil {
				vrt.Failf("probe-connect-failed", "a fresh client cannot connect after [%s]: %v", names, err)
				return
			}
			p, err := dirProxy(c)
			if err != nil {
				return
			}
			l, err := p.Services()
			if err == nil {
				listed = true
				for _, i := range l {
					listing += fmt.Sprintf("%d:%s ", i.ServiceId, i.Name)
					if i.ServiceId == 2 && i.Name == "keep" {
						keepSeen = true
					}
				}
			}
			id, err := p.RegisterService(directory.ServiceInfo{Name: "fresh", MachineId: "m", ProcessId: 8, Endpoints: []string{"tcp://f"}})
			if err == nil && p.ServiceReady(id) == nil {
				if i, err := p.Service("fresh"); err == nil && i.ServiceId == id {
					freshOK = true
				}
			}
		})
		gw := vrt.GoWorker("good-client", func() {
			// the good client's staged service can still be made ready
			// unless the hostile client unregistered or readied it
			err := gp.ServiceReady(3)
			stagedOK = err == nil
		})
		vrt.Quiesce()
		set := "{" + multiset(seq) + "}"
		readied := strings.Contains(names, "ready(3);")
		switch lws := vrt.LockWaiters(); {
		case len(lws) > 0:
			vrt.Failf("=directory/deadlock/"+set, "thread %s blocked on %s at quiescence after hostile directory requests [%s] disconnect=%v", lws[0].Thread, lws[0].Label, names, disconnect)
		case !pw.Done():
			vrt.Failf("=directory/fresh-client-not-served/"+set, "a fresh client is not served by the directory after [%s] disconnect=%v: blocked on %s", names, disconnect, pw.BlockedOn())
		case !gw.Done():
			vrt.Failf("=directory/established-client-not-served/"+set, "an established client is not served after [%s]: blocked on %s", names, gw.BlockedOn())
		case !listed:
			vrt.Failf("=directory/listing-fails/"+set, "services() fails for a fresh client after [%s]", names)
		case !freshOK:
			vrt.Failf("=directory/registration-fails/"+set, "a fresh client cannot register, ready and look up a service after [%s] (listing: %s)", names, listing)
		case !removedKeep && !keepSeen:
			vrt.Failf("=directory/other-service-removed/"+set, "service keep (2) disappeared although the hostile client never unregistered it: [%s] (listing: %s)", names, listing)
		case removedKeep && keepSeen:
			vrt.Failf("=directory/unregister-ignored/"+set, "unregisterService(2) was sent but keep is still listed: [%s]", names)
		case !removedStaged && !readied && !stagedOK:
			vrt.Failf("=directory/staged-service-lost/"+set, "the good client's staged service (3) can no longer be made ready after [%s]", names)
		}
		vrt.Observe("%s|disc=%v|keep=%v fresh=%v staged=%v", names, disconnect, keepSeen, freshOK, stagedOK)
	}
}

func init() {
	reg.Register(&reg.Scenario{Property: "C12", Name: "hostile-directory-2", Body: hostileDirectory(2), Quick: 0, Thorough: 1, StepLimitFails: true,
		Doc: "an authenticated hostile peer sends <=2 requests of a 29-request alphabet to the service directory (register / unregister / ready / update / lookups, well-formed, conflicting, truncated, as posts), optionally disconnects; then a fresh client lists, registers, readies and looks up, the established client readies its staged service; nothing the hostile client did not name was removed"})
	reg.Register(&reg.Scenario{Property: "C12", Name: "hostile-directory-3", Body: hostileDirectory(3), Quick: 0, Thorough: 0, StepLimitFails: true,
		Doc: "the same with <=3 requests"})
}
