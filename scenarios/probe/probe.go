// Package probe is the instrumented test service of the full-stack
// scenarios. Its stub and proxy (probe_stub_gen.go) are produced at check
// time by the repository's own generator from /repo's current tree.
package probe

import (
	"fmt"

	"github.com/lugu/qiloop/bus"
	"github.com/lugu/qiloop/type/object"

	"verif/rt/vrt"
)

// Impl is the counting implementation of the Probe interface.
type Impl struct {
	Name       string
	Calls      map[string]int // "echo(5)" -> executions
	Order      []string
	Helper     ProbeSignalHelper
	Act        bus.Activation
	Activated  int
	Terminated int
	Children   []*Impl
	ChildProxy []ProbeProxy
	Accepted   []int32 // values accepted by the property validator
	Rejected   []int32
	// Gate, when non-nil, holds every slow() body until the harness closes
	// it (keeps the object's mailbox goroutine busy at a chosen moment).
	Gate chan struct{}
	// InSlow is the number of slow() bodies currently executing.
	InSlow, MaxInSlow int
	// OnAct and OnTerm, when non-nil, run inside Activate / OnTerminate
	// (objects that add or remove other objects from their hooks).
	OnAct  func(a bus.Activation)
	OnTerm func()
	// FailAct makes the next activation fail.
	FailAct bool
	// Lent is the object another party handed over with adopt().
	Lent ProbeProxy
}

// InitialLevel is the value of the level property after activation.
const InitialLevel = 1

// New returns a fresh implementation.
func New(name string) *Impl {
	return &Impl{Name: name, Calls: map[string]int{}}
}

func (p *Impl) count(key string) {
	p.Calls[key]++
	p.Order = append(p.Order, key)
}

// Total returns how many method bodies ran.
func (p *Impl) Total() int {
	n := 0
	for _, c := range p.Calls {
		n += c
	}
	return n
}

func (p *Impl) Activate(activation bus.Activation, helper ProbeSignalHelper) error {
	p.Act = activation
	p.Helper = helper
	p.Activated++
	if p.FailAct {
		p.FailAct = false
		return fmt.Errorf("activation refused")
	}
	if p.OnAct != nil {
		p.OnAct(activation)
	}
	// the property starts at InitialLevel
	return helper.UpdateLevel(InitialLevel)
}

func (p *Impl) OnTerminate() {
	p.Terminated++
	if p.OnTerm != nil {
		p.OnTerm()
	}
}

// EchoResult is what echo computes for an argument.
func EchoResult(x int32) int32 { return 3*x + 1 }

// EchoError is the error echo answers a negative argument with.
func EchoError(x int32) string { return fmt.Sprintf("echo refuses %d", x) }

func (p *Impl) Echo(x int32) (int32, error) {
	p.count(fmt.Sprintf("echo(%d)", x))
	if x < 0 {
		return 0, fmt.Errorf("%s", EchoError(x))
	}
	return EchoResult(x), nil
}

// Blob returns a string of n bytes (n may exceed what a message can carry).
func (p *Impl) Blob(n int32) (string, error) {
	p.count(fmt.Sprintf("blob(%d)", n))
	b := make([]byte, n)
	for i := 0; i < len(b); i += 4093 {
		b[i] = byte('a' + i%26)
	}
	return string(b), nil
}

// Adopt keeps the object it is given (possibly hosted by the calling client).
func (p *Impl) Adopt(o ProbeProxy) error {
	p.count("adopt")
	p.Lent = o
	return nil
}

// Adopted hands the kept object to whoever asks.
func (p *Impl) Adopted() (ProbeProxy, error) {
	p.count("adopted")
	if p.Lent == nil {
		return nil, fmt.Errorf("nothing adopted")
	}
	return p.Lent, nil
}

func (p *Impl) Inc() error {
	p.count("inc")
	return nil
}

func (p *Impl) Noarg() (int32, error) {
	p.count("noarg")
	return 42, nil
}

func (p *Impl) Slow(x int32) (int32, error) {
	p.count(fmt.Sprintf("slow(%d)", x))
	p.InSlow++
	if p.InSlow > p.MaxInSlow {
		p.MaxInSlow = p.InSlow
	}
	if p.Gate != nil {
		<-p.Gate
	}
	vrt.Yield()
	vrt.Yield()
	p.InSlow--
	return EchoResult(x), nil
}

func (p *Impl) Spawn() (ProbeProxy, error) {
	p.count("spawn")
	child := New(fmt.Sprintf("%s.%d", p.Name, len(p.Children)))
	proxy, err := CreateProbe(p.Act.Session, p.Act.Service, child)
	if err != nil {
		return nil, err
	}
	p.Children = append(p.Children, child)
	p.ChildProxy = append(p.ChildProxy, proxy)
	return proxy, nil
}

func (p *Impl) OnLevelChange(v int32) error {
	if v < 0 {
		p.Rejected = append(p.Rejected, v)
		return fmt.Errorf("level cannot be negative (%d)", v)
	}
	p.Accepted = append(p.Accepted, v)
	return nil
}

// OnModeChange accepts every value of the second property (mode): it exists so that an
// object has two properties (a table of properties updated key by key).
func (p *Impl) OnModeChange(v int32) error { return nil }

// ProbeMeta returns the meta-object of the Probe interface.
func ProbeMeta() object.MetaObject { return (&stubProbe{}).metaObject() }
