// Package c17 holds the engine-B scenarios of property C17: each connection
// handler is closed exactly once, whatever races with it.
package c17

import (
	"fmt"
	"strings"

	"github.com/lugu/qiloop/bus/net"

	"verif/rt/vnet"
	"verif/rt/vrt"
	"verif/scenarios/reg"
)

// mon watches one handler: its filter, its closer and its queue.
type mon struct {
	name        string
	id          int
	closerCalls int
	closerErr   []error
	queueClosed bool
	received    []*net.Message
	filterAfter int // filter invocations after the closer ran
	filterCalls int
	match       func(h *net.Header) (bool, bool)
	drain       *vrt.Thread
	early       bool // must be closed exactly once (registered before shutdown)
	regStep     int  // logical step at which MakeHandler returned the identifier
	closeStep   int  // logical step at which the closer ran (0: never)
}

// liveAt reports whether the handler was still registered (its close callback
// had not run) at the given step.
func (m *mon) liveAt(step int) bool { return m.closerCalls == 0 || m.closeStep > step }

func (m *mon) filter(h *net.Header) (bool, bool) {
	m.filterCalls++
	if m.closerCalls > 0 {
		m.filterAfter++
	}
	return m.match(h)
}

func (m *mon) closer(err error) {
	m.closerCalls++
	if m.closeStep == 0 {
		m.closeStep = vrt.Step()
	}
	m.closerErr = append(m.closerErr, err)
	if m.queueClosed {
		vrt.Failf("closer-after-queue-close/"+m.name, "closer invoked after the queue was closed")
	}
}

func matchAllKeep(h *net.Header) (bool, bool) { return true, true }
func matchAllOnce(h *net.Header) (bool, bool) { return true, false }
func matchNone(h *net.Header) (bool, bool)    { return false, true }

// register creates a monitored handler with a draining consumer thread.
func register(e net.EndPoint, name string, match func(h *net.Header) (bool, bool), early bool) *mon {
	m := &mon{name: name, match: match, early: early}
	q := make(chan *net.Message, 4)
	m.drain = vrt.GoNamed("drain-"+name, func() {
		for msg := range q {
			m.received = append(m.received, msg)
		}
		m.queueClosed = true
		if m.closerCalls != 1 {
			vrt.Failf("queue-closed-without-closer/"+m.name, "queue closed while closer had been called %d times", m.closerCalls)
		}
	})
	m.id = e.MakeHandler(m.filter, q, m.closer)
	m.regStep = vrt.Step()
	return m
}

func (m *mon) check() {
	if m.closerCalls > 1 {
		vrt.Failf("closer-twice/"+m.name, "closer invoked %d times", m.closerCalls)
	}
	if m.early && m.closerCalls == 0 {
		vrt.Failf("closer-never/"+m.name, "closer never invoked although the handler was registered before shutdown")
	}
	if m.closerCalls == 1 && !m.queueClosed {
		vrt.Failf("queue-not-closed/"+m.name, "closer ran but the queue was never closed")
	}
	if m.filterAfter > 0 {
		vrt.Failf("filter-after-closer/"+m.name, "filter consulted %d times after the closer ran", m.filterAfter)
	}
	vrt.Observe("%s:closer=%d,closed=%v,recv=%d", m.name, m.closerCalls, m.queueClosed, len(m.received))
}

func frame(id uint32, n int) net.Message {
	p := make([]byte, n)
	for i := range p {
		p[i] = byte(id) + byte(i)
	}
	return net.NewMessage(net.NewHeader(net.Call, 1, 1, 100, id), p)
}

func checkIntact(clause string, msgs []*net.Message) {
	for _, m := range msgs {
		if int(m.Header.Size) != len(m.Payload) {
			vrt.Failf(clause, "size %d payload %d", m.Header.Size, len(m.Payload))
			continue
		}
		for i, b := range m.Payload {
			if b != byte(m.Header.ID)+byte(i) {
				vrt.Failf(clause, "payload of message %d corrupted at %d", m.Header.ID, i)
				break
			}
		}
	}
}

func workersDone(ws ...*vrt.Thread) {
	for i, w := range ws {
		if !w.Done() {
			vrt.Failf(fmt.Sprintf("hang/worker%d", i), "worker still blocked on %s", w.BlockedOn())
		}
	}
	for _, b := range vrt.LockWaiters() {
		vrt.Failf("deadlock/"+b.Kind, "thread %s blocked on %s at quiescence", b.Thread, b.Label)
	}
}

// S1: RemoveHandler(h) || peer sends a frame matching h || Close().
func s1() {
	a, b := vnet.NewPair("ep", "peer")
	ep := net.NewEndPoint(a)
	h := register(ep, "h", matchAllKeep, true)
	g := register(ep, "g", matchNone, true)
	vrt.Explore()
	var rmErr error
	rmDone := false
	w1 := vrt.GoWorker("remover", func() { rmErr = ep.RemoveHandler(h.id); rmDone = true })
	w2 := vrt.GoWorker("peer", func() {
		m := frame(7, 3)
		if m.Write(b) == nil {
			vrt.Flag("frame-written")
		}
	})
	w3 := vrt.GoWorker("closer", func() { ep.Close() })
	vrt.Quiesce()
	workersDone(w1, w2, w3)
	h.check()
	g.check()
	checkIntact("corrupt/h", h.received)
	if len(h.received) > 1 || len(g.received) > 0 {
		vrt.Failf("delivery-count", "h got %d, g got %d", len(h.received), len(g.received))
	}
	if rmDone && rmErr == nil && len(h.received) == 1 {
		vrt.Flag("delivered-then-removed")
	}
	if rmDone && rmErr != nil {
		vrt.Flag("close-won")
	}
	vrt.Observe("rmErr=%v", rmErr != nil)
}

// registerLight is register without a draining thread: the queue is inspected
// by the main thread at quiescence (fewer threads: the whole interleaving
// tree of the small scenarios can be exhausted).
func registerLight(e net.EndPoint, name string, match func(h *net.Header) (bool, bool)) (*mon, chan *net.Message) {
	m := &mon{name: name, match: match, early: true}
	q := make(chan *net.Message, 4)
	m.id = e.MakeHandler(m.filter, q, m.closer)
	return m, q
}

// settleLight drains the queue without blocking and records whether it was closed.
func (m *mon) settleLight(q chan *net.Message) {
	for {
		select {
		case msg, ok := <-q:
			if !ok {
				m.queueClosed = true
				if m.closerCalls != 1 {
					vrt.Failf("queue-closed-without-closer/"+m.name, "queue closed while closer had been called %d times", m.closerCalls)
				}
				return
			}
			m.received = append(m.received, msg)
		default:
			return
		}
	}
}

// S1x: S1 with two handlers and no draining threads (exhaustible).
func s1x() {
	a, b := vnet.NewPair("ep", "peer")
	ep := net.NewEndPoint(a)
	h, hq := registerLight(ep, "h", matchAllKeep)
	vrt.Explore()
	var rmErr error
	w1 := vrt.GoWorker("remover", func() { rmErr = ep.RemoveHandler(h.id) })
	w2 := vrt.GoWorker("peer", func() {
		m := frame(7, 3)
		m.Write(b)
	})
	w3 := vrt.GoWorker("closer", func() { ep.Close() })
	vrt.Quiesce()
	workersDone(w1, w2, w3)
	h.settleLight(hq)
	h.check()
	checkIntact("corrupt/h", h.received)
	if len(h.received) > 1 {
		vrt.Failf("delivery-count", "h got %d", len(h.received))
	}
	if rmErr != nil {
		vrt.Flag("close-won")
	} else if len(h.received) == 1 {
		vrt.Flag("delivered-then-removed")
	}
	vrt.Observe("rmErr=%v recv=%d", rmErr != nil, len(h.received))
}

// S2x: self-removing filter || RemoveHandler(same id) || one frame, no
// draining threads (exhaustible).
func s2x() {
	a, b := vnet.NewPair("ep", "peer")
	ep := net.NewEndPoint(a)
	h, hq := registerLight(ep, "once", matchAllOnce)
	h.early = false
	vrt.Explore()
	var rmErr error
	w1 := vrt.GoWorker("remover", func() { rmErr = ep.RemoveHandler(h.id) })
	w2 := vrt.GoWorker("peer", func() {
		m := frame(1, 2)
		m.Write(b)
	})
	vrt.Quiesce()
	workersDone(w1, w2)
	h.settleLight(hq)
	if h.closerCalls != 1 {
		vrt.Failf("closer-count/once", "closer invoked %d times (self-removal racing explicit removal)", h.closerCalls)
	}
	if rmErr == nil && len(h.received) != 0 {
		vrt.Failf("removed-twice/once", "RemoveHandler succeeded although the filter had already removed itself")
	}
	if rmErr != nil {
		vrt.Flag("self-removed-first")
	}
	h.check()
	vrt.Observe("rmErr=%v recv=%d", rmErr != nil, len(h.received))
}

// S2: a self-removing filter || RemoveHandler(same id) || two incoming frames.
func s2() {
	a, b := vnet.NewPair("ep", "peer")
	ep := net.NewEndPoint(a)
	h := register(ep, "once", matchAllOnce, false)
	k := register(ep, "keep", matchAllKeep, false)
	vrt.Explore()
	var rmErr error
	w1 := vrt.GoWorker("remover", func() { rmErr = ep.RemoveHandler(h.id) })
	w2 := vrt.GoWorker("peer", func() {
		m1, m2 := frame(1, 2), frame(2, 0)
		m1.Write(b)
		m2.Write(b)
	})
	vrt.Quiesce()
	workersDone(w1, w2)
	// exactly one of: removed explicitly (rmErr == nil), or removed itself
	if h.closerCalls != 1 {
		vrt.Failf("closer-count/once", "closer invoked %d times (self-removal racing explicit removal)", h.closerCalls)
	}
	if rmErr == nil && len(h.received) != 0 {
		// the explicit removal succeeded, so the filter cannot have
		// removed itself before: it must not have matched
		vrt.Failf("removed-twice/once", "RemoveHandler succeeded although the filter had already removed itself")
	}
	if rmErr != nil {
		vrt.Flag("self-removed-first")
		if len(h.received) != 1 {
			vrt.Failf("self-removal-delivery", "self-removing handler got %d messages", len(h.received))
		}
	}
	if len(h.received) > 1 {
		vrt.Failf("delivered-after-removal/once", "single-shot handler got %d messages", len(h.received))
	}
	if len(k.received) != 2 {
		vrt.Failf("keep-handler-count", "keep handler got %d of 2 messages", len(k.received))
	} else if k.received[0].Header.ID != 1 || k.received[1].Header.ID != 2 {
		vrt.Failf("keep-handler-order", "order %d,%d", k.received[0].Header.ID, k.received[1].Header.ID)
	}
	checkIntact("corrupt/keep", k.received)
	h.check()
	vrt.Observe("rmErr=%v", rmErr != nil)
	// now shut down: the surviving handler must be closed exactly once
	ep.Close()
	vrt.Quiesce()
	k.early = true
	k.check()
}

// S3: the peer closes (between frames / mid-header / mid-payload, by
// parameter) || RemoveHandler || MakeHandler.
func s3(cut int) func() {
	return func() {
		a, b := vnet.NewPair("ep", "peer")
		ep := net.NewEndPoint(a)
		h := register(ep, "h", matchAllKeep, true)
		g := register(ep, "g", matchAllKeep, true)
		vrt.Explore()
		var late *mon
		var rmErr error
		w1 := vrt.GoWorker("peer", func() {
			m := frame(3, 4)
			m.Write(b)
			if cut > 0 {
				var buf bytesBuffer
				m2 := frame(4, 6)
				m2.Write(&buf)
				b.Write(buf.b[:cut])
			}
			b.Close()
		})
		w2 := vrt.GoWorker("remover", func() { rmErr = ep.RemoveHandler(h.id) })
		w3 := vrt.GoWorker("maker", func() { late = register(ep, "late", matchAllKeep, false) })
		vrt.Quiesce()
		workersDone(w1, w2, w3)
		h.check()
		g.check()
		if late != nil {
			late.check()
			if late.closerCalls == 1 {
				vrt.Flag("late-handler-closed")
			} else {
				vrt.Flag("late-handler-after-shutdown")
			}
			if late.id == h.id && h.closerCalls == 0 {
				vrt.Failf("id-reused-before-removal", "late handler got the id of a live handler")
			}
			if late.id == g.id && g.closerCalls == 0 {
				// an identifier is free again once its handler left the table -
				// by a removal or by the shutdown sweep, whose close callbacks
				// may still be on their way: only a handler that is never
				// closed at all still holds its identifier for sure
				vrt.Failf("id-collision", "late handler shares the id %d of a live handler", g.id)
			}
		}
		for _, m := range append(append([]*net.Message{}, h.received...), g.received...) {
			if m.Header.ID != 3 {
				vrt.Failf("truncated-frame-delivered", "a message with id %d was delivered", m.Header.ID)
			}
		}
		checkIntact("corrupt/g", g.received)
		if len(g.received) != 1 {
			vrt.Failf("complete-frame-lost", "g received %d messages, expected the complete frame", len(g.received))
		}
		if len(g.closerErr) == 1 && g.closerErr[0] == nil {
			vrt.Failf("closer-error-nil", "connection loss reported with a nil error")
		}
		vrt.Observe("rmErr=%v", rmErr != nil)
	}
}

type bytesBuffer struct{ b []byte }

func (w *bytesBuffer) Write(p []byte) (int, error) { w.b = append(w.b, p...); return len(p), nil }

// S4: two concurrent RemoveHandler(h) (+ an unknown id).
func s4() {
	a, _ := vnet.NewPair("ep", "peer")
	ep := net.NewEndPoint(a)
	h := register(ep, "h", matchAllKeep, true)
	vrt.Explore()
	var e1, e2 error
	w1 := vrt.GoWorker("r1", func() { e1 = ep.RemoveHandler(h.id) })
	w2 := vrt.GoWorker("r2", func() { e2 = ep.RemoveHandler(h.id) })
	vrt.Quiesce()
	workersDone(w1, w2)
	if (e1 == nil) == (e2 == nil) {
		vrt.Failf("double-removal-result", "two racing removals returned %v and %v", e1, e2)
	}
	if ep.RemoveHandler(h.id) == nil {
		vrt.Failf("removed-handler-removable", "removing an already removed handler succeeded")
	}
	if ep.RemoveHandler(9999) == nil || ep.RemoveHandler(-1) == nil {
		vrt.Failf("unknown-handler-removable", "removing an unknown handler succeeded")
	}
	// every identifier around the table size (10 preallocated slots) is unknown
	for id := 0; id <= 24; id++ {
		if ep.RemoveHandler(id) == nil {
			vrt.Failf("unknown-handler-removable", "removing the unknown handler %d succeeded", id)
		}
	}
	h.check()
	vrt.Observe("first=%v", e1 == nil)
	ep.Close()
	vrt.Quiesce()
	if h.closerCalls != 1 {
		vrt.Failf("closer-twice/h", "closer invoked %d times after shutdown", h.closerCalls)
	}
}

// S5: remove || MakeHandler x2: identifiers are only reused after removal.
func s5() {
	a, _ := vnet.NewPair("ep", "peer")
	ep := net.NewEndPoint(a)
	// fill the 10 preallocated slots so that growth is exercised too
	var fill []*mon
	for i := 0; i < 10; i++ {
		fill = append(fill, register(ep, fmt.Sprintf("f%d", i), matchNone, true))
	}
	h := fill[4]
	vrt.Explore()
	var n1, n2 *mon
	reuseTooEarly := false
	w1 := vrt.GoWorker("remover", func() { ep.RemoveHandler(h.id) })
	w2 := vrt.GoWorker("m1", func() {
		n1 = register(ep, "n1", matchNone, true)
		if n1.id == h.id && h.closerCalls == 0 {
			reuseTooEarly = true
		}
	})
	w3 := vrt.GoWorker("m2", func() {
		n2 = register(ep, "n2", matchNone, true)
		if n2.id == h.id && h.closerCalls == 0 {
			reuseTooEarly = true
		}
	})
	vrt.Quiesce()
	workersDone(w1, w2, w3)
	if reuseTooEarly {
		vrt.Failf("id-reused-before-removal", "an identifier was handed out while its previous handler was live")
	}
	seen := map[int]string{}
	for _, m := range append(fill, n1, n2) {
		if m == h {
			continue
		}
		if o, ok := seen[m.id]; ok {
			vrt.Failf("id-collision", "%s and %s share identifier %d", o, m.name, m.id)
		}
		seen[m.id] = m.name
	}
	if n1.id == h.id || n2.id == h.id {
		vrt.Flag("id-reused")
	}
	vrt.Observe("ids=%d,%d", n1.id, n2.id)
	for id := 10; id <= 16; id++ {
		live := false
		for _, m := range append(fill, n1, n2) {
			if m != h && m.id == id {
				live = true
			}
		}
		if !live && ep.RemoveHandler(id) == nil {
			vrt.Failf("unknown-handler-removable", "removing the unknown handler %d succeeded after the table grew", id)
		}
	}
	ep.Close()
	vrt.Quiesce()
	for _, m := range append(fill, n1, n2) {
		m.check()
	}
}

// S14: a handler table that grew beyond its preallocated slots, PARTLY
// emptied, then shut down. n handlers (11..14) are registered, the first k of
// them removed (every k from 0 to n), then the endpoint is closed locally or
// by the peer: every handler still registered is closed exactly once, the
// removed ones were closed by their removal, removal of each identifier a
// second time is an error.
func s14() {
	a, b := vnet.NewPair("ep", "peer")
	ep := net.NewEndPoint(a)
	n := 11 + vrt.ChooseFree(4, "handlers registered")
	k := vrt.ChooseFree(n+1, "handlers removed first")
	how := vrt.ChooseFree(2, "shutdown: Close / peer close")
	vrt.Explore()
	var ms []*mon
	for i := 0; i < n; i++ {
		ms = append(ms, register(ep, fmt.Sprintf("h%d", i), matchNone, true))
	}
	for i := 0; i < k; i++ {
		if err := ep.RemoveHandler(ms[i].id); err != nil {
			vrt.Failf("remove-error", "removing the registered handler %s (%d of %d registered) failed: %v", ms[i].name, i, n, err)
		}
	}
	vrt.Quiesce()
	for i := 0; i < k; i++ {
		if ms[i].closerCalls != 1 {
			vrt.Failf(fmt.Sprintf("closer-count-after-removal/%d", ms[i].closerCalls), "%s was removed: its close callback ran %d times", ms[i].name, ms[i].closerCalls)
		}
	}
	if how == 0 {
		ep.Close()
	} else {
		b.Close()
	}
	vrt.Quiesce()
	for _, m := range ms {
		m.check()
	}
	for i := 0; i < k; i++ {
		if ep.RemoveHandler(ms[i].id) == nil {
			vrt.Failf("double-remove-accepted", "removing %s a second time (after the shutdown) succeeded", ms[i].name)
		}
	}
	vrt.Observe("n=%d k=%d how=%d", n, k, how)
}

// S6: ReceiveAny || incoming frame || Close.
func s6() {
	a, b := vnet.NewPair("ep", "peer")
	ep := net.NewEndPoint(a)
	vrt.Explore()
	got, closed := 0, false
	w1 := vrt.GoWorker("any", func() {
		ch, err := ep.ReceiveAny()
		if err != nil {
			return
		}
		for m := range ch {
			got++
			checkIntact("corrupt/any", []*net.Message{m})
		}
		closed = true
	})
	w2 := vrt.GoWorker("peer", func() {
		m1, m2 := frame(5, 1), frame(6, 1)
		m1.Write(b)
		m2.Write(b)
	})
	w3 := vrt.GoWorker("closer", func() { ep.Close() })
	vrt.Quiesce()
	if !w1.Done() {
		// ReceiveAny registered after shutdown: its channel is never closed
		// (handler registered after shutdown - allowed); otherwise a hang
		vrt.Flag("receive-any-after-shutdown")
	}
	workersDone(w2, w3)
	if got > 1 {
		vrt.Failf("receive-any-count", "ReceiveAny delivered %d messages", got)
	}
	vrt.Observe("got=%d closed=%v", got, closed)
}

// S7: a self-removing filter whose queue is full receives a Call (dispatch
// answers "consumer blocked" on the wire) || RemoveHandler / Close.
func s7(withClose bool) func() {
	return func() {
		a, b := vnet.NewPair("ep", "peer")
		ep := net.NewEndPoint(a)
		m := &mon{name: "full", match: matchAllOnce, early: true}
		q := make(chan *net.Message) // no room at all until the drain starts
		gate := make(chan struct{})
		m.drain = vrt.GoNamed("drain-full", func() {
			<-gate
			for msg := range q {
				m.received = append(m.received, msg)
			}
			m.queueClosed = true
			if m.closerCalls != 1 {
				vrt.Failf("queue-closed-without-closer/"+m.name, "queue closed while closer had been called %d times", m.closerCalls)
			}
		})
		m.id = ep.MakeHandler(m.filter, q, m.closer)
		k := register(ep, "keep", matchAllKeep, true)
		// the peer reads the error replies so that the endpoint's Send can complete
		answers := 0
		vrt.GoNamed("peer-reader", func() {
			for {
				var r net.Message
				if r.Read(b) != nil {
					return
				}
				answers++
			}
		})
		vrt.Explore()
		var rmErr error
		w1 := vrt.GoWorker("peer", func() {
			f := frame(8, 2)
			f.Write(b)
		})
		w2 := vrt.GoWorker("remover", func() { rmErr = ep.RemoveHandler(m.id) })
		ws := []*vrt.Thread{w1, w2}
		if withClose {
			ws = append(ws, vrt.GoWorker("closer", func() { ep.Close() }))
		}
		vrt.Quiesce()
		close(gate)
		vrt.Quiesce()
		workersDone(ws...)
		if answers > 0 {
			vrt.Flag("consumer-blocked-answered")
		}
		m.check()
		if m.closerCalls != 1 {
			vrt.Failf("closer-count/full", "closer of the full self-removing handler invoked %d times", m.closerCalls)
		}
		vrt.Observe("rmErr=%v answers=%d", rmErr != nil, answers)
		ep.Close()
		vrt.Quiesce()
		k.check()
	}
}

// S7c: the peer does not read the "consumer blocked" reply (synchronous pipe):
// dispatch is blocked inside the write while holding the table lock; Close()
// must still return and close every handler.
func s7c() {
	a, b := vnet.NewPair("ep", "peer")
	a.Sync = true
	ep := net.NewEndPoint(a)
	m := &mon{name: "full", match: matchAllKeep, early: true}
	q := make(chan *net.Message) // never has room
	gate := make(chan struct{})
	m.drain = vrt.GoNamed("drain-full", func() {
		<-gate
		for msg := range q {
			m.received = append(m.received, msg)
		}
		m.queueClosed = true
	})
	m.id = ep.MakeHandler(m.filter, q, m.closer)
	k := register(ep, "other", matchNone, true)
	vrt.Explore()
	f := frame(9, 1)
	f.Write(b) // a Call: dispatch answers "consumer blocked" and nobody reads it
	vrt.Quiesce()
	w := vrt.GoWorker("closer", func() { ep.Close() })
	vrt.Quiesce()
	close(gate)
	vrt.Quiesce()
	workersDone(w)
	m.check()
	k.check()
	if m.closerCalls != 1 || k.closerCalls != 1 {
		vrt.Failf("closer-count/blocked-reply", "after Close() with a blocked error reply the closers ran %d and %d times", m.closerCalls, k.closerCalls)
	}
	vrt.Observe("closers=%d,%d", m.closerCalls, k.closerCalls)
}

func matchNoneOnce(h *net.Header) (bool, bool) { return false, false }

// S8: every filter answer (matched x keep) on two frames, then / while the
// handler is removed explicitly, then shutdown. A filter may remove itself
// without consuming the message (matched=false, keep=false).
func s8() {
	kinds := []struct {
		name  string
		match func(h *net.Header) (bool, bool)
		keep  bool
		recv  int
	}{
		{"match-keep", matchAllKeep, true, 2},
		{"match-once", matchAllOnce, false, 1},
		{"nomatch-keep", matchNone, true, 0},
		{"nomatch-once", matchNoneOnce, false, 0},
	}
	kind := kinds[vrt.ChooseFree(len(kinds), "filter-kind")]
	concurrent := vrt.ChooseFree(2, "remover-concurrent") == 1
	a, b := vnet.NewPair("ep", "peer")
	ep := net.NewEndPoint(a)
	x := register(ep, "x", kind.match, true)
	k := register(ep, "keep", matchAllKeep, true)
	vrt.Explore()
	var rmErr error
	ws := []*vrt.Thread{vrt.GoWorker("peer", func() {
		m1, m2 := frame(1, 2), frame(2, 1)
		m1.Write(b)
		m2.Write(b)
	})}
	if concurrent {
		ws = append(ws, vrt.GoWorker("remover", func() { rmErr = ep.RemoveHandler(x.id) }))
	}
	vrt.Quiesce()
	workersDone(ws...)
	if !concurrent {
		if !kind.keep && x.closerCalls != 1 {
			vrt.Failf("self-removal-closer-count/"+kind.name, "a filter answering keep=false on the first frame had its closer run %d times", x.closerCalls)
		}
		if len(x.received) != kind.recv {
			vrt.Failf("filter-delivery/"+kind.name, "handler got %d messages, expected %d", len(x.received), kind.recv)
		}
		rmErr = ep.RemoveHandler(x.id)
		vrt.Quiesce()
		if !kind.keep && rmErr == nil {
			vrt.Failf("removed-twice/"+kind.name, "RemoveHandler succeeded on a handler that had removed itself")
		}
		if kind.keep && rmErr != nil {
			vrt.Failf("live-handler-not-removable/"+kind.name, "RemoveHandler of a live handler failed: %v", rmErr)
		}
	}
	if x.closerCalls != 1 {
		vrt.Failf("closer-count/"+kind.name, "closer invoked %d times after self-removal / explicit removal", x.closerCalls)
	}
	if len(x.received) > kind.recv {
		vrt.Failf("delivered-after-removal/"+kind.name, "handler got %d messages, at most %d expected", len(x.received), kind.recv)
	}
	if len(k.received) != 2 {
		vrt.Failf("keep-handler-count", "keep handler got %d of 2 messages", len(k.received))
	}
	if ep.RemoveHandler(x.id) == nil {
		vrt.Failf("removed-handler-removable/"+kind.name, "removing an already removed handler succeeded")
	}
	x.check()
	ep.Close()
	vrt.Quiesce()
	x.check()
	k.check()
	vrt.Observe("kind=%s concurrent=%v rmErr=%v recv=%d", kind.name, concurrent, rmErr != nil, len(x.received))
}

// S9: AddHandler (callback consumer behind an internal queue) || frames ||
// RemoveHandler / Close: every frame delivered before the removal reaches the
// callback once, in order; the closer runs exactly once; the internal
// goroutine ends.
func s9() {
	a, b := vnet.NewPair("ep", "peer")
	ep := net.NewEndPoint(a)
	var got []uint32
	closerCalls := 0
	afterEnd := 0
	ended := false
	id := ep.AddHandler(func(h *net.Header) (bool, bool) { return true, true },
		func(m *net.Message) error {
			if ended {
				afterEnd++
			}
			got = append(got, m.Header.ID)
			checkIntact("corrupt/callback", []*net.Message{m})
			return nil
		},
		func(err error) { closerCalls++ })
	k := register(ep, "keep", matchAllKeep, true)
	how := vrt.ChooseFree(2, "remove-or-close")
	vrt.Explore()
	w1 := vrt.GoWorker("peer", func() {
		m1, m2, m3 := frame(1, 2), frame(2, 0), frame(3, 5)
		m1.Write(b)
		m2.Write(b)
		m3.Write(b)
	})
	var rmErr error
	w2 := vrt.GoWorker("ender", func() {
		if how == 0 {
			rmErr = ep.RemoveHandler(id)
		} else {
			ep.Close()
		}
	})
	vrt.Quiesce()
	ended = true
	workersDone(w1, w2)
	if closerCalls != 1 {
		vrt.Failf("closer-count/callback", "the closer of the AddHandler handler ran %d times", closerCalls)
	}
	for i, v := range got {
		if v != uint32(i+1) {
			vrt.Failf("callback-order", "the callback consumer received %v, the frames were sent as [1 2 3]", got)
			break
		}
	}
	if how == 0 && rmErr != nil {
		vrt.Failf("live-handler-not-removable/callback", "RemoveHandler of the AddHandler handler failed: %v", rmErr)
	}
	if how == 0 && len(got) < len(k.received) {
		// frames delivered to the other handler after the removal are fine;
		// before the removal both got them
		vrt.Flag("removed-during-traffic")
	}
	ep.Close()
	vrt.Quiesce()
	if closerCalls != 1 {
		vrt.Failf("closer-twice/callback", "the closer of the AddHandler handler ran %d times after shutdown", closerCalls)
	}
	if afterEnd > 0 && how == 1 {
		vrt.Flag("callback-after-close") // buffered frames are drained by the internal goroutine
	}
	for _, t := range vrt.LockWaiters() {
		vrt.Failf("deadlock/"+t.Kind, "thread %s blocked on %s at quiescence", t.Thread, t.Label)
	}
	k.check()
	vrt.Observe("how=%d got=%d closer=%d", how, len(got), closerCalls)
}

// S10: the transport's Close reports an error although it closes (TLS after a
// peer reset), or the connection was closed underneath the endpoint (its own
// Close is then the second one): every handler is still closed exactly once.
func s10() {
	how := vrt.ChooseFree(3, "close-error: explicit Close / peer close / closed underneath")
	a, b := vnet.NewPair("ep", "peer")
	if how != 2 {
		a.CloseErr = fmt.Errorf("failed to send closeNotify alert (but connection was closed anyway)")
	}
	ep := net.NewEndPoint(a)
	h := register(ep, "h", matchAllKeep, true)
	g := register(ep, "g", matchNone, true)
	vrt.Explore()
	w1 := vrt.GoWorker("peer", func() {
		m := frame(4, 2)
		m.Write(b)
	})
	w2 := vrt.GoWorker("ender", func() {
		switch how {
		case 0:
			ep.Close()
		case 1:
			b.Close()
		case 2:
			a.Close() // e.g. the server's firewall closes the stream itself
		}
	})
	vrt.Quiesce()
	workersDone(w1, w2)
	h.check()
	g.check()
	if h.closerCalls != 1 || g.closerCalls != 1 {
		vrt.Failf("closer-count/close-error", "after a shutdown whose transport Close reported an error (variant %d) the closers ran %d and %d times", how, h.closerCalls, g.closerCalls)
	}
	ep.Close()
	vrt.Quiesce()
	h.check()
	g.check()
	vrt.Observe("how=%d recv=%d", how, len(h.received))
}

// S11: the finalizer of EndPointFinalizer (which runs before the reader
// exists) registers handlers and then decides to close the endpoint - or
// removes a handler again: both return, every handler is closed exactly once.
func s11() {
	how := vrt.ChooseFree(2, "finalizer: Close / RemoveHandler then later Close")
	a, b := vnet.NewPair("ep", "peer")
	var h, g *mon
	var rmErr error
	vrt.Explore()
	var ep net.EndPoint
	w1 := vrt.GoWorker("acceptor", func() {
		ep = net.EndPointFinalizer(a, func(e net.EndPoint) {
			h = register(e, "h", matchAllKeep, true)
			g = register(e, "g", matchNone, true)
			if how == 0 {
				e.Close()
			} else {
				rmErr = e.RemoveHandler(h.id)
			}
		})
	})
	w2 := vrt.GoWorker("peer", func() {
		m := frame(6, 3)
		m.Write(b)
	})
	vrt.Quiesce()
	if !w1.Done() {
		vrt.Failf("hang/finalizer", "EndPointFinalizer did not return: its finalizer is blocked on %s", w1.BlockedOn())
		return
	}
	workersDone(w1, w2)
	if how == 1 {
		if rmErr != nil {
			vrt.Failf("live-handler-not-removable/finalizer", "RemoveHandler inside the finalizer failed: %v", rmErr)
		}
		ep.Close()
		vrt.Quiesce()
	}
	h.check()
	g.check()
	if h.closerCalls != 1 || g.closerCalls != 1 {
		vrt.Failf("closer-count/finalizer", "closers ran %d and %d times (variant %d)", h.closerCalls, g.closerCalls, how)
	}
	vrt.Observe("how=%d recv=%d", how, len(h.received))
}

// S12: frames that no handler selects - of every message type, Error frames
// with payloads that are not a string value among them - are dropped by the
// reader without disturbing anything: no panic, the handlers stay registered
// and are closed exactly once at shutdown.
func s12() {
	a, b := vnet.NewPair("ep", "peer")
	ep := net.NewEndPoint(a)
	g := register(ep, "g", matchNone, true)
	h := register(ep, "h", func(hd *net.Header) (bool, bool) { return hd.ID == 77, true }, true)
	typ := uint8(1 + vrt.ChooseFree(8, "type"))
	payloads := [][]byte{nil, {1, 0, 0, 0, 's', 2, 0, 0, 0, 'o', 'k'}, {1, 0, 0, 0, 'i', 7, 0, 0, 0}, {1, 0, 0, 0, 'b', 1}, {3, 0, 0, 0, '[', 'i', ']', 0, 0, 0, 0}, {0xff, 0xff, 0xff, 0x7f}, {9}}
	pay := payloads[vrt.ChooseFree(len(payloads), "payload")]
	vrt.Explore()
	w := vrt.GoWorker("peer", func() {
		m := net.NewMessage(net.NewHeader(typ, 1, 1, 100, 5), pay)
		m.Write(b)
		m2 := frame(77, 2)
		m2.Write(b)
	})
	vrt.Quiesce()
	workersDone(w)
	if len(h.received) != 1 {
		vrt.Failf("delivery-count/after-unmatched-frame", "after a frame of type %d that no handler selects (payload %v) the next frame reached its handler %d times", typ, pay, len(h.received))
	}
	if g.closerCalls != 0 || h.closerCalls != 0 {
		vrt.Failf("closer-before-shutdown", "a frame nobody selects closed a handler")
	}
	ep.Close()
	vrt.Quiesce()
	g.check()
	h.check()
	vrt.Observe("typ=%d", typ)
}

// S13: a handler that stays registered (keep=true) has no room in its queue
// while frames that are not calls arrive for it (an event, a reply: nobody
// can be told that they were dropped); then the handler is removed / the
// endpoint is closed, and only then does the consumer start reading: nothing
// may reach the queue after the closer ran, and nothing may crash.
func s13() {
	a, b := vnet.NewPair("ep", "peer")
	ep := net.NewEndPoint(a)
	m := &mon{name: "slow", match: matchAllKeep, early: true}
	q := make(chan *net.Message, vrt.ChooseFree(2, "queue capacity 0/1"))
	gate := make(chan struct{})
	afterCloser := 0
	m.drain = vrt.GoNamed("drain-slow", func() {
		<-gate
		for msg := range q {
			if m.closerCalls > 0 {
				afterCloser++
			}
			m.received = append(m.received, msg)
		}
		m.queueClosed = true
		if m.closerCalls != 1 {
			vrt.Failf("queue-closed-without-closer/"+m.name, "queue closed while closer had been called %d times", m.closerCalls)
		}
	})
	m.id = ep.MakeHandler(m.filter, q, m.closer)
	vrt.GoNamed("peer-reader", func() {
		for {
			var r net.Message
			if r.Read(b) != nil {
				return
			}
		}
	})
	how := vrt.ChooseFree(3, "RemoveHandler / Close / peer close")
	vrt.Explore()
	w1 := vrt.GoWorker("peer", func() {
		for i, typ := range []uint8{net.Event, net.Reply, net.Event} {
			f := net.NewMessage(net.NewHeader(typ, 1, 1, 100, uint32(20+i)), []byte{byte(20 + i), byte(21 + i)})
			f.Write(b)
		}
	})
	w2 := vrt.GoWorker("ender", func() {
		switch how {
		case 0:
			ep.RemoveHandler(m.id)
		case 1:
			ep.Close()
		case 2:
			b.Close()
		}
	})
	vrt.Quiesce()
	close(gate)
	vrt.Quiesce()
	workersDone(w1, w2)
	if afterCloser > 0 {
		vrt.Flag("drained-after-closer")
	}
	checkIntact("corrupt/slow", m.received)
	ep.Close()
	vrt.Quiesce()
	m.check()
	for _, bl := range vrt.BlockedThreads() {
		if strings.HasPrefix(bl.Label, "send:") {
			vrt.Failf("sender-left-behind/slow", "a thread is still blocked sending to the handler's queue after the endpoint was closed: %s on %s", bl.Thread, bl.Label)
		}
	}
	vrt.Observe("how=%d recv=%d", how, len(m.received))
}

func init() {
	add := func(name string, body func(), q, t int, doc string, must ...string) {
		reg.Register(&reg.Scenario{Property: "C17", Name: name, Body: body, Quick: q, Thorough: t, Doc: doc, MustFlag: must})
	}
	add("s1x-remove-dispatch-close-exhaustive", s1x, 2, 99, "S1 with one handler and no draining threads: RemoveHandler(h) || peer frame || Close(); the whole interleaving tree", "close-won", "delivered-then-removed")
	add("s2x-selfremove-remove-exhaustive", s2x, 2, 99, "S2 with one frame and no draining threads: keep=false filter || RemoveHandler(same id) || one frame; the whole interleaving tree", "self-removed-first")
	add("s1-remove-dispatch-close", s1, 2, 99, "RemoveHandler(h) || peer frame matching h || Close()", "close-won", "delivered-then-removed")
	add("s2-selfremove-remove-frames", s2, 2, 99, "keep=false filter || RemoveHandler(same id) || two frames", "self-removed-first")
	add("s3a-peerclose-between-frames", s3(0), 2, 99, "peer closes between frames || RemoveHandler || MakeHandler", "late-handler-closed", "late-handler-after-shutdown")
	add("s3b-peerclose-mid-header", s3(10), 2, 4, "peer closes mid-header || RemoveHandler || MakeHandler")
	add("s3c-peerclose-mid-payload", s3(30), 2, 4, "peer closes mid-payload || RemoveHandler || MakeHandler")
	add("s4-double-remove", s4, 3, 99, "two concurrent RemoveHandler(h), then unknown ids")
	add("s5-id-reuse", s5, 2, 99, "RemoveHandler || MakeHandler x2 on a full table", "id-reused")
	add("s14-grown-table-partly-emptied-then-shutdown", s14, 0, 1, "11..14 handlers registered, the first k removed (every k), then Close / peer close: every handler still registered is closed exactly once")
	add("s7a-full-queue-call-remove", s7(false), 2, 5, "self-removing filter with a full queue gets a Call (error reply on the wire) || RemoveHandler", "consumer-blocked-answered")
	add("s7b-full-queue-call-remove-close", s7(true), 2, 4, "same || Close()", "consumer-blocked-answered")
	add("s7c-blocked-reply-then-close", s7c, 1, 3, "a Call for a full queue is answered on a synchronous pipe nobody reads; then Close()")
	add("s8-filter-answers", s8, 1, 3, "every filter answer (matched x keep, including self-removal without consuming) on two frames, RemoveHandler after or during the traffic, then Close()")
	add("s9-addhandler-callback", s9, 2, 4, "AddHandler (callback consumer) || three frames || RemoveHandler or Close(): callback order, closer exactly once")
	add("s10-close-reports-error", s10, 1, 3, "the transport's Close returns an error (explicit Close / peer close), or the connection is closed underneath the endpoint, while a frame arrives")
	add("s11-close-inside-finalizer", s11, 1, 3, "the finalizer of EndPointFinalizer closes the endpoint (or removes a handler) before the reader goroutine exists")
	add("s12-frames-nobody-selects", s12, 0, 1, "a frame of each of the 8 message types with 7 payload shapes (Error frames whose payload is not a string value among them) that no handler selects, then a frame that one handler selects, then Close()")
	add("s13-slow-consumer-events", s13, 2, 4, "a handler that stays registered has a full queue (capacity 0 or 1, consumer held back) while an Event, a Reply and an Event arrive for it || RemoveHandler / Close / peer close; then the consumer drains: no crash, closer once then queue closed, no thread left sending to the queue")
	add("s6-receiveany-close", s6, 2, 99, "ReceiveAny || two frames || Close()")
}
