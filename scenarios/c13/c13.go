// Package c13 holds the engine-B scenarios of property C13: subscribers get
// each emitted event exactly once, in order, only while subscribed.
package c13

import (
	"fmt"

	"github.com/lugu/qiloop/bus"
	"github.com/lugu/qiloop/bus/net"

	"verif/rt/vrt"
	"verif/scenarios/fx"
	"verif/scenarios/probe"
	"verif/scenarios/reg"
)

// One symptom per execution: the failures of an execution are collected and
// only the one with the highest priority is reported, so that one root cause
// does not surface under a dozen fingerprints.
var prio = []string{"subscribe-failed", "emit-error", "event-duplicated", "foreign-signal-delivered", "event-order", "event-lost",
	"late-event-lost", "disturbed-by-other-unsubscribe", "event-after-cancel", "channel-not-closed", "event-after-unregister-ack"}

type failure struct{ clause, detail string }

var collected []failure

func failf(clause, format string, args ...interface{}) {
	collected = append(collected, failure{clause, fmt.Sprintf(format, args...)})
}

func flush() {
	defer func() { collected = nil }()
	for _, p := range prio {
		for _, f := range collected {
			if len(f.clause) >= len(p) && f.clause[:len(p)] == p {
				vrt.Failf(p, "%s (%s)", f.detail, f.clause)
				return
			}
		}
	}
	for _, f := range collected {
		vrt.Failf(f.clause, "%s", f.detail)
		return
	}
}

type window struct {
	subReturned int // step at which SubscribeTick returned (0: not yet)
	cancelStart int // step at which the cancel function was called (0: never)
	got         []int32
	closed      bool
	cancel      func()
	err         error
}

type emission struct {
	signal     string
	n          int32
	start, end int
}

// subscribe opens one subscription window on proxy p.
func subscribe(name string, p probe.ProbeProxy) *window {
	w := &window{}
	cancel, ch, err := p.SubscribeTick()
	if err != nil {
		w.err = err
		failf("subscribe-failed/"+name, "SubscribeTick failed: %v", err)
		return w
	}
	w.cancel = cancel
	w.subReturned = vrt.Step()
	vrt.GoNamed("drain-"+name, func() {
		for v := range ch {
			w.got = append(w.got, v)
		}
		w.closed = true
	})
	return w
}

func (w *window) stop() {
	if w.cancel == nil {
		return
	}
	w.cancelStart = vrt.Step()
	w.cancel()
}

// check applies the real-time containment oracle to one window.
func (w *window) check(name string, ems []emission) {
	if w.err != nil || w.subReturned == 0 {
		return
	}
	var required []int32
	for _, e := range ems {
		if e.signal != "tick" || e.end == 0 {
			continue
		}
		if e.start > w.subReturned && (w.cancelStart == 0 || e.end < w.cancelStart) {
			required = append(required, e.n)
		}
	}
	// what was received must be an increasing sequence of emitted tick values
	last := int32(0)
	for _, v := range w.got {
		if v == 9 {
			failf("foreign-signal-delivered/"+name, "subscriber of tick received the payload of signal other: %v", w.got)
			return
		}
		if v == last {
			failf("event-duplicated/"+name, "event %d delivered twice: %v", v, w.got)
			return
		}
		if v < last {
			failf("event-order/"+name, "events out of emission order: %v", w.got)
			return
		}
		last = v
	}
	// every required event is present
	for _, r := range required {
		found := false
		for _, v := range w.got {
			if v == r {
				found = true
			}
		}
		if !found {
			failf("event-lost/"+name, "tick(%d) was emitted entirely between the subscription's acknowledgement (step %d) and its cancellation (step %d) but was not delivered: got %v, required %v",
				r, w.subReturned, w.cancelStart, w.got, required)
			return
		}
	}
	if len(required) > 0 {
		vrt.Flag("required-event")
	}
	if w.cancelStart != 0 && !w.closed {
		failf("channel-not-closed/"+name, "the subscription channel is still open after its cancel function returned")
	}
}

// checkTap: no Event frame for the signal on a connection after the server
// acknowledged the removal of its last registration and before a new
// registerEvent call was sent.
func checkTap(name string, c *fx.Conn) {
	type ev struct {
		step int
		kind string
	}
	var evs []ev
	regCalls := map[uint32]bool{}
	unregCalls := map[uint32]bool{}
	for _, f := range c.Out.Frames {
		if f.Hdr.Type == net.Call && f.Hdr.Action == 0 && f.Hdr.Service == c.W.ServiceID {
			regCalls[f.Hdr.ID] = true
			evs = append(evs, ev{f.Step, "reg-call"})
		}
		if f.Hdr.Type == net.Call && f.Hdr.Action == 1 && f.Hdr.Service == c.W.ServiceID {
			unregCalls[f.Hdr.ID] = true
		}
	}
	for _, f := range c.In.Frames {
		switch {
		case f.Hdr.Type == net.Reply && f.Hdr.Action == 0 && regCalls[f.Hdr.ID]:
			evs = append(evs, ev{f.Step, "reg-ack"})
		case f.Hdr.Type == net.Reply && f.Hdr.Action == 1 && unregCalls[f.Hdr.ID]:
			evs = append(evs, ev{f.Step, "unreg-ack"})
		case f.Hdr.Type == net.Event && f.Hdr.Action == 105:
			evs = append(evs, ev{f.Step, "event"})
		}
	}
	// stable sort by step (taps of both directions interleaved)
	for i := 1; i < len(evs); i++ {
		for j := i; j > 0 && evs[j].step < evs[j-1].step; j-- {
			evs[j], evs[j-1] = evs[j-1], evs[j]
		}
	}
	// acked: registrations acknowledged and not yet acknowledged as removed;
	// pending: registerEvent calls sent and not yet answered; an Event frame
	// is illegitimate when both are zero after a removal was acknowledged.
	acked, pending, removed := 0, 0, false
	for _, e := range evs {
		switch e.kind {
		case "reg-call":
			pending++
		case "reg-ack":
			pending--
			acked++
		case "unreg-ack":
			acked--
			removed = true
		case "event":
			if removed && acked <= 0 && pending <= 0 {
				failf("event-after-unregister-ack/"+name, "an Event frame of the signal was sent on the connection at step %d, after the server acknowledged the removal of its last registration", e.step)
				return
			}
		}
	}
}

// body: subscriber A subscribes, cancels and subscribes again; subscriber B
// subscribes and stays; one emitter.
func body(sameClient bool, fine bool) func() {
	return func() {
		collected = nil
		w := fx.Start(bus.Yes{})
		c1 := w.MustConnect()
		c2 := c1
		if !sameClient {
			c2 = w.MustConnect()
		}
		pA, pB := c1.Probe(1), c2.Probe(1)
		vrt.Explore()
		vrt.SetFine(fine)
		var a1, a2, b1 *window
		var ems []emission
		wa := vrt.GoWorker("subscriber-A", func() {
			a1 = subscribe("A1", pA)
			a1.stop()
			a2 = subscribe("A2", pA)
		})
		wb := vrt.GoWorker("subscriber-B", func() {
			b1 = subscribe("B", pB)
		})
		we := vrt.GoWorker("emitter", func() {
			for _, e := range []emission{{"tick", 1, 0, 0}, {"tick", 2, 0, 0}, {"other", 9, 0, 0}, {"tick", 3, 0, 0}} {
				e.start = vrt.Step()
				var err error
				if e.signal == "tick" {
					err = w.Root.Helper.SignalTick(e.n)
				} else {
					err = w.Root.Helper.SignalOther(e.n)
				}
				if err != nil {
					failf("emit-error", "emitting %s(%d) failed: %v", e.signal, e.n, err)
				}
				e.end = vrt.Step()
				ems = append(ems, e)
			}
		})
		vrt.Quiesce()
		fx.Settle(wa, wb, we)
		if a1 != nil {
			a1.check("A1", ems)
		}
		if a2 != nil {
			a2.check("A2", ems)
		}
		if b1 != nil {
			b1.check("B", ems)
		}
		checkTap("conn1", c1)
		if !sameClient {
			checkTap("conn2", c2)
		}
		// late phase: everybody is subscribed now; one more event reaches both
		if a2 != nil && b1 != nil && a2.err == nil && b1.err == nil {
			nA, nB := len(a2.got), len(b1.got)
			if err := w.Root.Helper.SignalTick(4); err != nil {
				failf("emit-error", "late emission failed: %v", err)
			}
			vrt.Quiesce()
			lateCheck := func(name string, got []int32, before int, v int32) {
				n := 0
				for _, x := range got[before:] {
					if x == v {
						n++
					}
				}
				if n > 1 {
					failf("event-duplicated/"+name, "tick(%d) delivered %d times: %v", v, n, got)
				} else if n == 0 || len(got) != before+1 {
					failf("late-event-lost/"+name, "tick(%d) emitted while %s was subscribed: received %v", v, name, got)
				}
			}
			lateCheck("A2", a2.got, nA, 4)
			lateCheck("B", b1.got, nB, 4)
			// B leaves: A must be undisturbed
			b1.stop()
			vrt.Quiesce()
			if !b1.closed {
				failf("channel-not-closed/B", "B's channel still open after cancellation")
			}
			nA = len(a2.got)
			w.Root.Helper.SignalTick(5)
			vrt.Quiesce()
			n5 := 0
			for _, x := range a2.got[nA:] {
				if x == 5 {
					n5++
				}
			}
			if n5 > 1 {
				failf("event-duplicated/A2", "tick(5) delivered %d times: %v", n5, a2.got)
			} else if n5 == 0 {
				failf("disturbed-by-other-unsubscribe/A2", "after B cancelled, tick(5) did not reach A: %v", a2.got)
			}
			if len(b1.got) > 0 && b1.got[len(b1.got)-1] == 5 {
				failf("event-after-cancel/B", "B received tick(5) after cancelling: %v", b1.got)
			}
			a2.stop()
			vrt.Quiesce()
			checkTap("conn1-late", c1)
			if !sameClient {
				checkTap("conn2-late", c2)
			}
		}
		fx.Settle()
		flush()
		got := func(x *window) string {
			if x == nil {
				return "-"
			}
			return fmt.Sprint(x.got)
		}
		c1.LogTaps("conn1")
		vrt.Observe("A1=%s A2=%s B=%s", got(a1), got(a2), got(b1))
	}
}

func init() {
	reg.Register(&reg.Scenario{Property: "C13", Name: "different-connections", Body: body(false, false), Quick: 1, Thorough: 3,
		Doc: "A: subscribe,cancel,subscribe || B: subscribe || emitter tick(1) tick(2) other(9) tick(3); A and B on different connections; then tick(4), B leaves, tick(5)", MustFlag: []string{"required-event"}})
	reg.Register(&reg.Scenario{Property: "C13", Name: "same-client", Body: body(true, false), Quick: 1, Thorough: 3,
		Doc: "same with A and B on two proxies of one client (shared registration)", MustFlag: []string{"required-event"}})
	reg.Register(&reg.Scenario{Property: "C13", Name: "same-client-statement-level", Body: body(true, true), Quick: -1, Thorough: 2,
		Doc: "same-client with bus/signal.go, bus/proxy.go and bus/client.go interleaved at statement level"})
}
