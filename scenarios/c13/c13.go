// Package c13 holds the engine-B scenarios of property C13: subscribers get
// each emitted event exactly once, in order, only while subscribed.
package c13

import (
	"context"
	"fmt"

	"github.com/lugu/qiloop/bus"
	"github.com/lugu/qiloop/bus/net"

	"verif/rt/vrt"
	"verif/scenarios/fx"
	"verif/scenarios/probe"
	"verif/scenarios/reg"
)

// One symptom per execution: the failures of an execution are collected and
// only the one with the highest priority is reported, so that one root cause
// does not surface under a dozen fingerprints.
var prio = []string{"subscribe-failed", "call-failed", "emit-error", "=event-dropped-at-cancel", "event-duplicated", "foreign-signal-delivered", "event-order", "event-lost", "event-lost-after-ack",
	"late-event-lost", "disturbed-by-other-unsubscribe", "event-after-cancel", "channel-not-closed", "event-after-unregister-ack"}

type failure struct{ clause, detail string }

var collected []failure

func failf(clause, format string, args ...interface{}) {
	collected = append(collected, failure{clause, fmt.Sprintf(format, args...)})
}

func flush() {
	defer func() { collected = nil }()
	for _, p := range prio {
		for _, f := range collected {
			if len(f.clause) >= len(p) && f.clause[:len(p)] == p {
				vrt.Failf(p, "%s (%s)", f.detail, f.clause)
				return
			}
		}
	}
	for _, f := range collected {
		vrt.Failf(f.clause, "%s", f.detail)
		return
	}
}

type window struct {
	subStart    int // step at which SubscribeTick was called
	subReturned int // step at which SubscribeTick returned (0: not yet)
	cancelStart int // step at which the cancel function was called (0: never)
	got         []int32
	closed      bool
	cancel      func()
	err         error
	conn        *fx.Conn // the subscriber's connection (wire tap), may be nil
}

// arrivedBeforeCancel reports whether an Event frame of tick(n) reached the
// subscriber's connection before its cancel function was called.
func (w *window) arrivedBeforeCancel(n int32) bool {
	if w.conn == nil {
		return false
	}
	for _, f := range w.conn.In.Frames {
		if f.Hdr.Type == net.Event && f.Hdr.Action == 105 && len(f.Payload) == 4 && int32(f.Payload[0]) == n &&
			(w.cancelStart == 0 || f.Step < w.cancelStart) && f.Step > w.subReturned {
			return true
		}
	}
	return false
}

type emission struct {
	signal     string
	n          int32
	start, end int
}

// subscribe opens one subscription window on proxy p.
func subscribe(name string, p probe.ProbeProxy, conn ...*fx.Conn) *window {
	w := &window{}
	if len(conn) > 0 {
		w.conn = conn[0]
	}
	w.subStart = vrt.Step()
	cancel, ch, err := p.SubscribeTick()
	if err != nil {
		w.err = err
		failf("subscribe-failed/"+name, "SubscribeTick failed: %v", err)
		return w
	}
	w.cancel = cancel
	w.subReturned = vrt.Step()
	vrt.GoNamed("drain-"+name, func() {
		for v := range ch {
			w.got = append(w.got, v)
		}
		w.closed = true
	})
	return w
}

func (w *window) stop() {
	if w.cancel == nil {
		return
	}
	w.cancelStart = vrt.Step()
	w.cancel()
}

// check applies the real-time containment oracle to one window.
func (w *window) check(name string, ems []emission) {
	if w.err != nil || w.subReturned == 0 {
		return
	}
	var required []int32
	for _, e := range ems {
		if e.signal != "tick" || e.end == 0 {
			continue
		}
		if e.start > w.subReturned && (w.cancelStart == 0 || e.end < w.cancelStart) {
			required = append(required, e.n)
		}
	}
	// what was received must be an increasing sequence of emitted tick values
	last := int32(0)
	for _, v := range w.got {
		if v == 9 {
			failf("foreign-signal-delivered/"+name, "subscriber of tick received the payload of signal other: %v", w.got)
			return
		}
		if v == last {
			failf("event-duplicated/"+name, "event %d delivered twice: %v", v, w.got)
			return
		}
		if v < last {
			failf("event-order/"+name, "events out of emission order: %v", w.got)
			return
		}
		last = v
	}
	// every required event is present
	for _, r := range required {
		found := false
		for _, v := range w.got {
			if v == r {
				found = true
			}
		}
		if !found && w.cancelStart != 0 && w.arrivedBeforeCancel(r) {
			// the frame reached the subscriber's connection in time and was
			// dropped by the client when the cancellation raced its
			// forwarding goroutines: property-wide fingerprint
			failf("=event-dropped-at-cancel", "tick(%d) was emitted and reached the subscriber's connection before %s asked to cancel (step %d), but the client's forwarding goroutine saw the cancellation first and dropped it: got %v", r, name, w.cancelStart, w.got)
			return
		}
		if !found {
			failf("event-lost/"+name, "tick(%d) was emitted entirely between the subscription's acknowledgement (step %d) and its cancellation (step %d) but was not delivered: got %v, required %v",
				r, w.subReturned, w.cancelStart, w.got, required)
			return
		}
	}
	// wire-level rule: once the server's acknowledgement of THIS window's
	// registerEvent call has reached the connection, every Event frame of the
	// signal arriving there before the cancellation is asked must be handed
	// to the subscriber (the acknowledgement may precede the return of
	// SubscribeTick)
	if w.conn != nil {
		regID, ackStep := uint32(0), 0
		for _, f := range w.conn.Out.Frames {
			if f.Hdr.Type == net.Call && f.Hdr.Action == 0 && f.Hdr.Service == w.conn.W.ServiceID && f.Step >= w.subStart && f.Step <= w.subReturned {
				regID = f.Hdr.ID
			}
		}
		for _, f := range w.conn.In.Frames {
			if regID != 0 && f.Hdr.Type == net.Reply && f.Hdr.Action == 0 && f.Hdr.ID == regID && f.Step >= w.subStart {
				ackStep = f.Step
			}
		}
		if ackStep != 0 {
			for _, f := range w.conn.In.Frames {
				if f.Hdr.Type != net.Event || f.Hdr.Action != 105 || len(f.Payload) != 4 || f.Step <= ackStep || (w.cancelStart != 0 && f.Step >= w.cancelStart) {
					continue
				}
				n := int32(f.Payload[0])
				found := false
				for _, v := range w.got {
					if v == n {
						found = true
					}
				}
				if !found && w.cancelStart != 0 {
					failf("=event-dropped-at-cancel", "tick(%d) reached the subscriber's connection (step %d) after the registration was acknowledged (step %d) and before %s asked to cancel (step %d), but was dropped: got %v", n, f.Step, ackStep, name, w.cancelStart, w.got)
					return
				}
				if !found {
					failf("event-lost-after-ack/"+name, "the Event frame of tick(%d) reached the subscriber's connection at step %d, after the server's acknowledgement of the registration arrived (step %d), but was never handed to the subscriber: got %v", n, f.Step, ackStep, w.got)
					return
				}
			}
		}
	}
	if len(required) > 0 {
		vrt.Flag("required-event")
	}
	if w.cancelStart != 0 && !w.closed {
		failf("channel-not-closed/"+name, "the subscription channel is still open after its cancel function returned")
	}
}

// checkTap: no Event frame for the signal on a connection after the server
// acknowledged the removal of its last registration and before a new
// registerEvent call was sent.
func checkTap(name string, c *fx.Conn) {
	type ev struct {
		step int
		kind string
	}
	var evs []ev
	regCalls := map[uint32]bool{}
	unregCalls := map[uint32]bool{}
	for _, f := range c.Out.Frames {
		if f.Hdr.Type == net.Call && f.Hdr.Action == 0 && f.Hdr.Service == c.W.ServiceID {
			regCalls[f.Hdr.ID] = true
			evs = append(evs, ev{f.Step, "reg-call"})
		}
		if f.Hdr.Type == net.Call && f.Hdr.Action == 1 && f.Hdr.Service == c.W.ServiceID {
			unregCalls[f.Hdr.ID] = true
		}
	}
	for _, f := range c.In.Frames {
		switch {
		case f.Hdr.Type == net.Reply && f.Hdr.Action == 0 && regCalls[f.Hdr.ID]:
			evs = append(evs, ev{f.Step, "reg-ack"})
		case f.Hdr.Type == net.Reply && f.Hdr.Action == 1 && unregCalls[f.Hdr.ID]:
			evs = append(evs, ev{f.Step, "unreg-ack"})
		case f.Hdr.Type == net.Event && f.Hdr.Action == 105:
			evs = append(evs, ev{f.Step, "event"})
		}
	}
	// stable sort by step (taps of both directions interleaved)
	for i := 1; i < len(evs); i++ {
		for j := i; j > 0 && evs[j].step < evs[j-1].step; j-- {
			evs[j], evs[j-1] = evs[j-1], evs[j]
		}
	}
	// acked: registrations acknowledged and not yet acknowledged as removed;
	// pending: registerEvent calls sent and not yet answered; an Event frame
	// is illegitimate when both are zero after a removal was acknowledged.
	acked, pending, removed := 0, 0, false
	for _, e := range evs {
		switch e.kind {
		case "reg-call":
			pending++
		case "reg-ack":
			pending--
			acked++
		case "unreg-ack":
			acked--
			removed = true
		case "event":
			if removed && acked <= 0 && pending <= 0 {
				failf("event-after-unregister-ack/"+name, "an Event frame of the signal was sent on the connection at step %d, after the server acknowledged the removal of its last registration", e.step)
				return
			}
		}
	}
}

// body: subscriber A subscribes, cancels and subscribes again; subscriber B
// subscribes and stays; one emitter.
func body(sameClient bool, fine bool, rejoin bool) func() {
	return func() {
		collected = nil
		w := fx.Start(bus.Yes{})
		c1 := w.MustConnect()
		c2 := c1
		if !sameClient {
			c2 = w.MustConnect()
		}
		pA, pB := c1.Probe(1), c2.Probe(1)
		vrt.Explore()
		vrt.SetFine(fine)
		var a1, a2, b1 *window
		var ems []emission
		wa := vrt.GoWorker("subscriber-A", func() {
			a1 = subscribe("A1", pA, c1)
			if !rejoin {
				return // nobody ever cancels in this variant
			}
			a1.stop()
			a2 = subscribe("A2", pA, c1)
		})
		wb := vrt.GoWorker("subscriber-B", func() {
			b1 = subscribe("B", pB, c2)
		})
		we := vrt.GoWorker("emitter", func() {
			for _, e := range []emission{{"tick", 1, 0, 0}, {"tick", 2, 0, 0}, {"other", 9, 0, 0}, {"tick", 3, 0, 0}} {
				e.start = vrt.Step()
				var err error
				if e.signal == "tick" {
					err = w.Root.Helper.SignalTick(e.n)
				} else {
					err = w.Root.Helper.SignalOther(e.n)
				}
				if err != nil {
					failf("emit-error", "emitting %s(%d) failed: %v", e.signal, e.n, err)
				}
				e.end = vrt.Step()
				ems = append(ems, e)
			}
		})
		vrt.Quiesce()
		fx.Settle(wa, wb, we)
		if a1 != nil {
			a1.check("A1", ems)
		}
		if a2 != nil {
			a2.check("A2", ems)
		}
		if b1 != nil {
			b1.check("B", ems)
		}
		checkTap("conn1", c1)
		if !sameClient {
			checkTap("conn2", c2)
		}
		fx.Settle()
		flush()
		got := func(x *window) string {
			if x == nil {
				return "-"
			}
			return fmt.Sprint(x.got)
		}
		c1.LogTaps("conn1")
		vrt.Observe("A1=%s A2=%s B=%s", got(a1), got(a2), got(b1))
	}
}

// besideCaller: a goroutine subscribes while another goroutine of the same
// client makes ordinary calls (the answer handlers of the calls and the event
// handler of the subscription share the connection's handler table). Only the
// subscription and the calls are explored; the events are emitted afterwards
// on the default schedule: the subscriber receives every one of them, its
// channel stays open until it cancels, the calls get their results.
func besideCaller() {
	collected = nil
	w := fx.Start(bus.Yes{})
	c1 := w.MustConnect()
	pA, pCall := c1.Probe(1), c1.Probe(1)
	vrt.Explore()
	var a1 *window
	var ems []emission
	callErr := 0
	wa := vrt.GoWorker("subscriber", func() { a1 = subscribe("S", pA, c1) })
	wc := vrt.GoWorker("caller", func() {
		for i := int32(0); i < 2; i++ {
			if v, err := pCall.Echo(5 + i); err != nil || v != probe.EchoResult(5+i) {
				callErr++
				failf("call-failed/beside-subscriber", "echo(%d) on the subscriber's connection failed: %v (result %d)", 5+i, err, v)
			}
		}
	})
	vrt.Quiesce()
	fx.Settle(wa, wc)
	vrt.Freeze()
	for _, n := range []int32{1, 2, 3} {
		e := emission{"tick", n, vrt.Step(), 0}
		if err := w.Root.Helper.SignalTick(n); err != nil {
			failf("emit-error", "emitting tick(%d) failed: %v", n, err)
		}
		vrt.Quiesce()
		e.end = vrt.Step()
		ems = append(ems, e)
	}
	if a1 != nil && a1.err == nil {
		if a1.closed {
			failf("event-lost/channel-closed-while-subscribed", "the subscription channel was closed although the subscriber never cancelled: got %v", a1.got)
		}
		a1.check("S", ems)
		a1.stop()
		vrt.Quiesce()
		if !a1.closed {
			failf("channel-not-closed/S", "the subscription channel is still open after its cancel function returned")
		}
	}
	fx.Settle()
	flush()
	vrt.Observe("S=%v callErr=%d", a1 != nil && a1.err == nil, callErr)
}

// twoSignals: one connection follows TWO signals of one object (tick and
// other) and the level property; it stops following one of them: the other
// subscriptions of the same connection keep receiving every event.
func twoSignals() {
	collected = nil
	w := fx.Start(bus.Yes{})
	c1 := w.MustConnect()
	p := c1.Probe(1)
	which := vrt.ChooseFree(3, "which subscription is cancelled")
	vrt.Explore()
	var ticks, others, levels []int32
	cancelT, chT, errT := p.SubscribeTick()
	cancelO, chO, errO := p.SubscribeOther()
	cancelL, chL, errL := p.SubscribeLevel()
	if errT != nil || errO != nil || errL != nil {
		failf("subscribe-failed/two-signals", "subscribing to tick / other / level on one connection failed: %v %v %v", errT, errO, errL)
		flush()
		return
	}
	vrt.GoNamed("drain-tick", func() {
		for v := range chT {
			ticks = append(ticks, v)
		}
	})
	vrt.GoNamed("drain-other", func() {
		for v := range chO {
			others = append(others, v)
		}
	})
	vrt.GoNamed("drain-level", func() {
		for v := range chL {
			levels = append(levels, v)
		}
	})
	emit := func(n int32) {
		if err := w.Root.Helper.SignalTick(n); err != nil {
			failf("emit-error", "tick(%d): %v", n, err)
		}
		if err := w.Root.Helper.SignalOther(n + 10); err != nil {
			failf("emit-error", "other(%d): %v", n+10, err)
		}
		if err := w.Root.Helper.UpdateLevel(n + 20); err != nil {
			failf("emit-error", "level(%d): %v", n+20, err)
		}
		vrt.Quiesce()
	}
	emit(1)
	[]func(){cancelT, cancelO, cancelL}[which]()
	vrt.Quiesce()
	emit(2)
	want := [][]int32{{1, 2}, {11, 12}, {21, 22}}
	want[which] = want[which][:1]
	names := []string{"tick", "other", "level"}
	for i, got := range [][]int32{ticks, others, levels} {
		if i != which && fmt.Sprint(got) != fmt.Sprint(want[i]) {
			failf("disturbed-by-other-unsubscribe/"+names[i], "one connection followed tick, other and level of one object and stopped following %s: its %s subscription received %v, expected %v", names[which], names[i], got, want[i])
		}
		if i == which && len(got) > 1 {
			failf("event-after-cancel/"+names[i], "the cancelled %s subscription received %v", names[i], got)
		}
	}
	fx.Settle()
	flush()
	vrt.Observe("cancelled=%s tick=%v other=%v level=%v", names[which], ticks, others, levels)
}

// histories: sequential conformance (no concurrency, every step runs to
// quiescence): two subscribers arrive, leave in either order, then a third one
// arrives; each window must receive exactly the events emitted while it was
// open.
func histories(sameClient bool) func() {
	return func() {
		collected = nil
		w := fx.Start(bus.Yes{})
		c1 := w.MustConnect()
		c2 := c1
		if !sameClient {
			c2 = w.MustConnect()
		}
		pA, pB := c1.Probe(1), c2.Probe(1)
		order := vrt.ChooseFree(2, "who-leaves-first")
		third := vrt.ChooseFree(2, "third-subscriber-connection")
		// the object's per-call statistics / tracing wrap the caller's channel
		mode := vrt.ChooseFree(3, "object-mode")
		switch mode {
		case 1:
			if err := pA.EnableStats(true); err != nil {
				vrt.Failf("harness/enable-stats", "%v", err)
			}
		case 2:
			if err := pA.EnableTrace(true); err != nil {
				vrt.Failf("harness/enable-trace", "%v", err)
			}
		}
		vrt.Explore()
		n := int32(0)
		emit := func() int32 {
			n++
			if err := w.Root.Helper.SignalTick(n); err != nil {
				failf("emit-error", "emitting tick(%d) failed: %v", n, err)
			}
			w.Root.Helper.SignalOther(9)
			vrt.Quiesce()
			return n
		}
		expect := map[string][]int32{}
		open := map[string]bool{}
		step := func() {
			v := emit()
			for name, o := range open {
				if o {
					expect[name] = append(expect[name], v)
				}
			}
		}
		a := subscribe("A", pA)
		vrt.Quiesce()
		open["A"] = true
		step()
		b := subscribe("B", pB)
		vrt.Quiesce()
		open["B"] = true
		step()
		first, second, fn, sn := a, b, "A", "B"
		if order == 1 {
			first, second, fn, sn = b, a, "B", "A"
		}
		first.stop()
		vrt.Quiesce()
		open[fn] = false
		step()
		second.stop()
		vrt.Quiesce()
		open[sn] = false
		step()
		pC := pA
		if third == 1 {
			pC = pB
		}
		c := subscribe("C", pC)
		vrt.Quiesce()
		open["C"] = true
		step()
		c.stop()
		vrt.Quiesce()
		open["C"] = false
		step()
		for name, win := range map[string]*window{"A": a, "B": b, "C": c} {
			if win.err != nil {
				continue
			}
			if fmt.Sprint(win.got) != fmt.Sprint(expect[name]) && !(len(win.got) == 0 && len(expect[name]) == 0) {
				clause := "history-events-differ/"
				for i, v := range win.got {
					if i > 0 && win.got[i-1] == v {
						clause = "history-event-duplicated/"
					}
				}
				failf(clause+name, "sequential history (first leaver %s, third subscriber on connection %d, object mode %d [0 plain, 1 statistics, 2 tracing]): %s received %v, the events emitted while it was subscribed are %v", fn, third+1, mode, name, win.got, expect[name])
			}
			if !win.closed {
				failf("channel-not-closed/"+name, "channel of %s still open after cancellation", name)
			}
		}
		checkTap("conn1", c1)
		if !sameClient {
			checkTap("conn2", c2)
		}
		fx.Settle()
		// report the most specific symptom
		for _, f := range collected {
			vrt.Failf(f.clause, "%s", f.detail)
			break
		}
		collected = nil
		vrt.Observe("A=%v B=%v C=%v", a.got, b.got, c.got)
	}
}

// three: three subscribers on three connections; the middle one leaves while
// the emitter is sending.
func three() { threeBody(false)() }

// threeBody: abrupt = the middle subscriber's connection is cut instead of
// being cancelled (the others must not be disturbed).
func threeBody(abrupt bool) func() {
	return func() { threeRun(abrupt) }
}

func threeRun(abrupt bool) {
	collected = nil
	w := fx.Start(bus.Yes{})
	cs := []*fx.Conn{w.MustConnect(), w.MustConnect(), w.MustConnect()}
	var ws []*window
	for i, c := range cs {
		ws = append(ws, subscribe(fmt.Sprintf("S%d", i), c.Probe(1), c))
	}
	vrt.Quiesce()
	vrt.Explore()
	var ems []emission
	we := vrt.GoWorker("emitter", func() {
		for n := int32(1); n <= 2; n++ {
			e := emission{signal: "tick", n: n, start: vrt.Step()}
			if err := w.Root.Helper.SignalTick(n); err != nil && !abrupt {
				// (with a cut connection the helper may report the broken
				// subscriber to the emitter: that is not judged)
				failf("emit-error", "emitting tick(%d) failed: %v", n, err)
			}
			e.end = vrt.Step()
			ems = append(ems, e)
		}
	})
	wl := vrt.GoWorker("leaver", func() {
		if abrupt {
			ws[1].cancelStart = vrt.Step()
			cs[1].Raw.Close()
			return
		}
		ws[1].stop()
	})
	vrt.Quiesce()
	fx.Settle(we, wl)
	for i, x := range ws {
		if abrupt && i == 1 {
			continue // its connection was cut: nothing is promised to it
		}
		x.check(fmt.Sprintf("S%d", i), ems)
	}
	for i, c := range cs {
		if abrupt && i == 1 {
			continue
		}
		checkTap(fmt.Sprintf("conn%d", i), c)
	}
	if len(ws[1].got) < 2 {
		vrt.Flag("left-during-emission")
	}
	flush()
	cs[1].LogTaps("conn-S1")
	vrt.Observe("S0=%v S1=%v S2=%v", ws[0].got, ws[1].got, ws[2].got)
}

// ctxCancelled: the subscription was taken through a proxy bound to a context
// (Proxy.WithContext) and the context is done when the subscriber cancels: the
// unregistration call fails, the cancellation must still take effect locally
// (channel closed, nothing delivered afterwards) and the other subscriber is
// not disturbed.
func ctxCancelled() {
	collected = nil
	w := fx.Start(bus.Yes{})
	c1, c2 := w.MustConnect(), w.MustConnect()
	ctx, stopCtx := context.WithCancel(context.Background())
	parent := c1.Probe(1) // the proxy the context-bound one is derived from
	pA := parent.WithContext(ctx)
	pB := c2.Probe(1)
	a := subscribe("A", pA, c1)
	b := subscribe("B", pB, c2)
	vrt.Quiesce()
	vrt.Explore()
	emit := func(n int32) {
		if err := w.Root.Helper.SignalTick(n); err != nil {
			failf("emit-error", "emitting tick(%d) failed: %v", n, err)
		}
		vrt.Quiesce()
	}
	emit(1)
	stopCtx()
	a.stop()
	vrt.Quiesce()
	emit(2)
	emit(3)
	if a.err == nil {
		if !a.closed {
			failf("channel-not-closed/A", "the subscription channel is still open after its cancel function returned (the context of its proxy was done, so the unregistration call failed)")
		}
		if fmt.Sprint(a.got) != "[1]" {
			failf("event-after-cancel/A", "subscriber A received %v; it cancelled after tick(1)", a.got)
		}
	}
	if b.err == nil && fmt.Sprint(b.got) != "[1 2 3]" {
		failf("disturbed-by-other-unsubscribe/B", "subscriber B received %v of [1 2 3] while A cancelled with a done context", b.got)
	}
	// the proxy the context-bound one was derived from has its own life: it
	// still calls and subscribes after that context ended
	if v, err := parent.Echo(4); err != nil || v != probe.EchoResult(4) {
		failf("call-failed/parent-proxy-after-derived-context-ended", "echo(4) through the original proxy fails after the context of a proxy derived from it (WithContext) was cancelled: %v", err)
	} else {
		c := subscribe("parent", parent, c1)
		vrt.Quiesce()
		emit(5)
		switch {
		case c.err != nil:
		case fmt.Sprint(c.got) == "[5 5]":
			failf("event-duplicated/subscription-after-a-cancel-with-done-context", "A cancelled its subscription through a proxy whose context was done: the unregistration call was refused locally, the server keeps A's registration; a later subscription of the same client registers again and receives every event twice: %v", c.got)
		case fmt.Sprint(c.got) != "[5]":
			failf("event-lost/parent-proxy-after-derived-context-ended", "a subscription through the original proxy, opened after the derived proxy's context ended, received %v of [5]", c.got)
		}
	}
	flush()
	fx.Settle()
	vrt.Observe("A=%v B=%v", a.got, b.got)
}

// twoObjects: the same signal of two objects of one service is followed
// through one connection; each subscription stands on its own.
func twoObjects() {
	collected = nil
	w := fx.Start(bus.Yes{})
	c1 := w.MustConnect()
	childProxy, err := c1.Probe(1).Spawn()
	if err != nil {
		vrt.Failf("harness/spawn", "%v", err)
		return
	}
	childID := childProxy.Proxy().ObjectID()
	child := w.Root.Children[0]
	pR, pC := c1.Probe(1), c1.Probe(childID)
	childFirst := vrt.ChooseFree(2, "child subscribes first") == 1
	vrt.Explore()
	type win struct {
		got    []int32
		closed bool
		cancel func()
	}
	sub := func(name string, p probe.ProbeProxy) *win {
		x := &win{}
		cancel, ch, err := p.SubscribeTick()
		if err != nil {
			failf("subscribe-failed/"+name, "SubscribeTick failed: %v", err)
			return x
		}
		x.cancel = cancel
		vrt.GoNamed("drain-"+name, func() {
			for v := range ch {
				x.got = append(x.got, v)
			}
			x.closed = true
		})
		return x
	}
	emit := func(r, c int32) {
		if err := w.Root.Helper.SignalTick(r); err != nil {
			failf("emit-error", "root tick(%d): %v", r, err)
		}
		if err := child.Helper.SignalTick(c); err != nil {
			failf("emit-error", "child tick(%d): %v", c, err)
		}
		vrt.Quiesce()
	}
	var r1, c1w *win
	if childFirst {
		c1w = sub("child", pC)
		vrt.Quiesce()
		r1 = sub("root", pR)
	} else {
		r1 = sub("root", pR)
		vrt.Quiesce()
		c1w = sub("child", pC)
	}
	vrt.Quiesce()
	emit(1, 101)
	if r1.cancel != nil {
		r1.cancel()
	}
	vrt.Quiesce()
	emit(2, 102)
	r2 := sub("root-again", pR)
	vrt.Quiesce()
	emit(3, 103)
	if c1w.cancel != nil {
		c1w.cancel()
	}
	vrt.Quiesce()
	emit(4, 104)
	if r2.cancel != nil {
		r2.cancel()
	}
	vrt.Quiesce()
	emit(5, 105)
	want := map[string][]int32{"root": {1}, "child": {101, 102, 103}, "root-again": {3, 4}}
	for name, x := range map[string]*win{"root": r1, "child": c1w, "root-again": r2} {
		if x.cancel == nil {
			continue
		}
		if fmt.Sprint(x.got) != fmt.Sprint(want[name]) {
			clause := "two-objects/events-differ/"
			if len(x.got) > len(want[name]) {
				clause = "two-objects/event-duplicated-or-foreign/"
			}
			failf(clause+name, "subscriber %s (child first: %v) received %v; the events of its object while it was subscribed are %v", name, childFirst, x.got, want[name])
		}
		if !x.closed {
			failf("channel-not-closed/"+name, "the channel of %s is still open after its cancellation", name)
		}
	}
	checkTap("conn1", c1)
	flush()
	fx.Settle()
	vrt.Observe("childFirst=%v root=%v child=%v again=%v", childFirst, r1.got, c1w.got, r2.got)
}

// manySubscribers: twelve subscribers on twelve connections (more than any
// ten-slot table of the implementation); every one receives every event once.
func manySubscribers() {
	collected = nil
	w := fx.Start(bus.Yes{})
	const n = 12
	type sw struct {
		got    []int32
		closed bool
	}
	subs := make([]*sw, n)
	cancels := make([]func(), n)
	for i := 0; i < n; i++ {
		i := i
		c := w.MustConnect()
		cancel, ch, err := c.Probe(1).SubscribeTick()
		if err != nil {
			vrt.Failf("subscribe-failed/many", "subscriber %d of %d: %v", i, n, err)
			return
		}
		cancels[i] = cancel
		subs[i] = &sw{}
		vrt.GoNamed(fmt.Sprintf("drain-%d", i), func() {
			for v := range ch {
				subs[i].got = append(subs[i].got, v)
			}
			subs[i].closed = true
		})
	}
	vrt.Quiesce()
	leaver := vrt.ChooseFree(n+1, "one subscriber leaves first (or none)")
	vrt.Explore()
	if leaver < n {
		cancels[leaver]()
		vrt.Quiesce()
	}
	for k := int32(1); k <= 2; k++ {
		if err := w.Root.Helper.SignalTick(k); err != nil {
			failf("emit-error", "emitting tick(%d) failed: %v", k, err)
		}
		vrt.Quiesce()
	}
	for i, x := range subs {
		want := "[1 2]"
		if i == leaver {
			want = "[]"
		}
		if fmt.Sprint(x.got) != want {
			failf("many-subscribers/events-differ", "with %d subscribers on %d connections (subscriber %d left first), subscriber %d received %v, expected %s", n, n, leaver, i, x.got, want)
			break
		}
	}
	flush()
	fx.Settle()
	vrt.Observe("leaver=%d", leaver)
}

// cycles: the same proxy subscribes and cancels three times in a row; an
// event after every step; then two subscribers at once: every window receives
// exactly its own events, once.
func cycles() {
	collected = nil
	w := fx.Start(bus.Yes{})
	c1 := w.MustConnect()
	p := c1.Probe(1)
	vrt.Explore()
	n := int32(0)
	emit := func() int32 {
		n++
		if err := w.Root.Helper.SignalTick(n); err != nil {
			failf("emit-error", "emitting tick(%d) failed: %v", n, err)
		}
		vrt.Quiesce()
		return n
	}
	for cycle := 1; cycle <= 4; cycle++ {
		x := subscribe(fmt.Sprintf("cycle%d", cycle), p, c1)
		vrt.Quiesce()
		a, b := emit(), emit()
		x.stop()
		vrt.Quiesce()
		emit()
		if x.err == nil && fmt.Sprint(x.got) != fmt.Sprint([]int32{a, b}) {
			clause := "cycles/events-differ"
			if len(x.got) > 2 {
				clause = "cycles/event-duplicated"
			}
			failf(fmt.Sprintf("%s/cycle%d", clause, cycle), "subscription number %d on the same proxy received %v, the events emitted while it was open are [%d %d]", cycle, x.got, a, b)
			break
		}
		if x.err == nil && !x.closed {
			failf(fmt.Sprintf("channel-not-closed/cycle%d", cycle), "the channel of subscription number %d is still open after its cancellation", cycle)
			break
		}
	}
	checkTap("conn1", c1)
	flush()
	fx.Settle()
	vrt.Observe("n=%d", n)
}

// switchSignal: one client stops following tick and starts following other while an
// event of tick is on its way (the emitter runs concurrently). The new subscription
// takes the place the old one had on the client's connection: it must never be handed
// a tick event, and it must stay open (seed C13-19 / C10-20: filters evaluated on a
// snapshot of the handler table, delivery by slot index).
func switchSignal() {
	collected = nil
	w := fx.Start(bus.Yes{})
	c1 := w.MustConnect()
	p := c1.Probe(1)
	cancelT, chT, errT := p.SubscribeTick()
	// a second subscription of the same client to tick: leaving the first one then
	// needs no round trip (the registration stays), so that the place it had on the
	// connection is free again while the event is still being dispatched
	_, chT2, errT2 := p.SubscribeTick()
	if errT != nil || errT2 != nil {
		failf("subscribe-failed/switch", "tick: %v %v", errT, errT2)
		flush()
		return
	}
	var ticks, ticks2, others []int32
	vrt.GoNamed("drain-tick", func() {
		for v := range chT {
			ticks = append(ticks, v)
		}
	})
	vrt.GoNamed("drain-tick-2", func() {
		for v := range chT2 {
			ticks2 = append(ticks2, v)
		}
	})
	vrt.Quiesce()
	vrt.Explore()
	var chO chan int32
	var errO error
	otherOpen := true
	sw := vrt.GoWorker("switcher", func() {
		cancelT()
		_, chO, errO = p.SubscribeOther()
		if errO != nil {
			return
		}
		vrt.GoNamed("drain-other", func() {
			for v := range chO {
				others = append(others, v)
			}
			otherOpen = false
		})
	})
	em := vrt.GoWorker("emitter", func() {
		for _, n := range []int32{1, 2} {
			if err := w.Root.Helper.SignalTick(n); err != nil {
				failf("emit-error", "tick(%d): %v", n, err)
			}
		}
	})
	vrt.Quiesce()
	fx.Settle(sw, em)
	if errO != nil {
		failf("subscribe-failed/switch", "other, right after leaving tick: %v", errO)
		flush()
		return
	}
	vrt.Freeze()
	// the new subscription works: it receives the event of its own signal, and only that
	if err := w.Root.Helper.SignalOther(77); err != nil {
		failf("emit-error", "other(77): %v", err)
	}
	vrt.Quiesce()
	for _, v := range others {
		if v != 77 {
			failf("foreign-event/other", "the subscription to the signal other received %d, an event of the signal tick it never subscribed to (received %v)", v, others)
		}
	}
	if !otherOpen {
		failf("subscription-closed/other", "the channel of the fresh subscription to other was closed although nobody cancelled it")
	} else if len(others) == 0 || others[len(others)-1] != 77 {
		failf("event-lost/other", "the subscription to other, acknowledged before other(77) was emitted, received %v", others)
	}
	for i, v := range ticks {
		if v != int32(i+1) {
			failf("event-order/tick", "the tick subscription received %v", ticks)
		}
	}
	if fmt.Sprint(ticks2) != "[1 2]" {
		failf("disturbed-by-other-unsubscribe/tick", "the subscription to tick that stayed received %v of [1 2] while another subscription of its client left", ticks2)
	}
	if len(ticks) > 0 {
		vrt.Flag("tick-delivered-before-switch")
	}
	if len(ticks) < 2 {
		vrt.Flag("switch-before-last-tick")
	}
	fx.Settle()
	flush()
	vrt.Observe("ticks=%v others=%v", ticks, others)
}

// twoClientsOneConnection: two bus.Client objects built on one connection (each keeps
// its own subscription count and registers its own handler id) follow tick; the first
// leaves, in either order of arrival: the one that stays goes on receiving (seed C13-20
// acknowledged the second registration of a connection without recording it). While both
// are registered the server sends one copy per registration and each client sees both:
// that is not judged, only that nothing is lost, nothing is foreign, and that the channel
// of the client that stays is open.
func twoClientsOneConnection() {
	collected = nil
	w := fx.Start(bus.Yes{})
	c1 := w.MustConnect()
	c2 := *c1
	c2.Client = bus.NewClient(c1.Client.Channel())
	p := []probe.ProbeProxy{c1.Probe(1), (&c2).Probe(1)}
	leaver := vrt.ChooseFree(2, "which client leaves")
	vrt.Explore()
	stayer := 1 - leaver
	var got [2][]int32
	var open [2]bool
	var cancels [2]func()
	for i := 0; i < 2; i++ {
		i := i
		cancel, ch, err := p[i].SubscribeTick()
		if err != nil {
			failf("subscribe-failed/two-clients", "client %d of the connection: %v", i, err)
			flush()
			return
		}
		cancels[i] = cancel
		open[i] = true
		vrt.GoNamed(fmt.Sprintf("drain-%d", i), func() {
			for v := range ch {
				got[i] = append(got[i], v)
			}
			open[i] = false
		})
	}
	emit := func(n int32) {
		if err := w.Root.Helper.SignalTick(n); err != nil {
			failf("emit-error", "tick(%d): %v", n, err)
		}
		vrt.Quiesce()
	}
	emit(1)
	cancels[leaver]()
	vrt.Quiesce()
	emit(2)
	emit(3)
	has := func(l []int32, v int32) bool {
		for _, x := range l {
			if x == v {
				return true
			}
		}
		return false
	}
	for _, v := range []int32{1, 2, 3} {
		if !has(got[stayer], v) {
			failf("event-lost/two-clients", "two clients of one connection followed tick, client %d left after tick(1): the client that stayed received %v of [1 2 3] (channel open: %v)", leaver, got[stayer], open[stayer])
			break
		}
	}
	for _, v := range got[stayer] {
		if v < 1 || v > 3 {
			failf("foreign-event/two-clients", "received %v", got[stayer])
		}
	}
	if has(got[leaver], 2) || has(got[leaver], 3) {
		failf("event-after-cancel/two-clients", "the client that left after tick(1) received %v", got[leaver])
	}
	fx.Settle()
	flush()
	vrt.Observe("leaver=%d stayer=%v leaver-got=%v", leaver, got[stayer], got[leaver])
}

func init() {
	reg.Register(&reg.Scenario{Property: "C13", Name: "subscriber-beside-caller", Body: besideCaller, Quick: 2, Thorough: 3,
		Doc: "one goroutine subscribes while another goroutine of the same client makes two calls (answer handlers and event handler share the connection's handler table); three events afterwards: all received, channel open until cancel, calls answered"})
	reg.Register(&reg.Scenario{Property: "C13", Name: "two-clients-one-connection", Body: twoClientsOneConnection, Quick: 0, Thorough: 1,
		Doc: "two bus.Client objects on one connection follow tick, one of them leaves after the first event: the other still receives every later event"})
	reg.Register(&reg.Scenario{Property: "C13", Name: "switch-signal-during-event", Body: switchSignal, Quick: 2, Thorough: 3,
		Doc: "one client: cancel(tick); subscribe(other) || the service emits tick twice: the fresh subscription to other never receives a tick event, stays open and receives the next other event", MustFlag: []string{"tick-delivered-before-switch", "switch-before-last-tick"}})
	reg.Register(&reg.Scenario{Property: "C13", Name: "two-signals-and-a-property-one-connection", Body: twoSignals, Quick: 0, Thorough: 1,
		Doc: "one connection follows two signals and the property of one object and stops following one of the three: the two others keep receiving every event"})
	reg.Register(&reg.Scenario{Property: "C13", Name: "twelve-subscribers", Body: manySubscribers, Quick: 0, Thorough: 0,
		Doc: "twelve subscribers on twelve connections, one of them (each in turn, or none) leaves, two events: every remaining subscriber receives both once"})
	reg.Register(&reg.Scenario{Property: "C13", Name: "four-subscription-cycles", Body: cycles, Quick: 0, Thorough: 1,
		Doc: "the same proxy subscribes, gets two events, cancels, misses one - four times in a row: each window receives exactly its own events once, nothing after the acknowledged removal"})
	reg.Register(&reg.Scenario{Property: "C13", Name: "two-objects-one-connection", Body: twoObjects, Quick: 0, Thorough: 1,
		Doc: "the tick signal of the service object and of a second object of the same service, both followed through one connection: subscribe both, cancel one, subscribe it again, cancel the other; each receives exactly its own object's events"})
	reg.Register(&reg.Scenario{Property: "C13", Name: "cancel-with-done-context", Body: ctxCancelled, Quick: 0, Thorough: 1,
		Doc: "A subscribes through Proxy.WithContext(ctx); ctx is cancelled, then A cancels its subscription (the unregistration call fails): A's channel is closed and silent, B on another connection gets every event"})
	reg.Register(&reg.Scenario{Property: "C13", Name: "histories-same-client", Body: histories(true), Quick: 0, Thorough: 1,
		Doc: "sequential: A subscribes, B subscribes, they leave in either order, C subscribes and leaves; an event after every step; two proxies of one client"})
	reg.Register(&reg.Scenario{Property: "C13", Name: "histories-two-connections", Body: histories(false), Quick: 0, Thorough: 1,
		Doc: "same sequential histories with A and B on different connections"})
	reg.Register(&reg.Scenario{Property: "C13", Name: "three-subscribers-middle-connection-cut", Body: threeBody(true), Quick: 1, Thorough: 2,
		Doc: "three subscribers on three connections; the second one's connection is cut abruptly while the emitter sends tick(1), tick(2): the others get every event once", MustFlag: []string{"required-event"}})
	reg.Register(&reg.Scenario{Property: "C13", Name: "three-subscribers-middle-leaves", Body: three, Quick: 1, Thorough: 3,
		Doc: "three subscribers on three connections; the second cancels while the emitter sends tick(1), tick(2)", MustFlag: []string{"left-during-emission", "required-event"}})
	reg.Register(&reg.Scenario{Property: "C13", Name: "different-connections", Body: body(false, false, true), Quick: 1, Thorough: 3,
		Doc: "A: subscribe,cancel,subscribe || B: subscribe || emitter tick(1) tick(2) other(9) tick(3); A and B on different connections", MustFlag: []string{"required-event"}})
	reg.Register(&reg.Scenario{Property: "C13", Name: "same-client", Body: body(true, false, true), Quick: 1, Thorough: 3,
		Doc: "same with A and B on two proxies of one client (shared registration)", MustFlag: []string{"required-event"}})
	reg.Register(&reg.Scenario{Property: "C13", Name: "same-client-join", Body: body(true, false, false), Quick: 1, Thorough: 3,
		Doc: "A: subscribe || B: subscribe (two proxies of one client, nobody registered before, nobody cancels) || emitter tick(1) tick(2) other(9) tick(3)", MustFlag: []string{"required-event"}})
	reg.Register(&reg.Scenario{Property: "C13", Name: "same-client-join-statement-level", Body: body(true, true, false), Quick: 1, Thorough: 2,
		Doc: "same-client-join with bus/signal.go, bus/proxy.go and bus/client.go interleaved at statement level"})
	reg.Register(&reg.Scenario{Property: "C13", Name: "same-client-statement-level", Body: body(true, true, true), Quick: -1, Thorough: 2,
		Doc: "same-client with bus/signal.go, bus/proxy.go and bus/client.go interleaved at statement level"})
}
