// Package c11 holds the engine-B scenarios of property C11: losing the
// connection fails calls promptly instead of hanging them.
package c11

import (
	"bytes"
	"fmt"
	"strings"
	"sync"

	"github.com/lugu/qiloop/bus"
	"github.com/lugu/qiloop/bus/net"

	"verif/rt/vnet"
	"verif/rt/vrt"
	"verif/scenarios/fx"
	"verif/scenarios/reg"
)

var faultKinds = []string{"none", "err", "eof", "data+eof", "garbage", "short", "peerclose", "localclose", "timeout"}

// maxOps bounds the fault position; the fault-free run of every family must
// stay below it (checked).
const maxOps = 14

type callRes struct {
	arg      byte
	returned bool
	payload  []byte
	err      error
}

func expected(arg byte) []byte { return []byte{arg, arg + 1, 0xEE} }

type peerLog struct {
	replyEnd map[uint32]int // message id -> stream offset after its reply
	argOf    map[uint32]byte
	written  int
	events   int
}

// peer answers every Call with a Reply derived from the request payload; the
// first call is preceded by two events of the subscribed signal.
func peer(c *vnet.MemConn, pl *peerLog, withEvents bool) {
	for {
		var m net.Message
		if err := m.Read(c); err != nil {
			return
		}
		if m.Header.Type != net.Call {
			continue
		}
		if withEvents && pl.events == 0 {
			for i := 0; i < 2; i++ {
				ev := net.NewMessage(net.NewHeader(net.Event, 3, 1, 77, 0), []byte{byte(0xA0 + i)})
				var b bytes.Buffer
				ev.Write(&b)
				if _, err := c.Write(b.Bytes()); err != nil {
					return
				}
				pl.written += b.Len()
				pl.events++
			}
		}
		arg := byte(0)
		if len(m.Payload) > 0 {
			arg = m.Payload[0]
		}
		rep := net.NewMessage(net.NewHeader(net.Reply, m.Header.Service, m.Header.Object, m.Header.Action, m.Header.ID), expected(arg))
		var b bytes.Buffer
		rep.Write(&b)
		if _, err := c.Write(b.Bytes()); err != nil {
			return
		}
		pl.written += b.Len()
		pl.replyEnd[m.Header.ID] = pl.written
		pl.argOf[m.Header.ID] = arg
	}
}

// family: nCalls concurrent calls; withSub adds a subscription, two
// disconnect callbacks and events; localCloser adds a thread that closes the
// client's endpoint.
func body(nCalls int, withSub bool, localCloser bool, waitingCallback bool) func() {
	return func() {
		cc, pc := vnet.NewPair("client", "peer")
		kind := faultKinds[vrt.ChooseFree(len(faultKinds), "fault-kind")]
		pos := -1
		if kind != "none" {
			pos = vrt.ChooseFree(maxOps, "fault-pos")
			cc.OnOp = func(op string, idx int) *vnet.Fault {
				if idx != pos {
					return nil
				}
				if (kind == "short") && op != "write" {
					return nil
				}
				if (kind == "eof" || kind == "data+eof" || kind == "garbage") && op != "read" {
					return nil
				}
				return &vnet.Fault{Kind: kind}
			}
		}
		pl := &peerLog{replyEnd: map[uint32]int{}, argOf: map[uint32]byte{}}
		vrt.GoNamed("peer", func() { peer(pc, pl, withSub) })
		ep := net.NewEndPoint(cc)
		cl := bus.NewClient(bus.NewChannel(ep, bus.DefaultCap()))

		disc := []int{0, 0}
		var events [][]byte
		subClosed := false
		var drain *vrt.Thread
		var returned sync.WaitGroup
		returned.Add(nCalls)
		if withSub {
			// the first callback waits for the calls in flight to come back (a
			// callback may block: every handler is told independently)
			cl.OnDisconnect(func(err error) {
				if waitingCallback {
					returned.Wait()
				}
				disc[0]++
			})
			cl.OnDisconnect(func(err error) { disc[1]++ })
			_, ch, err := cl.Subscribe(3, 1, 77)
			if err != nil {
				vrt.Failf("subscribe-error", "%v", err)
				return
			}
			drain = vrt.GoNamed("subscriber", func() {
				for e := range ch {
					events = append(events, e)
				}
				subClosed = true
			})
		}
		vrt.Explore()
		res := make([]*callRes, nCalls)
		var workers []*vrt.Thread
		for i := 0; i < nCalls; i++ {
			i := i
			res[i] = &callRes{arg: byte(10 * (i + 1))}
			workers = append(workers, vrt.GoWorker(fmt.Sprintf("caller%d", i), func() {
				p, err := cl.Call(nil, 3, 1, uint32(100+i), []byte{res[i].arg})
				res[i].payload, res[i].err, res[i].returned = p, err, true
				returned.Done()
			}))
		}
		if localCloser {
			workers = append(workers, vrt.GoWorker("local-closer", func() { ep.Close() }))
		}
		vrt.Quiesce()
		faultFired := cc.FaultAt >= 0
		if faultFired {
			vrt.Flag("fault-fired:" + kind)
		}
		if kind == "none" && cc.Ops() >= maxOps {
			vrt.Failf("harness/maxOps-too-small", "the fault-free run performs %d operations", cc.Ops())
		}
		// bytes the client read successfully over the whole execution (after
		// an injected fault no read succeeds any more)
		readOK, readAny := 0, 0
		for _, op := range cc.OpLog {
			if op.Kind == "read" {
				readAny += op.N
				if !op.Err {
					readOK += op.N
				}
			}
		}
		replyEndOf := map[byte]int{}
		for id, arg := range pl.argOf {
			replyEndOf[arg] = pl.replyEnd[id]
		}
		for i, w := range workers {
			if !w.Done() {
				vrt.Failf(fmt.Sprintf("hang/%s", threadName(i, nCalls)), "still blocked on %s after the connection failed (fault %s at operation %d)", w.BlockedOn(), kind, pos)
			}
		}
		okCalls := 0
		for i, r := range res {
			if !r.returned {
				continue
			}
			if r.err == nil {
				okCalls++
				if !bytes.Equal(r.payload, expected(r.arg)) {
					vrt.Failf("wrong-reply", "call %d (arg %d) returned %v, expected %v", i, r.arg, r.payload, expected(r.arg))
				}
				if end, ok := replyEndOf[r.arg]; !ok || end > readAny {
					vrt.Failf("reply-from-nowhere", "call %d succeeded although its reply was never completely read (%d of %d bytes)", i, readAny, end)
				}
			} else if !faultFired && !localCloser {
				vrt.Failf("spurious-error", "call %d failed on a healthy connection: %v", i, r.err)
			} else if end, ok := replyEndOf[r.arg]; ok && end <= readOK && !localCloser && (kind == "none" || kind == "err" || kind == "eof" || kind == "localclose" || kind == "short") {
				// the reply had been read completely, hence dispatched (the
				// reading goroutine dispatches before its next read, and
				// without a concurrent local Close nothing else sweeps the
				// handlers), before the connection failed: it must reach
				// its caller
				vrt.Flag("reply-read-before-failure")
				vrt.Failf("delivered-reply-lost/"+kind, "call %d returned %q although its reply had been completely read before the failure (fault %s at operation %d)", i, r.err, kind, pos)
			}
		}
		if !faultFired && !localCloser && okCalls == nCalls {
			vrt.Flag("all-calls-succeeded")
		}
		failed := faultFired || localCloser
		if !failed {
			// provoke the failure now: the peer goes away
			pc.Close()
			vrt.Quiesce()
		}
		// later calls on that connection return errors
		late := vrt.GoWorker("late-caller", func() {
			_, err := cl.Call(nil, 3, 1, 100, []byte{1})
			if err == nil {
				vrt.Failf("late-call-succeeded", "a call issued after the connection was lost returned success")
			}
		})
		vrt.Quiesce()
		if !late.Done() {
			vrt.Failf("hang/late-caller", "a call issued after the connection was lost blocks on %s (fault %s at operation %d)", late.BlockedOn(), kind, pos)
		}
		if withSub {
			if !subClosed {
				vrt.Failf("subscription-not-closed", "subscription channel still open after the connection was lost (fault %s at operation %d); subscriber blocked on %s", kind, pos, drain.BlockedOn())
			}
			for j, n := range disc {
				if n != 1 {
					vrt.Failf(fmt.Sprintf("disconnect-callback-count/%d", n), "disconnect callback %d ran %d times (fault %s at operation %d)", j, n, kind, pos)
				}
			}
			for j, e := range events {
				if len(e) != 1 || e[0] != byte(0xA0+j) {
					vrt.Failf("event-order", "event %d has payload %v", j, e)
				}
			}
		}
		for _, lw := range vrt.LockWaiters() {
			vrt.Failf("deadlock/"+lw.Kind, "thread %s blocked on %s", lw.Thread, lw.Label)
		}
		vrt.Observe("kind=%s ok=%d/%d events=%d", kind, okCalls, nCalls, len(events))
	}
}

func threadName(i, nCalls int) string {
	if i < nCalls {
		return fmt.Sprintf("caller%d", i)
	}
	return "local-closer"
}

// stalled: the peer stopped reading; one call's frame is stuck in a write
// (finite send buffer) when the connection is closed locally, or when the
// peer goes away: every call returns, later calls fail, callbacks fire once.
func stalled() {
	cc, pc := vnet.NewPair("client", "peer")
	cc.Cap = 64
	ep := net.ConnEndPoint(cc) // through the library's own stream wrapper
	cl := bus.NewClient(bus.NewChannel(ep, bus.DefaultCap()))
	disc := 0
	cl.OnDisconnect(func(err error) { disc++ })
	remote := vrt.ChooseFree(2, "closed by: local Close / the peer") == 1
	vrt.Explore()
	returned := make([]bool, 2)
	var workers []*vrt.Thread
	for i := 0; i < 2; i++ {
		i := i
		workers = append(workers, vrt.GoWorker(fmt.Sprintf("caller%d", i), func() {
			_, err := cl.Call(nil, 3, 1, uint32(100+i), make([]byte, 200))
			returned[i] = true
			if err == nil {
				vrt.Failf("reply-from-nowhere", "call %d succeeded although the peer never answers", i)
			}
		}))
	}
	vrt.Quiesce() // the second frame is stuck in Write: the peer does not read
	stuck := false
	for _, b := range vrt.Snapshot() {
		if b.Kind == vrt.KIO && strings.HasPrefix(b.Label, "write ") {
			stuck = true
		}
	}
	if stuck {
		vrt.Flag("write-stalled")
	}
	closer := vrt.GoWorker("closer", func() {
		if remote {
			pc.Close()
		} else {
			ep.Close()
		}
	})
	vrt.Quiesce()
	if !closer.Done() {
		vrt.Failf("hang/closer", "closing the connection while a write is stalled never returns: blocked on %s", closer.BlockedOn())
	}
	for i, w := range workers {
		if !w.Done() {
			vrt.Failf(fmt.Sprintf("hang/caller%d", i), "call %d still blocked on %s after the connection was closed (a write was stalled: %v)", i, w.BlockedOn(), stuck)
		}
	}
	late := vrt.GoWorker("late-caller", func() {
		if _, err := cl.Call(nil, 3, 1, 100, []byte{1}); err == nil {
			vrt.Failf("late-call-succeeded", "a call issued after the connection was lost returned success")
		}
	})
	vrt.Quiesce()
	if !late.Done() {
		vrt.Failf("hang/late-caller", "a call issued after the connection was lost blocks on %s", late.BlockedOn())
	}
	if disc != 1 {
		vrt.Failf(fmt.Sprintf("disconnect-callback-count/%d", disc), "the disconnect callback ran %d times", disc)
	}
	for _, lw := range vrt.LockWaiters() {
		vrt.Failf("deadlock/"+lw.Kind, "thread %s blocked on %s", lw.Thread, lw.Label)
	}
	vrt.Observe("remote=%v stuck=%v", remote, stuck)
}

// cancelRace: a subscription is cancelled at the very moment the connection
// is lost (by another goroutine, or from a disconnect callback): its channel
// is closed in every case, the callbacks fire once, nothing panics.
func cancelRace() {
	cc, pc := vnet.NewPair("client", "peer")
	pl := &peerLog{replyEnd: map[uint32]int{}, argOf: map[uint32]byte{}}
	vrt.GoNamed("peer", func() { peer(pc, pl, false) })
	ep := net.ConnEndPoint(cc)
	cl := bus.NewClient(bus.NewChannel(ep, bus.DefaultCap()))
	fromCallback := vrt.ChooseFree(2, "cancel from: another goroutine / a disconnect callback") == 1
	how := vrt.ChooseFree(3, "connection lost by: peer close / local Close / read error")
	cancel, ch, err := cl.Subscribe(3, 1, 77)
	if err != nil {
		vrt.Failf("subscribe-error", "%v", err)
		return
	}
	subClosed := false
	drain := vrt.GoNamed("subscriber", func() {
		for range ch {
		}
		subClosed = true
	})
	disc := 0
	cl.OnDisconnect(func(err error) {
		disc++
		if fromCallback {
			cancel()
		}
	})
	if how == 2 {
		n := 0
		cc.OnOp = func(op string, idx int) *vnet.Fault {
			if op == "read" {
				n++
				if n == 2 {
					return &vnet.Fault{Kind: "err"}
				}
			}
			return nil
		}
	}
	vrt.Explore()
	var ws []*vrt.Thread
	if !fromCallback {
		ws = append(ws, vrt.GoWorker("canceller", func() { cancel() }))
	}
	ws = append(ws, vrt.GoWorker("loser", func() {
		switch how {
		case 0:
			pc.Close()
		case 1:
			ep.Close()
		case 2:
			cl.Call(nil, 3, 1, 100, []byte{1}) // traffic: the second read fails
		}
	}))
	vrt.Quiesce()
	for i, w := range ws {
		if !w.Done() {
			vrt.Failf(fmt.Sprintf("hang/worker%d", i), "still blocked on %s", w.BlockedOn())
		}
	}
	if how == 2 && cc.FaultAt < 0 {
		pc.Close()
		vrt.Quiesce()
	}
	if !subClosed {
		vrt.Failf("subscription-not-closed", "the subscription was cancelled while the connection was being lost (variant %d, from callback %v) and its channel is still open; subscriber blocked on %s", how, fromCallback, drain.BlockedOn())
	}
	if disc != 1 {
		vrt.Failf(fmt.Sprintf("disconnect-callback-count/%d", disc), "the disconnect callback ran %d times", disc)
	}
	for _, lw := range vrt.LockWaiters() {
		vrt.Failf("deadlock/"+lw.Kind, "thread %s blocked on %s", lw.Thread, lw.Label)
	}
	vrt.Observe("how=%d cb=%v", how, fromCallback)
}

// manyAtLoss: more handlers than the endpoint's ten preallocated slots are
// registered when the connection is lost (twelve pending calls, a
// subscription, a disconnect callback): every call returns an error, the
// subscription is closed, the callback fires once.
func manyAtLoss() {
	cc, pc := vnet.NewPair("client", "peer")
	// a peer that reads the calls and never answers
	vrt.GoNamed("peer", func() {
		for {
			var m net.Message
			if m.Read(pc) != nil {
				return
			}
		}
	})
	ep := net.ConnEndPoint(cc)
	cl := bus.NewClient(bus.NewChannel(ep, bus.DefaultCap()))
	disc := 0
	cl.OnDisconnect(func(err error) { disc++ })
	_, ch, err := cl.Subscribe(3, 1, 77)
	if err != nil {
		vrt.Failf("subscribe-error", "%v", err)
		return
	}
	subClosed := false
	vrt.GoNamed("subscriber", func() {
		for range ch {
		}
		subClosed = true
	})
	const n = 12
	returned := make([]bool, n)
	var workers []*vrt.Thread
	for i := 0; i < n; i++ {
		i := i
		workers = append(workers, vrt.GoWorker(fmt.Sprintf("caller%d", i), func() {
			_, err := cl.Call(nil, 3, 1, uint32(100+i), []byte{byte(i)})
			returned[i] = true
			if err == nil {
				vrt.Failf("reply-from-nowhere", "call %d succeeded although the peer never answers", i)
			}
		}))
	}
	vrt.Quiesce()
	how := vrt.ChooseFree(2, "lost by: peer close / local Close")
	vrt.Explore()
	closer := vrt.GoWorker("closer", func() {
		if how == 0 {
			pc.Close()
		} else {
			ep.Close()
		}
	})
	vrt.Quiesce()
	if !closer.Done() {
		vrt.Failf("hang/closer", "closing never returned: blocked on %s", closer.BlockedOn())
	}
	pending := 0
	for i := range workers {
		if !returned[i] {
			pending++
		}
	}
	if pending > 0 {
		vrt.Failf("hang/pending-calls", "%d of %d simultaneous calls (handler slots beyond the tenth among them) are still pending after the connection was lost", pending, n)
	}
	if !subClosed {
		vrt.Failf("subscription-not-closed", "subscription channel still open after the connection was lost with %d handlers registered", n+2)
	}
	if disc != 1 {
		vrt.Failf(fmt.Sprintf("disconnect-callback-count/%d", disc), "the disconnect callback ran %d times", disc)
	}
	vrt.Observe("how=%d pending=%d", how, pending)
}

// flooded: a subscriber that does not read while the peer sends more events
// than its queue holds; then the connection is lost: closing returns, pending
// calls fail, and once the subscriber reads again its channel ends.
func flooded() {
	cc, pc := vnet.NewPair("client", "peer")
	ep := net.ConnEndPoint(cc)
	cl := bus.NewClient(bus.NewChannel(ep, bus.DefaultCap()))
	disc := 0
	cl.OnDisconnect(func(err error) { disc++ })
	_, ch, err := cl.Subscribe(3, 1, 77)
	if err != nil {
		vrt.Failf("subscribe-error", "%v", err)
		return
	}
	const flood = 105
	for i := 0; i < flood; i++ {
		ev := net.NewMessage(net.NewHeader(net.Event, 3, 1, 77, 0), []byte{byte(i)})
		if ev.Write(pc) != nil {
			vrt.Failf("harness/flood", "event %d could not be written", i)
			return
		}
	}
	vrt.Quiesce() // nobody reads the subscription: its queue is full
	how := vrt.ChooseFree(2, "lost by: peer close / local Close")
	vrt.Explore()
	callReturned := false
	caller := vrt.GoWorker("caller", func() {
		cl.Call(nil, 3, 1, 100, []byte{1})
		callReturned = true
	})
	closer := vrt.GoWorker("closer", func() {
		if how == 0 {
			pc.Close()
		} else {
			ep.Close()
		}
	})
	vrt.Quiesce()
	if !closer.Done() {
		vrt.Failf("hang/closer", "closing the connection never returned while a subscriber's queue was full: blocked on %s", closer.BlockedOn())
	}
	if !callReturned {
		vrt.Failf("hang/caller", "a call in flight is still pending after the connection was lost (a subscriber's queue was full): blocked on %s", caller.BlockedOn())
	}
	// the subscriber starts reading now
	got, closed := 0, false
	drain := vrt.GoNamed("subscriber", func() {
		for range ch {
			got++
		}
		closed = true
	})
	vrt.Quiesce()
	if !closed {
		vrt.Failf("subscription-not-closed", "the subscription channel did not end after the connection was lost (it delivered %d events); subscriber blocked on %s", got, drain.BlockedOn())
	}
	if disc != 1 {
		vrt.Failf(fmt.Sprintf("disconnect-callback-count/%d", disc), "the disconnect callback ran %d times", disc)
	}
	for _, lw := range vrt.LockWaiters() {
		vrt.Failf("deadlock/"+lw.Kind, "thread %s blocked on %s", lw.Thread, lw.Label)
	}
	vrt.Observe("how=%d got=%d", how, got)
}

// serverTerminated: the server side closes every connection (Server.Terminate) while a
// socket client and an in-process client (Server.Client(), the pipe the server's own
// sessions use) each have a call in flight, a subscription and a disconnect callback:
// the calls return, the channels are closed, the callbacks fire once, later calls fail
// (seed C11-20 stopped tracking the in-process connections, which were then never closed).
func serverTerminated() {
	w := fx.Start(bus.Yes{})
	sock := w.MustConnect()
	local := w.Srv.Client()
	w.Root.Gate = make(chan struct{})
	type side struct {
		name      string
		c         bus.Client
		done      bool
		err       error
		closed    bool
		callbacks int
	}
	sides := []*side{{name: "socket", c: sock.Client}, {name: "in-process", c: local}}
	for _, sd := range sides {
		sd := sd
		_, ch, err := sd.c.Subscribe(w.ServiceID, 1, 105)
		if err != nil {
			vrt.Failf("harness/subscribe", "%s: %v", sd.name, err)
			return
		}
		vrt.GoNamed("drain-"+sd.name, func() {
			for range ch {
			}
			sd.closed = true
		})
		sd.c.OnDisconnect(func(error) { sd.callbacks++ })
	}
	vrt.Quiesce()
	vrt.Explore()
	var ws []*vrt.Thread
	for _, sd := range sides {
		sd := sd
		ws = append(ws, vrt.GoWorker("caller-"+sd.name, func() {
			_, sd.err = sd.c.Call(nil, w.ServiceID, 1, 103, fx.Int32(5))
			sd.done = true
		}))
	}
	vrt.Quiesce() // both slow() bodies are held by the gate
	wt := vrt.GoWorker("terminator", func() { w.Srv.Terminate() })
	vrt.Quiesce()
	if !wt.Done() {
		vrt.Failf("hang/terminate", "Server.Terminate blocked on %s", wt.BlockedOn())
	}
	for i, sd := range sides {
		if !sd.done {
			vrt.Failf("hang/server-terminated/"+sd.name, "the call in flight of the %s client has not returned after the server closed its connections; blocked on %s", sd.name, ws[i].BlockedOn())
		} else if sd.err == nil {
			vrt.Failf("call-succeeded-without-reply/"+sd.name, "the call of the %s client returned success although its method never finished", sd.name)
		}
		if !sd.closed {
			vrt.Failf("subscription-open/server-terminated/"+sd.name, "the subscription channel of the %s client is still open after the server closed its connections", sd.name)
		}
		if sd.callbacks != 1 {
			vrt.Failf(fmt.Sprintf("disconnect-callback-count/server-terminated/%s/%d", sd.name, sd.callbacks), "the disconnect callback of the %s client ran %d times", sd.name, sd.callbacks)
		}
	}
	vrt.Freeze()
	close(w.Root.Gate)
	vrt.Quiesce()
	for _, sd := range sides {
		sd := sd
		late := false
		wl := vrt.GoWorker("late-"+sd.name, func() {
			_, err := sd.c.Call(nil, w.ServiceID, 1, 100, fx.Int32(1))
			late = err != nil
		})
		vrt.Quiesce()
		if !wl.Done() {
			vrt.Failf("hang/late-call/"+sd.name, "a call of the %s client after the loss of its connection does not return", sd.name)
		} else if !late {
			vrt.Failf("late-call-succeeded/"+sd.name, "a call of the %s client after the server closed its connection succeeded", sd.name)
		}
	}
	vrt.Observe("socket=%v in-process=%v", sides[0].err != nil, sides[1].err != nil)
}

func init() {
	reg.Register(&reg.Scenario{Property: "C11", Name: "server-terminated", Body: serverTerminated, Quick: 1, Thorough: 2,
		Doc: "Server.Terminate() while a socket client and an in-process client (Server.Client()) each have a call in flight, a subscription and a disconnect callback: calls return with an error, channels closed, callbacks once, later calls fail"})
	reg.Register(&reg.Scenario{Property: "C11", Name: "fourteen-handlers-at-loss", Body: manyAtLoss, Quick: 0, Thorough: 1,
		Doc: "twelve pending calls, a subscription and a disconnect callback (more than the ten preallocated handler slots) when the peer closes or the client closes"})
	reg.Register(&reg.Scenario{Property: "C11", Name: "flooded-subscription-at-loss", Body: flooded, Quick: 0, Thorough: 1,
		Doc: "105 events for a subscription nobody reads (its 100-message queue is full), a call in flight, then the connection is lost: closing returns, the call fails, the channel ends once read"})
	reg.Register(&reg.Scenario{Property: "C11", Name: "stalled-write-then-close", Body: stalled, Quick: 1, Thorough: 3,
		Doc: "the peer stopped reading: with a finite send buffer the second of two calls is stuck in its write when the connection is closed locally or by the peer: both calls return errors, later calls fail, the callback fires once", MustFlag: []string{"write-stalled"}})
	reg.Register(&reg.Scenario{Property: "C11", Name: "cancel-during-connection-loss", Body: cancelRace, Quick: 2, Thorough: 3,
		Doc: "a subscription is cancelled (by a goroutine or from a disconnect callback) while the connection is lost (peer close / local Close / read error): its channel is closed, callbacks fire once"})
	reg.Register(&reg.Scenario{Property: "C11", Name: "waiting-disconnect-callback", Body: body(2, true, false, true), Quick: 1, Thorough: 2, MaxSteps: 30000, StepLimitFails: true,
		Doc: "2 concurrent calls + subscription; the first OnDisconnect callback waits for the calls in flight to return; every fault kind at every I/O operation", MustFlag: []string{"fault-fired:eof"}})
	reg.Register(&reg.Scenario{Property: "C11", Name: "one-call", Body: body(1, false, false, false), Quick: 2, Thorough: 4, MaxSteps: 30000, StepLimitFails: true,
		Doc:      "1 call; every fault kind at every I/O operation of the client stream",
		MustFlag: []string{"all-calls-succeeded", "io:read-completed-while-own-write-in-progress", "fault-fired:err", "fault-fired:eof", "fault-fired:data+eof", "fault-fired:garbage", "fault-fired:short", "fault-fired:peerclose", "fault-fired:localclose", "fault-fired:timeout"}})
	reg.Register(&reg.Scenario{Property: "C11", Name: "two-calls", Body: body(2, false, false, false), Quick: 2, Thorough: 3, MaxSteps: 30000, StepLimitFails: true,
		Doc: "2 concurrent calls; every fault kind at every I/O operation", MustFlag: []string{"all-calls-succeeded", "fault-fired:err"}})
	reg.Register(&reg.Scenario{Property: "C11", Name: "call-sub-disconnect", Body: body(1, true, false, false), Quick: 2, Thorough: 3, MaxSteps: 30000, StepLimitFails: true,
		Doc: "1 call + Subscribe + 2 OnDisconnect callbacks + 2 events; every fault kind at every I/O operation", MustFlag: []string{"all-calls-succeeded", "fault-fired:eof"}})
	reg.Register(&reg.Scenario{Property: "C11", Name: "two-calls-local-close", Body: body(2, true, true, false), Quick: 1, Thorough: 3, MaxSteps: 30000, StepLimitFails: true,
		Doc: "2 concurrent calls + subscription racing a local EndPoint.Close(); every fault kind at every I/O operation"})
}
