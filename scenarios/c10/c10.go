// Package c10 holds the engine-B scenarios of property C10: concurrent
// senders never corrupt the stream; each message arrives once, in order.
package c10

import (
	"fmt"
	"strings"

	"github.com/lugu/qiloop/bus/net"

	"verif/rt/vnet"
	"verif/rt/vrt"
	"verif/scenarios/reg"
)

// sizes[(sender+seq)%len]: includes a payload above 64 KiB (a size class of its
// own for any implementation that treats large messages differently)
var sizes = []int{0, 5, 40, 70000}

func payload(id uint32, n int) []byte {
	p := make([]byte, n)
	for i := range p {
		p[i] = byte(id*7) + byte(i)
	}
	return p
}

var frameType uint8 = net.Post

// mixed: with frameType 0 every sender mixes message types (an event followed
// by a post, a reply, a call...): the order clause speaks of the messages of a
// sender, whatever their types.
var mixed = [][]uint8{{net.Event, net.Post, net.Event}, {net.Call, net.Event, net.Reply}, {net.Event, net.Error, net.Capability}}

func typeOf(sender, seq int) uint8 {
	if frameType != 0 {
		return frameType
	}
	return mixed[(sender+2)%3][seq%3]
}

// flagsOf gives every frame a non-zero flags byte derived from its identifier: a
// sender that drops or shares header fields between frames shows as a frame that is
// not intact (seed C10-19 wrote every header with flags 0).
func flagsOf(id uint32) uint8 { return uint8(id*37+11) | 1 }

func hdr(typ uint8, service, object, action, id uint32) net.Header {
	h := net.NewHeader(typ, service, object, action, id)
	h.Flags = flagsOf(id)
	return h
}

func intact(m *net.Message) bool {
	if int(m.Header.Size) != len(m.Payload) {
		return false
	}
	if m.Header.Flags != flagsOf(m.Header.ID) || m.Header.Magic != net.Magic || m.Header.Version != net.Version {
		return false
	}
	sender, seq := m.Header.ID/100, m.Header.ID%100
	if sender < 1 || sender > 3 || seq > 3 {
		return false
	}
	if m.Header.Type != typeOf(int(sender), int(seq)) || m.Header.Service != sender || m.Header.Object != 9 || m.Header.Action != seq+50 {
		return false
	}
	want := payload(m.Header.ID, sizes[(int(sender)+int(seq))%len(sizes)])
	if len(want) != len(m.Payload) {
		return false
	}
	for i := range want {
		if want[i] != m.Payload[i] {
			return false
		}
	}
	return true
}

type sink struct {
	name   string
	sel    func(h *net.Header) bool
	got    []*net.Message
	closed bool
}

func body(nSenders, perSender int, frag bool, typ uint8, blockedFirst bool) func() {
	return func() {
		frameType = typ
		ca, cb := vnet.NewPair("a", "b")
		cb.Frag = frag
		a := net.NewEndPoint(ca)
		var sinks []*sink
		var blockedQ chan *net.Message
		b := net.EndPointFinalizer(cb, func(e net.EndPoint) {
			if blockedFirst {
				// a handler that selects everything but whose queue (1 slot)
				// is never drained, registered first
				bq := make(chan *net.Message, 1)
				blockedQ = bq
				e.MakeHandler(func(h *net.Header) (bool, bool) { return true, true }, bq, nil)
			}
			for _, s := range []*sink{
				{name: "all", sel: func(h *net.Header) bool { return true }},
				{name: "sender1", sel: func(h *net.Header) bool { return h.ID/100 == 1 }},
				{name: "none", sel: func(h *net.Header) bool { return false }},
				{name: "odd", sel: func(h *net.Header) bool { return h.ID%2 == 1 }},
			} {
				s := s
				q := make(chan *net.Message, 32)
				vrt.GoNamed("drain-"+s.name, func() {
					for m := range q {
						s.got = append(s.got, m)
					}
					s.closed = true
				})
				e.MakeHandler(func(h *net.Header) (bool, bool) { return s.sel(h), true }, q, nil)
				sinks = append(sinks, s)
			}
		})
		vrt.Explore()
		var workers []*vrt.Thread
		sendErr := 0
		for s := 1; s <= nSenders; s++ {
			s := s
			workers = append(workers, vrt.GoWorker(fmt.Sprintf("sender%d", s), func() {
				for k := 0; k < perSender; k++ {
					id := uint32(s*100 + k)
					m := net.NewMessage(hdr(typeOf(s, k), uint32(s), 9, uint32(k+50), id), payload(id, sizes[(s+k)%len(sizes)]))
					if err := a.Send(m); err != nil {
						sendErr++
					}
				}
			}))
		}
		vrt.Quiesce()
		for i, w := range workers {
			if !w.Done() {
				vrt.Failf(fmt.Sprintf("hang/sender%d", i+1), "sender blocked on %s", w.BlockedOn())
			}
		}
		if sendErr > 0 {
			vrt.Failf("send-error", "%d sends failed on a healthy connection", sendErr)
		}
		total := nSenders * perSender
		var order []uint32
		for _, s := range sinks {
			want := 0
			for sd := 1; sd <= nSenders; sd++ {
				for k := 0; k < perSender; k++ {
					h := hdr(typeOf(sd, k), uint32(sd), 9, uint32(k+50), uint32(sd*100+k))
					if s.sel(&h) {
						want++
					}
				}
			}
			seen := map[uint32]int{}
			last := map[uint32]int{}
			for _, m := range s.got {
				if !intact(m) {
					vrt.Failf("corrupt/"+s.name, "handler %s received a damaged frame: header %+v, %d payload bytes", s.name, m.Header, len(m.Payload))
					continue
				}
				if !s.sel(&m.Header) {
					vrt.Failf("unselected/"+s.name, "handler %s received frame %d that its filter rejects", s.name, m.Header.ID)
				}
				seen[m.Header.ID]++
				sender, seq := m.Header.ID/100, int(m.Header.ID%100)
				if l, ok := last[sender]; ok && seq <= l {
					vrt.Failf("sender-order/"+s.name, "handler %s: frame %d of sender %d after frame %d", s.name, seq, sender, l)
				}
				last[sender] = seq
			}
			for id, n := range seen {
				if n != 1 {
					vrt.Failf("duplicate/"+s.name, "handler %s received frame %d %d times", s.name, id, n)
				}
			}
			if len(seen) != want {
				vrt.Failf("missing/"+s.name, "handler %s received %d distinct frames of %d selected (%d sent)", s.name, len(seen), want, total)
			}
			if s.name == "all" {
				for _, m := range s.got {
					order = append(order, m.Header.ID)
				}
			}
		}
		// one arrival order: every handler sees a subsequence of the
		// match-all handler's sequence
		for _, s := range sinks {
			i := 0
			for _, m := range s.got {
				for i < len(order) && order[i] != m.Header.ID {
					i++
				}
				if i == len(order) {
					vrt.Failf("arrival-order/"+s.name, "handler %s saw frames in an order different from handler all", s.name)
					break
				}
				i++
			}
		}
		if len(order) >= 2 && order[0]/100 != 1 {
			vrt.Flag("sender-overtaken")
		}
		vrt.Observe("order=%v", order)
		if blockedFirst {
			// the blocked handler has room for exactly one frame: the first arrival
			if len(blockedQ) != 1 {
				vrt.Failf("blocked-handler-count", "the never-drained handler holds %d frames in its 1-slot queue", len(blockedQ))
			} else if m := <-blockedQ; len(order) > 0 && m.Header.ID != order[0] {
				vrt.Failf("blocked-handler-first", "the never-drained handler holds frame %d, the first arrival was %d", m.Header.ID, order[0])
			}
		}
		a.Close()
		b.Close()
		vrt.Quiesce()
		for _, s := range sinks {
			if !s.closed {
				vrt.Failf("queue-not-closed/"+s.name, "queue of %s still open after Close", s.name)
			}
		}
		for _, lw := range vrt.LockWaiters() {
			vrt.Failf("deadlock/"+lw.Kind, "thread %s blocked on %s", lw.Thread, lw.Label)
		}
	}
}

// light: two senders x one frame, one handler, no draining thread
// (exhaustible: the whole interleaving tree is explored in thorough).
func light() {
	ca, cb := vnet.NewPair("a", "b")
	a := net.NewEndPoint(ca)
	frameType = net.Post
	q := make(chan *net.Message, 8)
	b := net.EndPointFinalizer(cb, func(e net.EndPoint) {
		e.MakeHandler(func(h *net.Header) (bool, bool) { return true, true }, q, nil)
	})
	vrt.Explore()
	var ws []*vrt.Thread
	for s := 1; s <= 2; s++ {
		s := s
		ws = append(ws, vrt.GoWorker(fmt.Sprintf("sender%d", s), func() {
			id := uint32(s * 100)
			a.Send(net.NewMessage(hdr(net.Post, uint32(s), 9, 50, id), payload(id, sizes[s%len(sizes)])))
		}))
	}
	vrt.Quiesce()
	for _, w := range ws {
		if !w.Done() {
			vrt.Failf("hang/sender", "sender blocked on %s", w.BlockedOn())
		}
	}
	var got []uint32
	for len(q) > 0 {
		m := <-q
		if !intact(m) {
			vrt.Failf("corrupt/all", "damaged frame: header %+v, %d payload bytes", m.Header, len(m.Payload))
		}
		got = append(got, m.Header.ID)
	}
	if len(got) != 2 || got[0] == got[1] {
		vrt.Failf("missing/all", "received %v of the frames [100 200]", got)
	}
	if len(got) == 2 && got[0] == 200 {
		vrt.Flag("sender-overtaken")
	}
	vrt.Observe("order=%v", got)
	_ = b
}

// consumerBacklog: the AddHandler entry point (queue of 10 + consumer callback).
// The consumer is still busy with the first frame when four more arrive (the
// queue has room for all of them); then the handler ends - local Close, the
// peer hangs up, or RemoveHandler - and only then the consumer gets on. Every
// frame that was accepted into the queue reaches the consumer, in arrival order.
func consumerBacklog() {
	ca, cb := vnet.NewPair("a", "b")
	a := net.NewEndPoint(ca)
	frameType = net.Post
	gate := make(chan struct{})
	var got []uint32
	closerRan := 0
	afterCloser := 0
	id := -1
	b := net.EndPointFinalizer(cb, func(e net.EndPoint) {
		id = e.AddHandler(func(h *net.Header) (bool, bool) { return true, true },
			func(m *net.Message) error {
				if len(got) == 0 {
					<-gate
				}
				if !intact(m) {
					vrt.Failf("corrupt/consumer", "damaged frame: header %+v, %d payload bytes", m.Header, len(m.Payload))
				}
				got = append(got, m.Header.ID)
				if closerRan > 0 {
					afterCloser++
				}
				return nil
			},
			func(err error) { closerRan++ })
	})
	how := vrt.ChooseFree(3, "how the handler ends")
	vrt.Explore()
	for k := 0; k < 4; k++ {
		fid := uint32(100 + k)
		if err := a.Send(net.NewMessage(hdr(net.Post, 1, 9, uint32(k+50), fid), payload(fid, sizes[(1+k)%len(sizes)]))); err != nil {
			vrt.Failf("send-error", "send %d failed: %v", fid, err)
		}
	}
	vrt.Quiesce() // all four frames were dispatched: one with the consumer, three in its queue
	w := vrt.GoWorker("ender", func() {
		switch how {
		case 0:
			b.Close()
		case 1:
			a.Close()
		case 2:
			if err := b.RemoveHandler(id); err != nil {
				vrt.Failf("remove-error", "RemoveHandler(%d): %v", id, err)
			}
		}
	})
	vrt.Quiesce()
	if !w.Done() {
		vrt.Failf("hang/ender", "ending the handler blocked on %s", w.BlockedOn())
	}
	close(gate)
	vrt.Quiesce()
	want := "[100 101 102 103]"
	if how == 2 && strings.HasPrefix(want, strings.TrimSuffix(fmt.Sprint(got), "]")) && len(got) >= 1 {
		// the owner removed the handler itself: what is still queued may be
		// dropped (the handler is no longer registered), but what is handed
		// over is a prefix of the arrivals, in order
		want = fmt.Sprint(got)
	}
	if fmt.Sprint(got) != want {
		vrt.Failf("missing/consumer", "four frames were accepted into the consumer's queue (room for ten) before the handler ended (%s); the consumer received %v", []string{"Close", "peer close", "RemoveHandler"}[how], got)
	}
	if closerRan != 1 {
		vrt.Failf("closer-count", "closer ran %d times", closerRan)
	}
	vrt.Observe("how=%d got=%v closer=%d after=%d", how, got, closerRan, afterCloser)
	a.Close()
	b.Close()
	vrt.Quiesce()
}

// wrapped: two senders through the library's own stream wrapper
// (net.ConnStream / net.ConnEndPoint, what every dialled or accepted
// connection gets) towards a reader that stalls: the receiving side only
// starts reading after the senders have come to rest against a finite send
// buffer. Every frame whose Send reported success arrives intact, once, in its
// sender's order; a frame whose Send reported an error may be missing, but
// nothing damaged is delivered for it either.
func wrapped() {
	ca, cb := vnet.NewPair("a", "b")
	ca.Cap = 4096 // finite buffer towards a peer that is not reading yet
	frameType = net.Post
	a := net.ConnEndPoint(ca)
	vrt.Explore()
	sent := map[uint32]bool{}
	failed := map[uint32]bool{}
	var ws []*vrt.Thread
	for s := 1; s <= 2; s++ {
		s := s
		ws = append(ws, vrt.GoWorker(fmt.Sprintf("sender%d", s), func() {
			for k := 0; k < 2; k++ {
				id := uint32(s*100 + k)
				m := net.NewMessage(hdr(net.Post, uint32(s), 9, uint32(k+50), id), payload(id, sizes[(s+k)%len(sizes)]))
				if err := a.Send(m); err != nil {
					failed[id] = true
				} else {
					sent[id] = true
				}
			}
		}))
	}
	vrt.Quiesce() // the senders are stuck (or done): now the reader starts
	var got []*net.Message
	q := make(chan *net.Message, 32)
	b := net.EndPointFinalizer(cb, func(e net.EndPoint) {
		e.MakeHandler(func(h *net.Header) (bool, bool) { return true, true }, q, nil)
	})
	vrt.GoNamed("drain", func() {
		for m := range q {
			got = append(got, m)
		}
	})
	vrt.Quiesce()
	for i, w := range ws {
		if !w.Done() {
			vrt.Failf(fmt.Sprintf("hang/sender%d", i+1), "sender still blocked on %s although the peer reads now", w.BlockedOn())
		}
	}
	seen := map[uint32]int{}
	last := map[uint32]int{}
	for _, m := range got {
		if !intact(m) {
			vrt.Failf("corrupt/wrapped", "the receiver was handed a damaged frame: header %+v, %d payload bytes (sends acknowledged: %v, failed: %v)", m.Header, len(m.Payload), sent, failed)
			continue
		}
		seen[m.Header.ID]++
		sender, seq := m.Header.ID/100, int(m.Header.ID%100)
		if l, ok := last[sender]; ok && seq <= l {
			vrt.Failf("sender-order/wrapped", "frame %d of sender %d after frame %d", seq, sender, l)
		}
		last[sender] = seq
	}
	for id := range sent {
		if seen[id] != 1 {
			vrt.Failf("missing/wrapped", "Send of frame %d reported success; the receiver got it %d times (acknowledged %v, failed %v, received %d frames)", id, seen[id], sent, failed, len(got))
		}
	}
	for id, n := range seen {
		if n > 1 {
			vrt.Failf("duplicate/wrapped", "frame %d received %d times", id, n)
		}
	}
	vrt.Observe("sent=%d failed=%d got=%d", len(sent), len(failed), len(got))
	a.Close()
	b.Close()
	vrt.Quiesce()
}

// registration: two goroutines register a handler each on one endpoint at the
// same time; afterwards every registered handler receives every frame.
func registration() {
	ca, cb := vnet.NewPair("a", "b")
	a := net.NewEndPoint(ca)
	b := net.NewEndPoint(cb)
	frameType = net.Post
	vrt.Explore()
	got := [][]uint32{nil, nil}
	ids := []int{-1, -1}
	var ws []*vrt.Thread
	for i := 0; i < 2; i++ {
		i := i
		ws = append(ws, vrt.GoWorker(fmt.Sprintf("registrar%d", i), func() {
			q := make(chan *net.Message, 8)
			vrt.GoNamed(fmt.Sprintf("drain%d", i), func() {
				for m := range q {
					got[i] = append(got[i], m.Header.ID)
				}
			})
			ids[i] = b.MakeHandler(func(h *net.Header) (bool, bool) { return true, true }, q, nil)
		}))
	}
	vrt.Quiesce()
	for _, w := range ws {
		if !w.Done() {
			vrt.Failf("hang/registrar", "MakeHandler blocked on %s", w.BlockedOn())
		}
	}
	if ids[0] == ids[1] {
		vrt.Failf("registration/same-identifier", "two concurrent registrations received the same identifier %d", ids[0])
	}
	for k := 0; k < 2; k++ {
		id := uint32(100 + k)
		m := net.NewMessage(hdr(net.Post, 1, 9, uint32(k+50), id), payload(id, sizes[(1+k)%len(sizes)]))
		a.Send(m)
	}
	vrt.Quiesce()
	for i := 0; i < 2; i++ {
		if fmt.Sprint(got[i]) != "[100 101]" {
			vrt.Failf("registration/handler-misses-frames", "handler %d, registered concurrently with another one, received %v of the frames [100 101]", i, got[i])
		}
	}
	vrt.Observe("ids=%v", ids)
	a.Close()
	b.Close()
	vrt.Quiesce()
}

// finalizer: the peer's frames are already waiting when the endpoint is
// built with EndPointFinalizer; the handlers its finalizer installs (after a
// while) receive every one of them.
func finalizer() {
	ca, cb := vnet.NewPair("a", "b")
	a := net.NewEndPoint(ca)
	frameType = net.Post
	for k := 0; k < 2; k++ {
		id := uint32(100 + k)
		if err := a.Send(net.NewMessage(hdr(net.Post, 1, 9, uint32(50+k), id), payload(id, sizes[(1+k)%len(sizes)]))); err != nil {
			vrt.Failf("harness/send", "%v", err)
		}
	}
	vrt.Quiesce()
	vrt.Explore()
	q1 := make(chan *net.Message, 8)
	q2 := make(chan *net.Message, 8)
	var b net.EndPoint
	w := vrt.GoWorker("acceptor", func() {
		b = net.EndPointFinalizer(cb, func(e net.EndPoint) {
			vrt.Yield() // a finalizer that takes its time
			e.MakeHandler(func(h *net.Header) (bool, bool) { return true, true }, q1, nil)
			vrt.Yield()
			e.MakeHandler(func(h *net.Header) (bool, bool) { return h.ID == 101, true }, q2, nil)
		})
	})
	// a late sender races the construction as well
	w2 := vrt.GoWorker("late-sender", func() {
		a.Send(net.NewMessage(hdr(net.Post, 1, 9, 52, 102), payload(102, sizes[3%len(sizes)])))
	})
	vrt.Quiesce()
	if !w.Done() || !w2.Done() {
		vrt.Failf("hang/acceptor", "EndPointFinalizer or the sender did not return")
	}
	drain := func(q chan *net.Message) []uint32 {
		var got []uint32
		for len(q) > 0 {
			m := <-q
			if !intact(m) {
				vrt.Failf("corrupt/all", "damaged frame: header %+v, %d payload bytes", m.Header, len(m.Payload))
			}
			got = append(got, m.Header.ID)
		}
		return got
	}
	if got := drain(q1); fmt.Sprint(got) != "[100 101 102]" {
		vrt.Failf("missing/finalizer-handler", "the handler installed by the finalizer received %v of the frames [100 101 102] that were sent to the new endpoint", got)
	}
	if got := drain(q2); fmt.Sprint(got) != "[101]" {
		vrt.Failf("missing/finalizer-handler", "the second handler installed by the finalizer received %v, its filter selects [101]", got)
	}
	vrt.Observe("ok")
	a.Close()
	b.Close()
	vrt.Quiesce()
}

// limit: a frame of exactly the largest accepted payload size travels among
// small ones from another sender.
func limit() {
	ca, cb := vnet.NewPair("a", "b")
	a := net.NewEndPoint(ca)
	q := make(chan *net.Message, 8)
	b := net.EndPointFinalizer(cb, func(e net.EndPoint) {
		e.MakeHandler(func(h *net.Header) (bool, bool) { return true, true }, q, nil)
	})
	big := make([]byte, net.MaxPayloadSize)
	for i := 0; i < len(big); i += 4093 {
		big[i] = byte(i)
	}
	big[len(big)-1] = 0x5a
	vrt.Explore()
	w1 := vrt.GoWorker("sender-big", func() {
		a.Send(net.NewMessage(hdr(net.Post, 1, 9, 50, 100), big[:len(big)-1]))
		a.Send(net.NewMessage(hdr(net.Post, 1, 9, 51, 101), big))
		a.Send(net.NewMessage(hdr(net.Post, 1, 9, 52, 102), []byte{1}))
	})
	w2 := vrt.GoWorker("sender-small", func() {
		a.Send(net.NewMessage(hdr(net.Post, 2, 9, 50, 200), []byte{2, 3}))
		a.Send(net.NewMessage(hdr(net.Post, 2, 9, 51, 201), nil))
	})
	vrt.Quiesce()
	if !w1.Done() || !w2.Done() {
		vrt.Failf("hang/sender", "a sender is blocked")
	}
	var got1, got2 []uint32
	for len(q) > 0 {
		m := <-q
		want := map[uint32]int{100: len(big) - 1, 101: len(big), 102: 1, 200: 2, 201: 0}[m.Header.ID]
		ok := len(m.Payload) == want && int(m.Header.Size) == want
		if ok && want >= len(big)-1 {
			for i := 0; i < want; i += 4093 {
				if m.Payload[i] != byte(i) {
					ok = false
				}
			}
			if want == len(big) && m.Payload[want-1] != 0x5a {
				ok = false
			}
		}
		if !ok {
			vrt.Failf("corrupt/limit-size", "frame %d arrived with %d payload bytes (header size %d), %d were sent", m.Header.ID, len(m.Payload), m.Header.Size, want)
		}
		if m.Header.ID < 200 {
			got1 = append(got1, m.Header.ID)
		} else {
			got2 = append(got2, m.Header.ID)
		}
	}
	if fmt.Sprint(got1) != "[100 101 102]" || fmt.Sprint(got2) != "[200 201]" {
		vrt.Failf("missing/limit-size", "with a frame of exactly MaxPayloadSize bytes among them the peer received %v and %v of [100 101 102] and [200 201]", got1, got2)
	}
	vrt.Observe("ok")
	a.Close()
	b.Close()
	vrt.Quiesce()
}

// afterFailedSends runs a scenario after two sends that failed on OTHER
// connections of the process (one closed by its peer, one closed locally):
// whatever a failed write leaves behind must not disturb later senders.
func afterFailedSends(inner func()) func() {
	return func() {
		for i := 0; i < 2; i++ {
			ca, cb := vnet.NewPair(fmt.Sprintf("dead%d", i), fmt.Sprintf("dead%d-peer", i))
			e := net.NewEndPoint(ca)
			if i == 0 {
				cb.Close()
			} else {
				ca.Close()
			}
			vrt.Quiesce()
			m := net.NewMessage(hdr(net.Post, 1, 9, 50, 100), payload(100, 5))
			if e.Send(m) == nil {
				vrt.Flag("send-on-dead-connection-succeeded")
			}
			m2 := net.NewMessage(hdr(net.Post, 1, 9, 50, 100), payload(100, 40))
			if m2.Write(ca) == nil {
				vrt.Flag("write-on-dead-connection-succeeded")
			}
			vrt.Quiesce()
		}
		inner()
	}
}

// manyHandlers: more handlers than the table's ten preallocated slots; some
// are removed again (a free choice of which); every handler still registered
// receives exactly the frames its filter selects.
func manyHandlers() {
	ca, cb := vnet.NewPair("a", "b")
	a := net.NewEndPoint(ca)
	b := net.NewEndPoint(cb)
	frameType = net.Post
	const n = 12
	qs := make([]chan *net.Message, n)
	ids := make([]int, n)
	for i := 0; i < n; i++ {
		i := i
		qs[i] = make(chan *net.Message, 8)
		sel := func(h *net.Header) (bool, bool) { return true, true }
		if i%3 == 2 {
			sel = func(h *net.Header) (bool, bool) { return h.ID%2 == 1, true } // odd ids only
		}
		ids[i] = b.MakeHandler(sel, qs[i], nil)
	}
	patterns := [][]int{{}, {0, 1, 2, 3, 4, 5, 6, 7, 8, 9}, {11}, {10}, {0, 11}, {1, 2, 3, 4, 5, 6, 7, 8, 9, 10, 11}, {0, 2, 4, 6, 8, 10}, {5}}
	pat := patterns[vrt.ChooseFree(len(patterns), "removed-handlers")]
	removed := map[int]bool{}
	for _, i := range pat {
		if err := b.RemoveHandler(ids[i]); err != nil {
			vrt.Failf("registration/remove-failed", "RemoveHandler(%d) of a live handler failed: %v", ids[i], err)
		}
		removed[i] = true
	}
	late := vrt.ChooseFree(2, "one-more-handler-afterwards") == 1
	var lq chan *net.Message
	if late {
		lq = make(chan *net.Message, 8)
		b.MakeHandler(func(h *net.Header) (bool, bool) { return true, true }, lq, nil)
	}
	vrt.Explore()
	w := vrt.GoWorker("sender", func() {
		for k := 0; k < 3; k++ {
			id := uint32(100 + k)
			a.Send(net.NewMessage(hdr(net.Post, 1, 9, uint32(50+k), id), payload(id, sizes[(1+k)%len(sizes)])))
		}
	})
	vrt.Quiesce()
	if !w.Done() {
		vrt.Failf("hang/sender", "sender blocked on %s", w.BlockedOn())
	}
	drain := func(q chan *net.Message) []uint32 {
		var got []uint32
		for len(q) > 0 {
			m := <-q
			if !intact(m) {
				vrt.Failf("corrupt/all", "damaged frame: header %+v, %d payload bytes", m.Header, len(m.Payload))
			}
			got = append(got, m.Header.ID)
		}
		return got
	}
	for i := 0; i < n; i++ {
		got := fmt.Sprint(drain(qs[i]))
		want := "[100 101 102]"
		if i%3 == 2 {
			want = "[101]"
		}
		if removed[i] {
			want = "[]"
		}
		if got != want {
			vrt.Failf("missing/handler-beyond-ten", "with %d handlers registered and %v removed, handler %d (slot %d) received %s, its filter selects %s of the frames [100 101 102]", n, pat, i, ids[i], got, want)
		}
	}
	if late {
		if got := fmt.Sprint(drain(lq)); got != "[100 101 102]" {
			vrt.Failf("missing/handler-beyond-ten", "a handler registered after the removals %v received %s of [100 101 102]", pat, got)
		}
	}
	vrt.Observe("pattern=%v late=%v", pat, late)
	a.Close()
	b.Close()
	vrt.Quiesce()
}

// replaceDuringDispatch: while the peer's frames for service 1 are dispatched, the
// handler selecting service 1 is removed and a handler selecting service 2 is
// registered (it takes the freed slot). No handler ever receives a frame its own
// filter did not select, the one-shot flavour of the new handler is not closed by a
// verdict given for its predecessor (seed C10-20 evaluated the filters on a snapshot
// outside the lock and delivered by slot index).
func replaceDuringDispatch() {
	ca, cb := vnet.NewPair("a", "b")
	a := net.NewEndPoint(ca)
	b := net.NewEndPoint(cb)
	frameType = net.Post
	oneShot := vrt.ChooseFree(2, "first handler is one-shot") == 1
	vrt.Explore()
	q1 := make(chan *net.Message, 8)
	q2 := make(chan *net.Message, 8)
	closed2 := 0
	taken := 0
	id1 := b.MakeHandler(func(h *net.Header) (bool, bool) {
		if h.Service != 1 {
			return false, true
		}
		taken++
		return true, !oneShot
	}, q1, nil)
	id2 := -1
	w := vrt.GoWorker("replacer", func() {
		b.RemoveHandler(id1)
		id2 = b.MakeHandler(func(h *net.Header) (bool, bool) { return h.Service == 2, true }, q2, func(error) { closed2++ })
	})
	ws := vrt.GoWorker("sender", func() {
		for k := 0; k < 2; k++ {
			id := uint32(100 + k)
			a.Send(net.NewMessage(hdr(net.Post, 1, 9, uint32(k+50), id), payload(id, sizes[(1+k)%len(sizes)])))
		}
	})
	vrt.Quiesce()
	for _, t := range []*vrt.Thread{w, ws} {
		if !t.Done() {
			vrt.Failf("hang/"+t.Name, "blocked on %s", t.BlockedOn())
			return
		}
	}
	if id2 == id1 {
		vrt.Flag("slot-reused")
	}
	// the new handler is alive: a frame of service 2 reaches it, and nothing else ever did
	if closed2 != 0 {
		vrt.Failf("replaced/new-handler-closed", "the handler registered during the dispatch was closed %d time(s) although neither the endpoint nor the handler was closed", closed2)
	}
	a.Send(net.NewMessage(hdr(net.Post, 2, 9, 50, 200), payload(200, sizes[2%len(sizes)])))
	vrt.Quiesce()
	var got2 []uint32
	for len(q2) > 0 {
		m, ok := <-q2
		if !ok {
			break
		}
		got2 = append(got2, m.Header.ID)
		if m.Header.Service != 2 {
			vrt.Failf("replaced/frame-not-selected", "the handler selecting service 2 received frame %d of service %d, which its filter never selected", m.Header.ID, m.Header.Service)
		}
		if !intact(m) {
			vrt.Failf("corrupt/replaced", "damaged frame: header %+v, %d payload bytes", m.Header, len(m.Payload))
		}
	}
	if closed2 == 0 && fmt.Sprint(got2) != "[200]" && len(got2) <= 1 {
		vrt.Failf("replaced/new-handler-misses-frames", "the handler selecting service 2 received %v of [200]", got2)
	}
	var got1 []uint32
	for len(q1) > 0 {
		m, ok := <-q1
		if !ok {
			break
		}
		got1 = append(got1, m.Header.ID)
		if m.Header.Service != 1 || !intact(m) {
			vrt.Failf("corrupt/replaced", "first handler: frame %+v", m.Header)
		}
	}
	for i, id := range got1 {
		if id != uint32(100+i) {
			vrt.Failf("replaced/order", "the first handler received %v: not a prefix of [100 101]", got1)
		}
	}
	if len(got1) > 0 {
		vrt.Flag("delivered-before-removal")
	}
	vrt.Observe("oneShot=%v got1=%v got2=%v reused=%v", oneShot, got1, got2, id2 == id1)
	a.Close()
	b.Close()
	vrt.Quiesce()
}

func init() {
	reg.Register(&reg.Scenario{Property: "C10", Name: "two-senders-one-frame-exhaustive", Body: light, Quick: 2, Thorough: 99,
		Doc: "2 senders x 1 frame, one handler, no draining thread: the whole interleaving tree", MustFlag: []string{"sender-overtaken"}})
	reg.Register(&reg.Scenario{Property: "C10", Name: "replace-handler-during-dispatch", Body: replaceDuringDispatch, Quick: 2, Thorough: 4,
		Doc: "RemoveHandler(h1) + MakeHandler(h2) (h2 takes the slot of h1) || two frames selected by h1 only: a handler only ever receives what its own filter selected, and is never closed by a verdict given for another handler", MustFlag: []string{"slot-reused", "delivered-before-removal"}})
	reg.Register(&reg.Scenario{Property: "C10", Name: "concurrent-registration", Body: registration, Quick: 2, Thorough: 99,
		Doc: "two goroutines call MakeHandler on one endpoint at the same time; then two frames arrive: both handlers get both"})
	reg.Register(&reg.Scenario{Property: "C10", Name: "finalizer-frames-waiting", Body: finalizer, Quick: 2, Thorough: 99,
		Doc: "two frames are waiting and a third is being sent while EndPointFinalizer builds the endpoint; the handlers installed by a slow finalizer get every frame"})
	reg.Register(&reg.Scenario{Property: "C10", Name: "limit-size-frame", Body: limit, Quick: 0, Thorough: 1,
		Doc: "a sender sends payloads of MaxPayloadSize-1 and exactly MaxPayloadSize bytes, another sender small frames: all arrive intact, in each sender's order"})
	reg.Register(&reg.Scenario{Property: "C10", Name: "twelve-handlers", Body: manyHandlers, Quick: 0, Thorough: 1,
		Doc: "12 handlers on one endpoint (two beyond the preallocated table), 8 patterns of removals, optionally one more registration; three frames: every remaining handler receives exactly its subsequence"})
	reg.Register(&reg.Scenario{Property: "C10", Name: "calls-blocked-first-handler", Body: body(2, 2, false, net.Call, true), Quick: 2, Thorough: 4,
		Doc: "2 senders x 2 Call frames; the first registered handler selects everything but never drains its 1-slot queue", MustFlag: []string{"sender-overtaken"}})
	reg.Register(&reg.Scenario{Property: "C10", Name: "addhandler-backlog-then-end", Body: consumerBacklog, Quick: 2, Thorough: 4,
		Doc: "AddHandler consumer busy with the first of four frames (three wait in its queue of ten); the handler then ends by Close / peer close / RemoveHandler before the consumer gets on: every frame accepted into the queue reaches the consumer, in order"})
	reg.Register(&reg.Scenario{Property: "C10", Name: "two-senders-wrapped-stream-stalled-reader", Body: wrapped, Quick: 2, Thorough: 4,
		Doc: "two senders x 2 frames (0 B .. 70 000 B) through the library's own stream wrapper (net.ConnEndPoint) against a finite send buffer while the peer is not reading yet; a write deadline, if the code sets one, may expire mid-buffer (explored); then the peer reads: every acknowledged frame arrives intact, once, in order, nothing damaged is delivered"})
	reg.Register(&reg.Scenario{Property: "C10", Name: "two-senders-mixed-types", Body: body(2, 3, false, 0, false), Quick: 2, Thorough: 4,
		Doc: "two senders x 3 frames each, every sender mixing message types (event, post, reply, call, error, capability): each sender's frames arrive in the order it sent them whatever their types"})
	reg.Register(&reg.Scenario{Property: "C10", Name: "two-senders", Body: body(2, 2, false, net.Post, false), Quick: 2, Thorough: 5,
		Doc: "2 senders x 2 frames on one endpoint, 4 handler filters on the peer", MustFlag: []string{"sender-overtaken"}})
	reg.Register(&reg.Scenario{Property: "C10", Name: "two-senders-after-failed-sends", Body: afterFailedSends(body(2, 2, false, net.Post, false)), Quick: 2, Thorough: 4,
		Doc: "two-senders after sends that failed on two other (dead) connections of the process", MustFlag: []string{"sender-overtaken"}})
	reg.Register(&reg.Scenario{Property: "C10", Name: "two-senders-fragmented", Body: body(2, 2, true, net.Post, false), Quick: 2, Thorough: 4,
		Doc: "2 senders x 2 frames, reads fragmented (whole / 1 byte / all but one)", MustFlag: []string{"sender-overtaken"}})
	reg.Register(&reg.Scenario{Property: "C10", Name: "three-senders", Body: body(3, 2, false, net.Event, false), Quick: 2, Thorough: 5,
		Doc: "3 senders x 2 frames on one endpoint", MustFlag: []string{"sender-overtaken"}})
}
