// Package c15 holds the engine-B scenarios of property C15: the service
// directory is a linearizable registry.
package c15

import (
	"bytes"
	"fmt"
	"reflect"
	"sort"
	"strings"
	"unsafe"

	"github.com/anishathalye/porcupine"
	"github.com/lugu/qiloop/bus"
	"github.com/lugu/qiloop/bus/directory"
	"github.com/lugu/qiloop/bus/net"
	"github.com/lugu/qiloop/type/basic"
	"github.com/lugu/qiloop/type/object"

	"verif/rt/vrt"
	"verif/scenarios/fx"
	"verif/scenarios/probe"
	"verif/scenarios/reg"
)

// ---------------------------------------------------------------------
// reference model

type entry struct {
	name string
	eps  string
}

// model is the boring registry: two maps and a counter.
type model struct {
	staging  map[uint32]entry
	services map[uint32]entry
	lastID   uint32
	events   []string
}

func newModel() *model {
	return &model{staging: map[uint32]entry{}, services: map[uint32]entry{}}
}

func (m *model) clone() *model {
	c := &model{staging: map[uint32]entry{}, services: map[uint32]entry{}, lastID: m.lastID}
	for k, v := range m.staging {
		c.staging[k] = v
	}
	for k, v := range m.services {
		c.services[k] = v
	}
	return c
}

func (m *model) key() string {
	var parts []string
	for id, e := range m.staging {
		parts = append(parts, fmt.Sprintf("s%d=%s", id, e.name))
	}
	for id, e := range m.services {
		parts = append(parts, fmt.Sprintf("r%d=%s@%s", id, e.name, e.eps))
	}
	sort.Strings(parts)
	return fmt.Sprintf("%d|%s", m.lastID, strings.Join(parts, ","))
}

func (m *model) nameUsed(n string) bool {
	for _, e := range m.staging {
		if e.name == n {
			return true
		}
	}
	for _, e := range m.services {
		if e.name == n {
			return true
		}
	}
	return false
}

func (m *model) register(name, eps string) (uint32, bool) {
	if name == "" || m.nameUsed(name) {
		return 0, false
	}
	m.lastID++
	m.staging[m.lastID] = entry{name, eps}
	return m.lastID, true
}

// registerAs is register with the identifier the implementation chose: the
// statement asks for identifiers that are strictly increasing and never
// reused, not for consecutive ones (a refused registration may consume one).
// idOK reports whether the identifier is above every identifier handed out
// before; the model then continues with it.
func (m *model) registerAs(name, eps string, id uint32) (accepted, idOK bool) {
	if name == "" || m.nameUsed(name) {
		return false, true
	}
	if id <= m.lastID {
		m.lastID++
		m.staging[m.lastID] = entry{name, eps}
		return true, false
	}
	m.lastID = id
	m.staging[id] = entry{name, eps}
	return true, true
}

func (m *model) ready(id uint32) bool {
	e, ok := m.staging[id]
	if !ok {
		return false
	}
	delete(m.staging, id)
	m.services[id] = e
	m.events = append(m.events, fmt.Sprintf("added(%d,%s)", id, e.name))
	return true
}

func (m *model) unregister(id uint32) bool {
	if e, ok := m.services[id]; ok {
		delete(m.services, id)
		m.events = append(m.events, fmt.Sprintf("removed(%d,%s)", id, e.name))
		return true
	}
	if _, ok := m.staging[id]; ok {
		delete(m.staging, id)
		return true
	}
	return false
}

func (m *model) update(id uint32, name, eps string) bool {
	e, ok := m.services[id]
	if !ok || e.name != name {
		return false
	}
	m.services[id] = entry{name, eps}
	return true
}

func (m *model) lookup(name string) (uint32, string, bool) {
	for id, e := range m.services {
		if e.name == name {
			return id, e.eps, true
		}
	}
	return 0, "", false
}

func (m *model) list() string {
	var ids []int
	for id := range m.services {
		ids = append(ids, int(id))
	}
	sort.Ints(ids)
	var parts []string
	for _, id := range ids {
		parts = append(parts, fmt.Sprintf("%d:%s@%s", id, m.services[uint32(id)].name, m.services[uint32(id)].eps))
	}
	return strings.Join(parts, " ")
}

// ---------------------------------------------------------------------
// fixture

const sdHost = "sd"

type dirSession struct{ c *fx.Conn }

func (s dirSession) Proxy(name string, objectID uint32) (bus.Proxy, error) {
	meta, err := bus.GetMetaObject(s.c.Client, 1, objectID)
	if err != nil {
		return nil, err
	}
	return bus.NewProxy(s.c.Client, meta, 1, objectID), nil
}
func (s dirSession) Object(ref object.ObjectReference) (bus.Proxy, error) {
	return bus.NewProxy(s.c.Client, ref.MetaObject, ref.ServiceID, ref.ObjectID), nil
}
func (s dirSession) Terminate() error { return nil }

type dirWorld struct {
	srv bus.Server
	w   *fx.World
}

func startDirectory() *dirWorld {
	srv, err := directory.NewServer("tcp://"+sdHost, bus.Yes{})
	if err != nil {
		panic(err)
	}
	return &dirWorld{srv: srv, w: &fx.World{Host: sdHost, ServiceID: 1}}
}

func (d *dirWorld) client() directory.ServiceDirectoryProxy {
	c := d.w.MustConnect()
	p, err := directory.ServiceDirectory(dirSession{c})
	if err != nil {
		panic(fmt.Sprintf("directory proxy: %v", err))
	}
	return p
}

func info(name string, id uint32, eps string) directory.ServiceInfo {
	return directory.ServiceInfo{Name: name, ServiceId: id, MachineId: "m1", ProcessId: 77, Endpoints: []string{eps}}
}

func listing(l []directory.ServiceInfo) string {
	var parts []string
	for _, i := range l {
		parts = append(parts, fmt.Sprintf("%d:%s@%s", i.ServiceId, i.Name, strings.Join(i.Endpoints, "+")))
	}
	return strings.Join(parts, " ")
}

// eventLog subscribes to both signals on a dedicated connection.
type eventLog struct {
	got     []string
	conn    *fx.Conn
	addedID uint32
	remID   uint32
}

// wireOrder checks, on the subscriber's connection, that no serviceRemoved
// frame of an identifier precedes its serviceAdded frame.
func (l *eventLog) wireOrder() {
	seenAdded := map[uint32]bool{}
	for _, f := range l.conn.In.Frames {
		if f.Hdr.Type != 5 || len(f.Payload) < 4 { // net.Event
			continue
		}
		id := uint32(f.Payload[0]) | uint32(f.Payload[1])<<8 | uint32(f.Payload[2])<<16 | uint32(f.Payload[3])<<24
		switch f.Hdr.Action {
		case l.addedID:
			seenAdded[id] = true
		case l.remID:
			if !seenAdded[id] && id != 1 {
				vrt.Failf("removed-before-added-on-the-wire", "the serviceRemoved event of service %d was sent before its serviceAdded event", id)
			}
		}
	}
}

func (d *dirWorld) watch() *eventLog {
	l := &eventLog{}
	c := d.w.MustConnect()
	l.conn = c
	p, err := directory.ServiceDirectory(dirSession{c})
	if err != nil {
		panic(err)
	}
	for id, sig := range p.Proxy().MetaObject().Signals {
		if sig.Name == "serviceAdded" {
			l.addedID = id
		}
		if sig.Name == "serviceRemoved" {
			l.remID = id
		}
	}
	_, added, err := p.SubscribeServiceAdded()
	if err != nil {
		panic(err)
	}
	_, removed, err := p.SubscribeServiceRemoved()
	if err != nil {
		panic(err)
	}
	vrt.GoNamed("added-drain", func() {
		for e := range added {
			l.got = append(l.got, fmt.Sprintf("added(%d,%s)", e.ServiceID, e.Name))
		}
	})
	vrt.GoNamed("removed-drain", func() {
		for e := range removed {
			l.got = append(l.got, fmt.Sprintf("removed(%d,%s)", e.ServiceID, e.Name))
		}
	})
	return l
}

// ---------------------------------------------------------------------
// part 1: sequential conformance

type op struct {
	kind string
	name string
	id   uint32
	eps  string
}

func (o op) String() string {
	switch o.kind {
	case "register", "service":
		if o.id != 0 {
			return fmt.Sprintf("%s(%q,client-filled-id=%d)", o.kind, o.name, o.id)
		}
		return fmt.Sprintf("%s(%q)", o.kind, o.name)
	case "update":
		return fmt.Sprintf("update(%d,%q,%s)", o.id, o.name, o.eps)
	case "services":
		return "services()"
	case "l-reserve", "l-resolve":
		return fmt.Sprintf("%s(%q)", o.kind, o.name)
	}
	return fmt.Sprintf("%s(%d)", o.kind, o.id)
}

func alphabet() []op {
	var a []op
	for _, n := range []string{"a", "b", "", "A"} {
		a = append(a, op{kind: "register", name: n, eps: "tcp://x"})
	}
	// a description whose serviceId field the client filled in (recycled
	// from a lookup): the directory assigns the identifier all the same
	a = append(a, op{kind: "register", name: "b", id: 1, eps: "tcp://x"}, op{kind: "register", name: "b", id: 9, eps: "tcp://x"})
	for id := uint32(1); id <= 4; id++ {
		a = append(a, op{kind: "ready", id: id}, op{kind: "unregister", id: id})
		a = append(a, op{kind: "update", id: id, name: "a", eps: "tcp://y"}, op{kind: "update", id: id, name: "b", eps: "tcp://y"})
		if id == 2 {
			a = append(a, op{kind: "update", id: id, name: "", eps: "tcp://z"})
		}
	}
	for _, n := range []string{"a", "b", "ServiceDirectory", "A", "servicedirectory"} {
		a = append(a, op{kind: "service", name: n})
	}
	a = append(a, op{kind: "services"})
	return a
}

// initialModel: the directory registers itself as service 1 at start-up.
func initialModel() *model {
	m := newModel()
	m.register("ServiceDirectory", "tcp://"+sdHost)
	m.ready(1)
	m.events = nil
	return m
}

// apply runs one operation on the implementation and on the model and
// compares the answers.
func apply(p directory.ServiceDirectoryProxy, m *model, o op, hist string) {
	fail := func(clause, format string, args ...interface{}) {
		vrt.Failf(clause+"/"+o.kind, "after [%s] %s: %s", hist, o, fmt.Sprintf(format, args...))
	}
	switch o.kind {
	case "register":
		id, err := p.RegisterService(info(o.name, o.id, o.eps))
		last := m.lastID
		ok, idOK := m.registerAs(o.name, o.eps, id)
		if ok != (err == nil) {
			fail("answer-differs", "implementation error=%v, model accepts=%v", err, ok)
		} else if ok && !idOK {
			fail("identifier-differs", "implementation assigned %d, which is not above the identifiers handed out before (the last one was %d): identifiers are strictly increasing and never reused", id, last)
		}
	case "ready":
		err := p.ServiceReady(o.id)
		if ok := m.ready(o.id); ok != (err == nil) {
			fail("answer-differs", "implementation error=%v, model accepts=%v", err, ok)
		}
	case "unregister":
		err := p.UnregisterService(o.id)
		if ok := m.unregister(o.id); ok != (err == nil) {
			fail("answer-differs", "implementation error=%v, model accepts=%v", err, ok)
		}
	case "update":
		err := p.UpdateServiceInfo(info(o.name, o.id, o.eps))
		if ok := m.update(o.id, o.name, o.eps); ok != (err == nil) {
			fail("answer-differs", "implementation error=%v, model accepts=%v", err, ok)
		}
	case "service":
		i, err := p.Service(o.name)
		mid, meps, ok := m.lookup(o.name)
		if ok != (err == nil) {
			fail("answer-differs", "implementation error=%v, model finds=%v", err, ok)
		} else if ok && (i.ServiceId != mid || i.Name != o.name || strings.Join(i.Endpoints, "+") != meps) {
			fail("lookup-differs", "implementation returned %d:%s@%v, model %d@%s", i.ServiceId, i.Name, i.Endpoints, mid, meps)
		}
	case "services":
		l, err := p.Services()
		if err != nil {
			fail("answer-differs", "services() failed: %v", err)
		} else if listing(l) != m.list() {
			fail("listing-differs", "implementation lists [%s], model [%s]", listing(l), m.list())
		}
	}
}

func sequential(depth int, populated bool) func() {
	return func() {
		d := startDirectory()
		p := d.client()
		m := initialModel()
		hist := ""
		if populated {
			// start from a non-initial state: a ready as 2, b staged as 3
			for _, o := range []op{{kind: "register", name: "a", eps: "tcp://x"}, {kind: "ready", id: 2}, {kind: "register", name: "b", eps: "tcp://x"}} {
				apply(p, m, o, hist)
				hist += o.String() + ";"
			}
			m.events = nil
			hist += "|"
		}
		ev := d.watch()
		abc := alphabet()
		var seq []op
		for i := 0; i < depth; i++ {
			k := vrt.ChooseFree(len(abc)+1, "op")
			if k == len(abc) {
				break
			}
			seq = append(seq, abc[k])
		}
		vrt.Explore()
		for _, o := range seq {
			apply(p, m, o, hist)
			hist += o.String() + ";"
			vrt.Quiesce()
		}
		// final observation: listing and every event, exactly once, in order
		apply(p, m, op{kind: "services"}, hist)
		vrt.Quiesce()
		// events of different signals travel on two channels: compare per kind
		split := func(l []string, prefix string) string {
			var out []string
			for _, e := range l {
				if strings.HasPrefix(e, prefix) {
					out = append(out, e)
				}
			}
			return strings.Join(out, " ")
		}
		for _, k := range []string{"added", "removed"} {
			if split(ev.got, k) != split(m.events, k) {
				vrt.Failf("events-differ/"+k, "after [%s]: %s events received [%s], model [%s]", hist, k, split(ev.got, k), split(m.events, k))
			}
		}
		fx.Settle()
		vrt.Observe("%s => %s", hist, m.key())
	}
}

// ---------------------------------------------------------------------
// local path: the hosting server's own bus.Namespace

// localNamespace digs the bus.Namespace the hosting server registers its own
// services with out of the session it hands out (Server.Session() is built by
// that namespace). Nothing exported leads there, so the fields of the session
// are searched for one whose value implements bus.Namespace; when the layout of
// a changed tree offers none the local histories are skipped (recorded, never
// an alarm).
func localNamespace(srv bus.Server) bus.Namespace {
	sess := srv.Session()
	if ns, ok := sess.(bus.Namespace); ok {
		return ns
	}
	v := reflect.ValueOf(sess)
	for v.Kind() == reflect.Ptr || v.Kind() == reflect.Interface {
		if v.IsNil() {
			return nil
		}
		v = v.Elem()
	}
	if v.Kind() != reflect.Struct || !v.CanAddr() {
		return nil
	}
	want := reflect.TypeOf((*bus.Namespace)(nil)).Elem()
	for i := 0; i < v.NumField(); i++ {
		f := v.Field(i)
		if !f.Type().Implements(want) {
			continue
		}
		f = reflect.NewAt(f.Type(), unsafe.Pointer(f.UnsafeAddr())).Elem()
		if (f.Kind() == reflect.Ptr || f.Kind() == reflect.Interface) && f.IsNil() {
			continue
		}
		if ns, ok := f.Interface().(bus.Namespace); ok {
			return ns
		}
	}
	return nil
}

func localAlphabet() []op {
	var a []op
	for _, n := range []string{"a", "b", ""} {
		a = append(a, op{kind: "l-reserve", name: n})
	}
	for id := uint32(2); id <= 4; id++ {
		a = append(a, op{kind: "l-enable", id: id}, op{kind: "l-remove", id: id})
	}
	a = append(a, op{kind: "l-resolve", name: "a"}, op{kind: "l-resolve", name: "b"})
	// the remote operations the local ones interact with
	a = append(a, op{kind: "register", name: "a", eps: "tcp://x"}, op{kind: "register", name: "b", eps: "tcp://x"})
	for id := uint32(2); id <= 3; id++ {
		a = append(a, op{kind: "ready", id: id}, op{kind: "unregister", id: id})
	}
	a = append(a, op{kind: "service", name: "a"}, op{kind: "services"})
	return a
}

// applyLocal runs one operation of the hosting server's namespace on the
// implementation and on the model.
func applyLocal(ns bus.Namespace, m *model, o op, hist string) {
	fail := func(clause, format string, args ...interface{}) {
		vrt.Failf(clause+"/"+o.kind, "after [%s] %s: %s", hist, o, fmt.Sprintf(format, args...))
	}
	switch o.kind {
	case "l-reserve":
		id, err := ns.Reserve(o.name)
		last := m.lastID
		if err == nil {
			if _, staged := m.staging[id]; staged {
				fail("identifier-differs", "the local reservation returned identifier %d, which an earlier registration holds", id)
				return
			}
			if _, live := m.services[id]; live {
				fail("identifier-differs", "the local reservation returned identifier %d, which a registered service holds", id)
				return
			}
		}
		ok, idOK := m.registerAs(o.name, "tcp://"+sdHost, id)
		if ok != (err == nil) {
			fail("answer-differs", "implementation error=%v, model accepts=%v", err, ok)
		} else if ok && !idOK {
			fail("identifier-differs", "implementation assigned %d, which is not above the identifiers handed out before (the last one was %d)", id, last)
		}
	case "l-enable":
		err := ns.Enable(o.id)
		if ok := m.ready(o.id); ok != (err == nil) {
			fail("answer-differs", "implementation error=%v, model accepts=%v", err, ok)
		}
	case "l-remove":
		err := ns.Remove(o.id)
		if ok := m.unregister(o.id); ok != (err == nil) {
			fail("answer-differs", "implementation error=%v, model accepts=%v", err, ok)
		}
	case "l-resolve":
		id, err := ns.Resolve(o.name)
		mid, _, ok := m.lookup(o.name)
		if ok != (err == nil) {
			fail("answer-differs", "implementation error=%v, model finds=%v", err, ok)
		} else if ok && id != mid {
			fail("lookup-differs", "implementation resolved %q to %d, model %d", o.name, id, mid)
		}
	}
}

// sequentialLocal: histories mixing the hosting server's namespace (Reserve,
// Enable, Remove, Resolve: what Server.NewService and Service.Terminate are made
// of, including the states an activation that fails half-way leaves behind: a
// reservation that is never enabled) with remote operations, against the same
// reference registry.
func sequentialLocal(depth int) func() {
	return func() {
		d := startDirectory()
		ns := localNamespace(d.srv)
		if ns == nil {
			vrt.Flag("local-namespace-not-reachable")
			vrt.Observe("skipped")
			return
		}
		p := d.client()
		m := initialModel()
		hist := ""
		ev := d.watch()
		abc := localAlphabet()
		var seq []op
		for i := 0; i < depth; i++ {
			k := vrt.ChooseFree(len(abc)+1, "op")
			if k == len(abc) {
				break
			}
			seq = append(seq, abc[k])
		}
		vrt.Explore()
		for _, o := range seq {
			if strings.HasPrefix(o.kind, "l-") {
				applyLocal(ns, m, o, hist)
			} else {
				apply(p, m, o, hist)
			}
			hist += o.String() + ";"
			vrt.Quiesce()
		}
		apply(p, m, op{kind: "services"}, hist)
		vrt.Quiesce()
		for _, k := range []string{"added", "removed"} {
			var g, w []string
			for _, e := range ev.got {
				if strings.HasPrefix(e, k) {
					g = append(g, e)
				}
			}
			for _, e := range m.events {
				if strings.HasPrefix(e, k) {
					w = append(w, e)
				}
			}
			if strings.Join(g, " ") != strings.Join(w, " ") {
				vrt.Failf("events-differ/"+k, "after [%s]: %s events received [%s], model [%s]", hist, k, strings.Join(g, " "), strings.Join(w, " "))
			}
		}
		fx.Settle()
		vrt.Observe("%s => %s", hist, m.key())
	}
}

// ---------------------------------------------------------------------
// part 2: concurrency

// listDuringReplacement: the hosting server replaces service a by service b
// (NewService(b), then a.Terminate(): ordered in real time) while remote clients
// list and look up. At every instant a or b is registered, so every listing is
// one of {a}, {a,b}, {b} and two listings of one client never go back.
func listDuringReplacement(fine bool) func() {
	return func() {
		d := startDirectory()
		p1, p2 := d.client(), d.client()
		svcA, err := d.srv.NewService("a", probe.ProbeObject(probe.New("a")))
		if err != nil {
			vrt.Failf("harness/new-service", "%v", err)
			return
		}
		vrt.Quiesce()
		vrt.Explore()
		vrt.SetFine(fine)
		var l1, l2, l3 []directory.ServiceInfo
		var e1, e2, e3, lerr, terr error
		wl := vrt.GoWorker("local", func() {
			_, lerr = d.srv.NewService("b", probe.ProbeObject(probe.New("b")))
			terr = svcA.Terminate()
		})
		w1 := vrt.GoWorker("lister", func() {
			l1, e1 = p1.Services()
			l2, e2 = p1.Services()
		})
		w2 := vrt.GoWorker("lister-2", func() {
			l3, e3 = p2.Services()
		})
		vrt.Quiesce()
		fx.Settle(wl, w1, w2)
		if lerr != nil || terr != nil {
			vrt.Failf("local-operation-failed", "NewService(b): %v, a.Terminate(): %v", lerr, terr)
			return
		}
		rank := func(l []directory.ServiceInfo, err error, who string) int {
			if err != nil {
				vrt.Failf("listing-failed", "%s: %v", who, err)
				return -1
			}
			names := map[string]bool{}
			for _, i := range l {
				names[i.Name] = true
			}
			if !names["ServiceDirectory"] || len(names) != len(l) {
				vrt.Failf("listing-never-existed", "%s lists [%s]", who, shortList(l))
				return -1
			}
			switch {
			case names["a"] && !names["b"] && len(l) == 2:
				return 0
			case names["a"] && names["b"] && len(l) == 3:
				vrt.Flag("listed-both")
				return 1
			case !names["a"] && names["b"] && len(l) == 2:
				return 2
			}
			vrt.Failf("listing-never-existed", "%s lists [%s] while the server replaced a by b (b registered before a left): no instant had this set of services", who, shortList(l))
			return -1
		}
		r1, r2, r3 := rank(l1, e1, "first listing"), rank(l2, e2, "second listing"), rank(l3, e3, "other client")
		if r1 >= 0 && r2 >= 0 && r2 < r1 {
			vrt.Failf("listing-goes-back", "one client listed [%s] and then [%s]", shortList(l1), shortList(l2))
		}
		final, err := p2.Services()
		if rank(final, err, "final listing") != 2 && err == nil {
			vrt.Failf("listing-differs", "after the replacement the directory lists [%s]", shortList(final))
		}
		vrt.Observe("listings %d %d %d", r1, r2, r3)
	}
}

type regIn struct {
	kind string
	name string
	id   uint32
}

type regOut struct {
	id   uint32
	ok   bool
	list string
}

// porcupine model over (register, ready, unregister, services).
var dirModel = porcupine.Model{
	Init: func() interface{} { return initialModel() },
	Step: func(state, input, output interface{}) (bool, interface{}) {
		m := state.(*model).clone()
		i, o := input.(regIn), output.(regOut)
		switch i.kind {
		case "register":
			if !o.ok {
				_, ok := m.register(i.name, "tcp://x")
				return !ok, m
			}
			ok, idOK := m.registerAs(i.name, "tcp://x", o.id)
			return ok && idOK, m
		case "ready":
			return m.ready(i.id) == o.ok, m
		case "unregister":
			return m.unregister(i.id) == o.ok, m
		case "services":
			return strings.ReplaceAll(m.list(), "@tcp://x", "") == o.list, m
		}
		return false, m
	},
	Equal: func(a, b interface{}) bool { return a.(*model).key() == b.(*model).key() },
	DescribeOperation: func(input, output interface{}) string {
		return fmt.Sprintf("%+v -> %+v", input, output)
	},
}

func shortList(l []directory.ServiceInfo) string {
	var parts []string
	for _, i := range l {
		ep := strings.Join(i.Endpoints, "+")
		if ep == "tcp://x" {
			parts = append(parts, fmt.Sprintf("%d:%s", i.ServiceId, i.Name))
		} else {
			parts = append(parts, fmt.Sprintf("%d:%s@%s", i.ServiceId, i.Name, ep))
		}
	}
	return strings.Join(parts, " ")
}

// remoteClients: two remote clients race on colliding names; the mailbox of
// the directory object must make the history linearizable.
func remoteClients() {
	d := startDirectory()
	p1, p2 := d.client(), d.client()
	ev := d.watch()
	vrt.Explore()
	var ops []porcupine.Operation
	rec := func(client int, in regIn, f func() regOut) regOut {
		call := int64(vrt.Step())
		o := f()
		ops = append(ops, porcupine.Operation{ClientId: client, Input: in, Call: call, Output: o, Return: int64(vrt.Step())})
		return o
	}
	run := func(client int, p directory.ServiceDirectoryProxy, name string) {
		r := rec(client, regIn{kind: "register", name: name}, func() regOut {
			id, err := p.RegisterService(info(name, 0, "tcp://x"))
			return regOut{id: id, ok: err == nil}
		})
		if r.ok {
			rec(client, regIn{kind: "ready", id: r.id}, func() regOut { return regOut{ok: p.ServiceReady(r.id) == nil} })
			rec(client, regIn{kind: "unregister", id: r.id}, func() regOut { return regOut{ok: p.UnregisterService(r.id) == nil} })
		}
		rec(client, regIn{kind: "services"}, func() regOut {
			l, err := p.Services()
			return regOut{ok: err == nil, list: shortList(l)}
		})
	}
	w1 := vrt.GoWorker("client1", func() { run(1, p1, "a") })
	w2 := vrt.GoWorker("client2", func() { run(2, p2, "a") })
	vrt.Quiesce()
	fx.Settle(w1, w2)
	if !porcupine.CheckOperations(dirModel, ops) {
		desc := ""
		for _, o := range ops {
			desc += fmt.Sprintf("[c%d %s @%d-%d] ", o.ClientId, dirModel.DescribeOperation(o.Input, o.Output), o.Call, o.Return)
		}
		vrt.Failf("not-linearizable", "no sequential order of the registry explains: %s", desc)
	}
	checkEvents(ev.got)
	ev.wireOrder()
	both := 0
	for _, o := range ops {
		if o.Input.(regIn).kind == "register" && o.Output.(regOut).ok {
			both++
		}
	}
	if both == 2 {
		vrt.Flag("both-registered-in-turn")
	} else {
		vrt.Flag("name-collision-refused")
	}
	vrt.Observe("registered=%d events=%v", both, ev.got)
}

// subscriberCut: the event subscriber's connection dies while a client works.
func subscriberCut() {
	d := startDirectory()
	p1 := d.client()
	ev := d.watch()
	ev2 := d.watch() // a healthy subscriber still gets every event
	vrt.Quiesce()
	vrt.Explore()
	var ops []porcupine.Operation
	rec := func(in regIn, f func() regOut) regOut {
		call := int64(vrt.Step())
		o := f()
		ops = append(ops, porcupine.Operation{ClientId: 1, Input: in, Call: call, Output: o, Return: int64(vrt.Step())})
		return o
	}
	cutAt, readyAt := 0, 0
	w1 := vrt.GoWorker("client", func() {
		r := rec(regIn{kind: "register", name: "a"}, func() regOut {
			id, err := p1.RegisterService(info("a", 0, "tcp://x"))
			return regOut{id: id, ok: err == nil}
		})
		if !r.ok {
			return
		}
		list := func() {
			rec(regIn{kind: "services"}, func() regOut {
				l, err := p1.Services()
				return regOut{ok: err == nil, list: shortList(l)}
			})
		}
		readyAt = vrt.Step()
		rec(regIn{kind: "ready", id: r.id}, func() regOut { return regOut{ok: p1.ServiceReady(r.id) == nil} })
		list()
		// a refused ready that took effect shows here: the retry is refused too
		rec(regIn{kind: "ready", id: r.id}, func() regOut { return regOut{ok: p1.ServiceReady(r.id) == nil} })
		rec(regIn{kind: "unregister", id: r.id}, func() regOut { return regOut{ok: p1.UnregisterService(r.id) == nil} })
		list()
		rec(regIn{kind: "unregister", id: r.id}, func() regOut { return regOut{ok: p1.UnregisterService(r.id) == nil} })
	})
	w2 := vrt.GoWorker("cutter", func() {
		cutAt = vrt.Step()
		ev.conn.Raw.Close()
	})
	vrt.Quiesce()
	fx.Settle(w1, w2)
	if !porcupine.CheckOperations(dirModel, ops) {
		desc := ""
		for _, o := range ops {
			desc += fmt.Sprintf("[%s @%d-%d] ", dirModel.DescribeOperation(o.Input, o.Output), o.Call, o.Return)
		}
		vrt.Failf("not-linearizable/subscriber-cut", "with a subscriber whose connection was cut at step %d, no sequential order of the registry explains: %s", cutAt, desc)
	}
	checkEvents(ev2.got)
	ev2.wireOrder()
	if got := strings.Join(ev2.got, " "); got != "added(2,a) removed(2,a)" {
		vrt.Failf("events-differ/healthy-subscriber", "the healthy subscriber received [%s], expected added(2,a) removed(2,a)", got)
	}
	if cutAt <= readyAt {
		vrt.Flag("cut-before-ready")
	}
	vrt.Observe("ops=%d cut-before-ready=%v", len(ops), cutAt <= readyAt)
}

// checkEvents: every (id) is added at most once, removed at most once, and
// removed only after added.
func checkEvents(got []string) {
	added, removed := map[string]int{}, map[string]int{}
	for _, e := range got {
		key := e[strings.Index(e, "("):]
		if strings.HasPrefix(e, "added") {
			added[key]++
		} else {
			removed[key]++
		}
	}
	for k, n := range added {
		if n > 1 {
			vrt.Failf("event-duplicated/added", "serviceAdded%s emitted %d times", k, n)
		}
	}
	for k, n := range removed {
		if n > 1 {
			vrt.Failf("event-duplicated/removed", "serviceRemoved%s emitted %d times", k, n)
		}
		if added[k] == 0 {
			vrt.Failf("removed-without-added", "serviceRemoved%s without a serviceAdded", k)
		}
	}
}

// updateLocal: services registered by the hosting server itself (the
// directory and two more, which the namespace registers with the server's
// own address list) and one registered remotely; a remote client updates the
// endpoints of each of them in turn: exactly the updated record changes.
func updateLocal() {
	d := startDirectory()
	p := d.client()
	for _, name := range []string{"c", "e"} {
		if _, err := d.srv.NewService(name, probe.ProbeObject(probe.New(name))); err != nil {
			vrt.Failf("harness/new-service", "%v", err)
			return
		}
	}
	rid, err := p.RegisterService(info("r", 0, "tcp://remote"))
	if err == nil {
		err = p.ServiceReady(rid)
	}
	if err != nil {
		vrt.Failf("harness/remote-register", "%v", err)
		return
	}
	vrt.Quiesce()
	target := vrt.ChooseFree(4, "which service is updated")
	vrt.Explore()
	before, err := p.Services()
	if err != nil || len(before) != 4 {
		vrt.Failf("harness/listing", "%v %v", before, err)
		return
	}
	victim := before[target]
	upd := victim
	upd.Endpoints = []string{"tcp://moved:1"}
	uerr := p.UpdateServiceInfo(upd)
	vrt.Quiesce()
	after, err := p.Services()
	if err != nil {
		vrt.Failf("listing-failed", "%v", err)
		return
	}
	if len(after) != len(before) {
		vrt.Failf("listing-differs/after-update", "updating the endpoints of service %d changed the number of services: %s -> %s", victim.ServiceId, listing(before), listing(after))
		return
	}
	for i := range before {
		want := before[i]
		if i == target && uerr == nil {
			want.Endpoints = []string{"tcp://moved:1"}
		}
		if fmt.Sprint(after[i].ServiceId, after[i].Name, after[i].Endpoints) != fmt.Sprint(want.ServiceId, want.Name, want.Endpoints) {
			vrt.Failf("update-touches-another-record", "updateServiceInfo(%d, endpoints=[tcp://moved:1]) answered %v; listing before: %s; after: %s (record %d expected %v)", victim.ServiceId, uerr, listing(before), listing(after), want.ServiceId, want.Endpoints)
			break
		}
		if one, err := p.Service(want.Name); err != nil || fmt.Sprint(one.Endpoints) != fmt.Sprint(want.Endpoints) {
			vrt.Failf("update-touches-another-record/lookup", "after updateServiceInfo(%d), service(%q) answers %v, %v; expected endpoints %v", victim.ServiceId, want.Name, one.Endpoints, err, want.Endpoints)
			break
		}
	}
	// a service registered by the hosting server afterwards still gets the server's own address
	if svc, err := d.srv.NewService("late", probe.ProbeObject(probe.New("late"))); err == nil {
		if one, err := p.Service("late"); err != nil || fmt.Sprint(one.Endpoints) != fmt.Sprint(before[0].Endpoints) {
			vrt.Failf("update-touches-another-record/later-registration", "a service the hosting server registered after updateServiceInfo(%d) is advertised with %v (%v); the server's addresses are %v", victim.ServiceId, one.Endpoints, err, before[0].Endpoints)
		}
		_ = svc
	}
	fx.Settle()
	vrt.Observe("target=%d err=%v", target, uerr != nil)
}

// eventBurst: a raw subscriber of serviceAdded / serviceRemoved stops reading
// (finite send buffer towards it) while the hosting server makes seventy
// services ready and unregisters half of them; then it reads again. Once
// everything has settled every transition has its event on that connection,
// exactly once and in order, and the well-behaved subscriber has them too -
// however the emission copes with the stalled subscriber (blocking, queueing),
// it may not lose a transition.
func eventBurst() {
	d := startDirectory()
	p := d.client()
	ev := d.watch()
	raw := d.w.RawPeer()
	raw.StartDrain()
	if !raw.Authenticate("", "") {
		vrt.Failf("harness/auth", "raw subscriber cannot authenticate")
		return
	}
	reg := func(signal uint32, handler uint64) []byte {
		var b bytes.Buffer
		basic.WriteUint32(1, &b)
		basic.WriteUint32(signal, &b)
		basic.WriteUint64(handler, &b)
		return b.Bytes()
	}
	raw.Send(net.Call, 1, 1, 0, raw.NextID(), reg(ev.addedID, 501))
	raw.Send(net.Call, 1, 1, 0, raw.NextID(), reg(ev.remID, 502))
	vrt.Quiesce()
	// the raw subscriber stops reading; the server can buffer 300 bytes towards it
	raw.Gate = make(chan struct{})
	raw.Raw.Peer().Cap = 300
	vrt.Explore()
	const n = 70
	var svcs []bus.Service
	w1 := vrt.GoWorker("burst", func() {
		for i := 0; i < n; i++ {
			svc, err := d.srv.NewService(fmt.Sprintf("s%02d", i), probe.ProbeObject(probe.New("x")))
			if err != nil {
				vrt.Failf("registration-lost/burst", "NewService(s%02d) failed: %v", i, err)
				return
			}
			svcs = append(svcs, svc)
		}
		for i := 0; i < len(svcs); i += 2 {
			svcs[i].Terminate()
		}
	})
	vrt.Quiesce() // the burst is over, or stuck behind the stalled subscriber
	close(raw.Gate)
	vrt.Quiesce()
	fx.Settle(w1)
	checkEvents(ev.got)
	count := func(got []string) (added, removed int) {
		for _, e := range got {
			if strings.HasPrefix(e, "added") {
				added++
			} else {
				removed++
			}
		}
		return
	}
	added, removed := count(ev.got)
	rawAdded, rawRemoved := 0, 0
	for _, f := range raw.Got {
		if f.Hdr.Type == net.Event && f.Hdr.Action == ev.addedID {
			rawAdded++
		}
		if f.Hdr.Type == net.Event && f.Hdr.Action == ev.remID {
			rawRemoved++
		}
	}
	wantRemoved := (len(svcs) + 1) / 2
	if added != len(svcs) || removed != wantRemoved {
		vrt.Failf("events-differ/burst", "%d services became ready and %d of them were unregistered while another subscriber was not reading: the well-behaved subscriber received %d serviceAdded and %d serviceRemoved events", len(svcs), wantRemoved, added, removed)
	}
	if rawAdded != len(svcs) || rawRemoved != wantRemoved {
		vrt.Failf("events-differ/burst-stalled-subscriber", "%d services became ready and %d were unregistered while this subscriber was not reading; once it read again it received %d serviceAdded and %d serviceRemoved events", len(svcs), wantRemoved, rawAdded, rawRemoved)
	}
	listingVsHistory(p, ev, map[uint32]bool{})
	vrt.Observe("added=%d removed=%d raw=%d/%d", added, removed, rawAdded, rawRemoved)
}

// listingVsHistory: once everything has settled, the listing must be explained
// by what happened. (1) An identifier whose unregistration was acknowledged is
// not listed: ids are never handed out twice, so whichever of staging /
// ready / unregister came first, an acknowledged unregister leaves nothing
// behind (unregister while staged makes the later ready fail; unregister after
// ready removes it). (2) An identifier is listed exactly when it has one more
// serviceAdded than serviceRemoved event.
func listingVsHistory(p directory.ServiceDirectoryProxy, ev *eventLog, unregistered map[uint32]bool) {
	vrt.Quiesce()
	l, err := p.Services()
	if err != nil {
		vrt.Failf("listing-failed", "%v", err)
		return
	}
	listed := map[uint32]string{}
	for _, i := range l {
		listed[i.ServiceId] = i.Name
	}
	for id := range unregistered {
		if name, ok := listed[id]; ok {
			vrt.Failf("unregistered-service-listed", "unregisterService(%d) was acknowledged, yet service %d (%s) is listed once everything has settled: %s; events %v", id, id, name, listing(l), ev.got)
		}
	}
	balance := map[uint32]int{}
	for _, e := range ev.got {
		var id uint32
		var rest string
		if n, _ := fmt.Sscanf(strings.NewReplacer("(", " ", ",", " ").Replace(e), "added %d %s", &id, &rest); n >= 1 {
			balance[id]++
		} else if n, _ := fmt.Sscanf(strings.NewReplacer("(", " ", ",", " ").Replace(e), "removed %d %s", &id, &rest); n >= 1 {
			balance[id]--
		}
	}
	for id, name := range listed {
		if id != 1 && balance[id] != 1 {
			vrt.Failf("listing-vs-events", "service %d (%s) is listed but its events are %v", id, name, ev.got)
		}
	}
	for id, b := range balance {
		if _, ok := listed[id]; !ok && b != 0 {
			vrt.Failf("listing-vs-events", "service %d is not listed but has %+d added/removed events: %v", id, b, ev.got)
		}
	}
}

// readyRace: an identifier that is staged (reserved, not ready yet) is made
// ready by the hosting server (local path: Namespace.Enable inside
// Server.NewService) while a remote client unregisters it / makes it ready too.
func readyRace(remoteReady bool) func() {
	return func() {
		d := startDirectory()
		p1, p2 := d.client(), d.client()
		ev := d.watch()
		vrt.Explore()
		var localErr, remErr error
		var svc bus.Service
		unregistered := map[uint32]bool{}
		// the registry holds the directory (1) only: the local service gets 2
		w1 := vrt.GoWorker("local", func() {
			svc, localErr = d.srv.NewService("c", probe.ProbeObject(probe.New("local")))
		})
		w2 := vrt.GoWorker("remote", func() {
			if remoteReady {
				remErr = p2.ServiceReady(2)
			} else {
				remErr = p2.UnregisterService(2)
				if remErr == nil {
					unregistered[2] = true
				}
			}
		})
		vrt.Quiesce()
		fx.Settle(w1, w2)
		ev.wireOrder()
		checkEvents(ev.got)
		if localErr == nil && svc != nil && svc.ServiceID() != 2 {
			vrt.Failf("harness", "the local service got identifier %d, not 2", svc.ServiceID())
		}
		listingVsHistory(p1, ev, unregistered)
		if remoteReady && localErr == nil && remErr == nil {
			// serviceReady(2) succeeds once: the second one finds nothing staged
			vrt.Failf("ready-twice", "identifier 2 was made ready twice: by the hosting server and by the remote client; events %v", ev.got)
		}
		switch {
		case localErr == nil && remErr == nil:
			vrt.Flag("both-succeeded")
		case localErr != nil && remErr == nil:
			vrt.Flag("remote-won")
		case localErr == nil && remErr != nil:
			vrt.Flag("local-only")
		}
		vrt.Observe("readyRace remoteReady=%v local=%v remote=%v events=%v", remoteReady, localErr != nil, remErr != nil, ev.got)
	}
}

// localRemote: the hosting process registers services locally (NewService /
// Terminate, which bypass the mailbox) while a remote client registers too.
func localRemote(fine bool, snipes ...bool) func() {
	return func() {
		snipe := len(snipes) > 0 && snipes[0]
		sniped := map[uint32]bool{}
		d := startDirectory()
		p1, p2 := d.client(), d.client()
		ev := d.watch()
		localName := []string{"a", "c"}[vrt.ChooseFree(2, "local-name")]
		vrt.Explore()
		vrt.SetFine(fine)
		var remoteID, localID uint32
		var remoteErr, localErr, readyErr error
		var svc bus.Service
		w1 := vrt.GoWorker("remote", func() {
			remoteID, remoteErr = p1.RegisterService(info("a", 0, "tcp://x"))
			if remoteErr == nil {
				readyErr = p1.ServiceReady(remoteID)
			}
		})
		w2 := vrt.GoWorker("local", func() {
			svc, localErr = d.srv.NewService(localName, probe.ProbeObject(probe.New("local")))
			if localErr == nil {
				localID = svc.ServiceID()
			}
		})
		ws := []*vrt.Thread{w1, w2}
		if snipe {
			// a remote client unregisters the identifier the local service is
			// about to get (or has just got): whatever the outcome, its
			// serviceRemoved event never precedes its serviceAdded event
			ws = append(ws, vrt.GoWorker("remote-unregister", func() {
				for _, id := range []uint32{2, 3} {
					if p2.UnregisterService(id) == nil {
						sniped[id] = true
					}
				}
			}))
		}
		vrt.Quiesce()
		fx.Settle(ws...)
		ev.wireOrder()
		if snipe {
			checkEvents(ev.got)
			listingVsHistory(p1, ev, sniped)
			vrt.Observe("snipe local=%s sniped=%v", localName, sniped)
			return
		}
		if remoteErr == nil && readyErr != nil {
			vrt.Failf("ready-refused", "serviceReady(%d) refused right after its registration: %v", remoteID, readyErr)
		}
		if remoteErr == nil && localErr == nil {
			if remoteID == localID {
				vrt.Failf("identifier-reused", "the remote and the local registration both received identifier %d", remoteID)
			}
			if localName == "a" {
				vrt.Failf("name-held-twice", "name %q registered by the remote client (id %d) and by the local server (id %d)", "a", remoteID, localID)
			}
		}
		if localName == "a" && remoteErr != nil && localErr != nil {
			vrt.Failf("both-refused", "two concurrent registrations of %q were both refused: %v / %v", "a", remoteErr, localErr)
		}
		if localName == "c" && (remoteErr != nil || localErr != nil) {
			vrt.Failf("registration-lost", "registrations of distinct names failed: remote %v, local %v", remoteErr, localErr)
		}
		// the listing shows exactly the ready services
		l, err := p2.Services()
		if err != nil {
			vrt.Failf("listing-failed", "%v", err)
		}
		want := map[uint32]string{1: "ServiceDirectory"}
		if remoteErr == nil && readyErr == nil {
			want[remoteID] = "a"
		}
		if localErr == nil {
			want[localID] = localName
		}
		got := map[uint32]string{}
		last := uint32(0)
		for _, i := range l {
			got[i.ServiceId] = i.Name
			if i.ServiceId <= last {
				vrt.Failf("listing-order", "listing not sorted by increasing identifier: %s", listing(l))
			}
			last = i.ServiceId
		}
		if fmt.Sprint(got) != fmt.Sprint(want) {
			vrt.Failf("listing-differs", "listing %v, expected %v (remote err=%v, local err=%v)", got, want, remoteErr, localErr)
		}
		vrt.Quiesce()
		checkEvents(ev.got)
		nAdded := 0
		for _, e := range ev.got {
			if strings.HasPrefix(e, "added") {
				nAdded++
			}
		}
		if nAdded != len(want)-1 {
			vrt.Failf("events-differ/added", "%d services became ready, %d serviceAdded events: %v", len(want)-1, nAdded, ev.got)
		}
		// local termination removes exactly its service
		if localErr == nil {
			svc.Terminate()
			vrt.Quiesce()
			// the local termination is an unregistration like any other:
			// its serviceRemoved event is emitted exactly once
			nRemoved := 0
			for _, e := range ev.got {
				if e == fmt.Sprintf("removed(%d,%s)", localID, localName) {
					nRemoved++
				}
			}
			if nRemoved != 1 {
				vrt.Failf("events-differ/removed-local", "the hosting server terminated its service %s (%d): %d serviceRemoved events for it, events %v", localName, localID, nRemoved, ev.got)
			}
			l2, _ := p2.Services()
			for _, i := range l2 {
				if i.ServiceId == localID {
					vrt.Failf("terminated-service-listed", "service %d still listed after its local termination", localID)
				}
			}
			if remoteErr == nil && readyErr == nil {
				if _, err := p2.Service("a"); err != nil && localName != "a" {
					vrt.Failf("other-service-removed", "service a disappeared when the local service terminated")
				}
			}
		}
		if remoteErr == nil && localErr == nil {
			vrt.Flag("both-registered")
		}
		fx.Settle()
		vrt.Observe("local=%s remoteErr=%v localErr=%v", localName, remoteErr != nil, localErr != nil)
	}
}

// pipelined: one client makes a service ready and unregisters it at once.
func pipelined() {
	d := startDirectory()
	p := d.client()
	ev := d.watch()
	vrt.Explore()
	w1 := vrt.GoWorker("client", func() {
		for _, n := range []string{"a", "b"} {
			id, err := p.RegisterService(info(n, 0, "tcp://x"))
			if err != nil {
				vrt.Failf("answer-differs/register", "register(%s) failed: %v", n, err)
				return
			}
			if err := p.ServiceReady(id); err != nil {
				vrt.Failf("answer-differs/ready", "ready(%d) failed: %v", id, err)
			}
			if err := p.UnregisterService(id); err != nil {
				vrt.Failf("answer-differs/unregister", "unregister(%d) failed: %v", id, err)
			}
		}
	})
	vrt.Quiesce()
	fx.Settle(w1)
	checkEvents(ev.got)
	ev.wireOrder()
	want := "added(2,a) added(3,b) removed(2,a) removed(3,b)"
	got := append([]string(nil), ev.got...)
	sort.Strings(got)
	if strings.Join(got, " ") != want {
		vrt.Failf("events-differ/pipelined", "events received %v, expected %s", ev.got, want)
	}
	vrt.Observe("%v", ev.got)
}

func init() {
	reg.Register(&reg.Scenario{Property: "C15", Name: "ready-then-unregister", Body: pipelined, Quick: 2, Thorough: 3,
		Doc: "one client: register, ready, unregister of a and b without pause; events exactly once and added before removed on the subscriber's connection"})
	reg.Register(&reg.Scenario{Property: "C15", Name: "sequential-3", Body: sequential(3, false), Quick: 0, Thorough: 0,
		Doc: "all sequences of <=3 operations of a 28-operation alphabet (register/ready/unregister/update/service/services over names a,b,A,'' and ids 1..4, registrations with a client-filled serviceId, lookups of case twins) through a remote proxy, compared step by step with the reference registry; events compared at the end"})
	reg.Register(&reg.Scenario{Property: "C15", Name: "list-during-local-replacement", Body: listDuringReplacement(false), Quick: 2, Thorough: 3,
		Doc: "the hosting server registers b and then terminates a while two remote clients list: every listing is a set of services that existed at some instant ({a}, {a,b} or {b}), listings of one client never go back", MustFlag: []string{"listed-both"}})
	reg.Register(&reg.Scenario{Property: "C15", Name: "list-during-local-replacement-statement-level", Body: listDuringReplacement(true), Quick: 1, Thorough: 2,
		Doc: "the same with a scheduling point in front of every statement of bus/directory/directory.go"})
	reg.Register(&reg.Scenario{Property: "C15", Name: "sequential-local-3", Body: sequentialLocal(3), Quick: 0, Thorough: 0,
		Doc: "all sequences of <=3 operations mixing the hosting server's own namespace (Reserve / Enable / Remove / Resolve, reached through the session the server hands out) with remote register / ready / unregister / service / services, against the reference registry: a reserved name is held, identifiers are never handed out twice"})
	reg.Register(&reg.Scenario{Property: "C15", Name: "sequential-local-4", Body: sequentialLocal(4), Quick: -1, Thorough: 0,
		Doc: "the same, <=4 operations"})
	reg.Register(&reg.Scenario{Property: "C15", Name: "sequential-4", Body: sequential(4, false), Quick: -1, Thorough: 0,
		Doc: "all sequences of <=4 operations"})
	reg.Register(&reg.Scenario{Property: "C15", Name: "sequential-from-populated-2", Body: sequential(2, true), Quick: 0, Thorough: 0,
		Doc: "all sequences of <=2 operations (then a listing) starting from a populated registry: a ready as 2, b staged as 3"})
	reg.Register(&reg.Scenario{Property: "C15", Name: "sequential-from-populated-3", Body: sequential(3, true), Quick: 0, Thorough: 0,
		Doc: "all sequences of <=3 operations from the populated registry"})
	reg.Register(&reg.Scenario{Property: "C15", Name: "subscriber-connection-cut", Body: subscriberCut, Quick: 1, Thorough: 3,
		Doc: "a subscriber of serviceAdded/serviceRemoved has its connection cut while another client registers, readies, lists, unregisters, lists: every answer must still be explained by the registry (an operation that took effect answers success)", MustFlag: []string{"cut-before-ready"}})
	reg.Register(&reg.Scenario{Property: "C15", Name: "two-remote-clients", Body: remoteClients, Quick: 1, Thorough: 2,
		Doc: "two remote clients: register(a), ready, unregister, services() each; history checked with porcupine against the registry", MustFlag: []string{"both-registered-in-turn", "name-collision-refused"}})
	reg.Register(&reg.Scenario{Property: "C15", Name: "local-vs-remote", Body: localRemote(false), Quick: 1, Thorough: 2,
		Doc: "remote register+ready of a || local Server.NewService(a|c) + Terminate", MustFlag: []string{"both-registered"}})
	reg.Register(&reg.Scenario{Property: "C15", Name: "local-vs-remote-unregister", Body: localRemote(true, true), Quick: 2, Thorough: 3,
		Doc: "as local-vs-remote (statement level) while another remote client unregisters identifiers 2 and 3: no serviceRemoved event precedes the serviceAdded event of the same identifier on the subscriber's connection, each at most once"})
	reg.Register(&reg.Scenario{Property: "C15", Name: "burst-of-seventy-transitions", Body: eventBurst, Quick: 0, Thorough: 0,
		Doc: "seventy services become ready and thirty-five are unregistered while one (raw) subscriber has stopped reading behind a finite send buffer, then reads again: one event per transition for every subscriber, listing and events agree"})
	reg.Register(&reg.Scenario{Property: "C15", Name: "update-among-local-services", Body: updateLocal, Quick: 0, Thorough: 1,
		Doc: "the directory, two services registered by the hosting server (same address list) and one registered remotely; the endpoints of each in turn are updated by a remote client: exactly that record changes, in listings, lookups and for later local registrations"})
	reg.Register(&reg.Scenario{Property: "C15", Name: "staged-local-ready-vs-remote-unregister", Body: readyRace(false), Quick: 2, Thorough: 3,
		Doc: "the hosting server registers a service (Reserve, activation, Enable: local path) while a remote client unregisters the identifier it gets: an acknowledged unregistration leaves nothing listed, listing and events agree", MustFlag: []string{"both-succeeded", "local-only"}})
	reg.Register(&reg.Scenario{Property: "C15", Name: "staged-local-ready-vs-remote-ready", Body: readyRace(true), Quick: 2, Thorough: 3,
		Doc: "same with a remote serviceReady of that identifier: it becomes ready once, one serviceAdded event", MustFlag: []string{"local-only"}})
	reg.Register(&reg.Scenario{Property: "C15", Name: "local-vs-remote-statement-level", Body: localRemote(true), Quick: 1, Thorough: 2,
		Doc: "same with bus/directory/directory.go interleaved at statement level (the local path bypasses the mailbox)"})
}
