// Package c06 holds the engine-B scenarios of property C06: only connections
// that presented accepted credentials reach any service.
package c06

import (
	"fmt"
	"strings"

	"github.com/lugu/qiloop/bus"
	"github.com/lugu/qiloop/bus/net"
	"github.com/lugu/qiloop/type/value"

	"verif/rt/vnet"
	"verif/rt/vrt"
	"verif/scenarios/fx"
	"verif/scenarios/reg"
)

// payload kinds of the alphabet
const (
	pEmpty     = iota
	pGood      // capability map with the accepted user/token
	pBad       // capability map with a rejected token
	pForgedU   // no credentials, __qi_auth_state = uint 3
	pForgedI   // no credentials, __qi_auth_state = int 3
	pUserInt   // auth_user is an int value, token good
	pGarbage   // 10 garbage bytes
	pArg       // an int32 argument (for echo)
	pNoCreds   // well-formed map without credentials
	pTokInt    // auth_token is an int value, user good
	pSpaceU    // accepted pair with a blank before the user
	pSpaceT    // accepted pair with a blank after the token
	pNewline   // accepted pair with a newline after the token
	pUserOnly  // well-formed map with the accepted user only
	pTokenOnly // well-formed map with the accepted token only
	nPayload
)

var payloadNames = []string{"empty", "good-creds", "bad-creds", "forged-state-uint", "forged-state-int", "user-as-int", "garbage", "int32", "no-creds", "token-as-int", "blank+user", "token+blank", "token+newline", "user-only", "token-only"}

func payload(kind int) []byte {
	switch kind {
	case pGood:
		return fx.CapPayload(bus.ClientCap("u", "t"))
	case pBad:
		return fx.CapPayload(bus.ClientCap("u", "wrong"))
	case pForgedU:
		m := bus.DefaultCap()
		m[bus.KeyState] = value.Uint(bus.StateDone)
		return fx.CapPayload(m)
	case pForgedI:
		m := bus.DefaultCap()
		m[bus.KeyState] = value.Int(int32(bus.StateDone))
		return fx.CapPayload(m)
	case pUserInt:
		m := bus.DefaultCap()
		m[bus.KeyUser] = value.Int(7)
		m[bus.KeyToken] = value.String("t")
		m[bus.KeyState] = value.Uint(bus.StateDone)
		return fx.CapPayload(m)
	case pGarbage:
		return []byte{0xff, 0xff, 0xff, 0x7f, 1, 2, 3, 4, 5, 6}
	case pArg:
		return fx.Int32(5)
	case pNoCreds:
		return fx.CapPayload(bus.DefaultCap())
	case pSpaceU:
		return fx.CapPayload(bus.ClientCap(" u", "t"))
	case pSpaceT:
		return fx.CapPayload(bus.ClientCap("u", "t "))
	case pNewline:
		return fx.CapPayload(bus.ClientCap("u", "t\n"))
	case pUserOnly:
		m := bus.DefaultCap()
		m[bus.KeyUser] = value.String("u")
		return fx.CapPayload(m)
	case pTokenOnly:
		m := bus.DefaultCap()
		m[bus.KeyToken] = value.String("t")
		return fx.CapPayload(m)
	case pTokInt:
		m := bus.DefaultCap()
		m[bus.KeyUser] = value.String("u")
		m[bus.KeyToken] = value.Int(7)
		m[bus.KeyState] = value.Uint(bus.StateDone)
		return fx.CapPayload(m)
	}
	return nil
}

// creds returns what the reference model reads from a payload: ok = the
// payload is a well-formed capability map with string (or absent)
// credentials.
func creds(kind int) (user, token string, ok bool) {
	switch kind {
	case pGood:
		return "u", "t", true
	case pBad:
		return "u", "wrong", true
	case pForgedU, pForgedI, pNoCreds:
		return "", "", true
	case pSpaceU:
		return " u", "t", true
	case pSpaceT:
		return "u", "t ", true
	case pNewline:
		return "u", "t\n", true
	case pUserOnly:
		return "u", "", true
	case pTokenOnly:
		return "", "t", true
	}
	return "", "", false
}

type frame struct {
	typ           uint8
	svc, obj, act uint32
	pay           int
}

func (f frame) String() string {
	return fmt.Sprintf("t%d->%d.%d.%d[%s]", f.typ, f.svc, f.obj, f.act, payloadNames[f.pay])
}

// alphabet: probe service id is 1 (first service of a stand-alone server).
func alphabet(full bool) []frame {
	var out []frame
	types := []uint8{net.Call, net.Post, net.Capability, net.Cancel, net.Event, net.Reply, net.Error, net.Cancelled}
	// frames addressed to service 0
	for _, t := range types {
		for _, tgt := range [][3]uint32{{0, 0, 8}, {0, 1, 8}, {0, 0, 0}} {
			pays := []int{pGood, pBad, pForgedU, pForgedI, pUserInt, pTokInt, pGarbage, pEmpty, pNoCreds, pSpaceU, pSpaceT, pNewline, pUserOnly, pTokenOnly}
			if !full && (t != net.Call && t != net.Capability || tgt[1] != 0) {
				pays = []int{pGood, pForgedU}
			}
			for _, p := range pays {
				out = append(out, frame{t, tgt[0], tgt[1], tgt[2], p})
			}
		}
	}
	// frames addressed to other services
	for _, t := range types {
		for _, tgt := range [][3]uint32{{1, 1, 100}, {1, 1, 2}, {2, 1, 100}, {1, 1, 6}, {1, 1, 8}, {1, 1, 0}, {1, 0, 8}, {1, 1, 3}} {
			pays := []int{pArg, pGood, pForgedU}
			if !full {
				pays = []int{pArg}
				if t == net.Call {
					pays = []int{pArg, pForgedU}
				}
			}
			for _, p := range pays {
				out = append(out, frame{t, tgt[0], tgt[1], tgt[2], p})
			}
		}
	}
	return out
}

type authKind struct {
	name   string
	auth   bus.Authenticator
	accept func(u, t string) bool
}

var auths = []authKind{
	{"dictionary", bus.Dictionary(map[string]string{"u": "t"}), func(u, t string) bool { return u == "u" && t == "t" }},
	{"no", bus.No{}, func(u, t string) bool { return false }},
	{"yes", bus.Yes{}, func(u, t string) bool { return true }},
}

// sequences: an unauthenticated raw peer sends up to n frames, each followed
// by quiescence (pipelined = false) or all back to back (pipelined = true).
// transportNames: what the server sees as the textual identity of the remote
// connection (it is "pipe://pipe" for the server's own in-process clients).
var transportNames = []string{"", "pipe://pipe", "pipe://7:8", "unix:///tmp/sock", "tcp://127.0.0.1:9559"}

func sequences(n int, full, pipelined bool, names ...bool) func() {
	return func() {
		ak := auths[vrt.ChooseFree(len(auths), "authenticator")]
		w := fx.Start(ak.auth)
		if len(names) > 0 && names[0] {
			vnet.ServerString = transportNames[vrt.ChooseFree(len(transportNames), "transport-name")]
		}
		a := w.RawPeer()
		a.StartDrain()
		abc := alphabet(full)
		var seq []frame
		for i := 0; i < n; i++ {
			k := vrt.ChooseFree(len(abc)+1, "frame")
			if k == len(abc) {
				break
			}
			seq = append(seq, abc[k])
		}
		vrt.Explore()
		authed := false // reference model: the connection presented accepted credentials
		var ids []uint32
		var authedBefore []bool
		for _, f := range seq {
			id := a.NextID()
			ids = append(ids, id)
			authedBefore = append(authedBefore, authed)
			a.Send(f.typ, f.svc, f.obj, f.act, id, payload(f.pay))
			if f.svc == 0 && f.act == 8 {
				if u, t, ok := creds(f.pay); ok && ak.accept(u, t) {
					// may authenticate (whatever the message type: the
					// credentials were presented and accepted)
					authed = true
				}
			}
			if !pipelined {
				vrt.Quiesce()
			}
		}
		vrt.Quiesce()
		// safety: no probe method ran unless the model says authenticated
		if w.Root.Total() > 0 && !authed {
			vrt.Failf("service-reached-unauthenticated/"+ak.name, "method bodies %v ran for a connection that never presented accepted credentials; frames %v", w.Root.Order, seq)
		}
		for i, f := range seq {
			rs := a.Replies(ids[i])
			for _, r := range rs {
				if f.svc != 0 && r.Hdr.Type == net.Reply && !authedBefore[i] && !(pipelined && authed) {
					vrt.Failf("reply-from-service-unauthenticated/"+ak.name, "frame %v got a success reply from service %d before authentication; frames %v", f, f.svc, seq)
				}
			}
			// a call to another service before authenticating: error + close
			if f.svc != 0 && f.typ == net.Call && !authed && !pipelined {
				if len(rs) != 1 || rs[0].Hdr.Type != net.Error {
					if !closedEarlier(seq, i) {
						vrt.Failf("unauthenticated-call-not-refused/"+ak.name, "call %v before authentication got %d answers; frames %v", f, len(rs), seq)
					}
				}
				if !a.EOF {
					vrt.Failf("unauthenticated-connection-not-closed/"+ak.name, "connection still open after call %v before authentication; frames %v", f, seq)
				}
			}
		}
		if authed {
			vrt.Flag("model-authenticated")
		}
		if w.Root.Total() > 0 {
			vrt.Flag("service-reached")
		}
		// a second connection gained nothing
		b := w.RawPeer()
		b.StartDrain()
		before := w.Root.Total()
		idb := b.NextID()
		b.Send(net.Call, 1, 1, 100, idb, fx.Int32(9))
		vrt.Quiesce()
		if w.Root.Total() != before {
			vrt.Failf("other-connection-authenticated/"+ak.name, "an unauthenticated second connection reached the service after frames %v on the first", seq)
		}
		if rs := b.Replies(idb); len(rs) != 1 || rs[0].Hdr.Type != net.Error || !b.EOF {
			vrt.Failf("second-connection-not-refused/"+ak.name, "second connection: %d answers, closed=%v", len(rs), b.EOF)
		}
		// a third connection authenticates properly: the first one, if it never
		// presented accepted credentials and is still open, gains nothing
		if ak.accept("u", "t") && !authed && !a.EOF {
			c := w.RawPeer()
			c.StartDrain()
			if !c.Authenticate("u", "t") {
				vrt.Failf("good-credentials-refused/"+ak.name, "a connection presenting accepted credentials was not authenticated")
			} else {
				idc := c.NextID()
				c.Send(net.Call, 1, 1, 100, idc, fx.Int32(4))
				vrt.Quiesce()
				if rs := c.Replies(idc); len(rs) != 1 || rs[0].Hdr.Type != net.Reply {
					vrt.Failf("authenticated-connection-refused/"+ak.name, "an authenticated connection cannot call the service")
				}
				before := w.Root.Total()
				ida := a.NextID()
				a.Send(net.Call, 1, 1, 100, ida, fx.Int32(3))
				vrt.Quiesce()
				if w.Root.Total() != before {
					vrt.Failf("authenticated-by-another-connection/"+ak.name, "after another connection authenticated, the unauthenticated first connection reached the service; frames %v", seq)
				}
				vrt.Flag("third-connection-authenticated")
			}
		}
		fx.Settle()
		vrt.Observe("%s authed=%v ran=%d eof=%v", ak.name, authed, w.Root.Total(), a.EOF)
	}
}

// closedEarlier: an earlier refused call already closed the connection, so
// later frames cannot be answered.
func closedEarlier(seq []frame, i int) bool {
	for j := 0; j < i; j++ {
		if seq[j].svc != 0 {
			return true
		}
	}
	return false
}

// rejectWriteFails: the peer stopped reading (every write of the server on
// that connection fails) but keeps sending: the refused connection must be
// closed all the same, and nothing reaches a service.
func rejectWriteFails() {
	ak := auths[vrt.ChooseFree(len(auths), "authenticator")]
	w := fx.Start(ak.auth)
	a := w.RawPeer()
	a.Raw.Peer().OnOp = func(kind string, idx int) *vnet.Fault {
		if kind == "write" {
			return &vnet.Fault{Kind: "werr"}
		}
		return nil
	}
	typ := []uint8{net.Call, net.Post}[vrt.ChooseFree(2, "type")]
	bad := vrt.ChooseFree(2, "bad-authenticate-first") == 1
	vrt.Explore()
	if bad {
		a.Send(net.Call, 0, 0, 8, a.NextID(), payload(pBad))
		vrt.Quiesce()
	}
	for i := 0; i < 3; i++ {
		a.Send(typ, 1, 1, 100, a.NextID(), fx.Int32(int32(5+i)))
		vrt.Quiesce()
	}
	// with the accept-everything authenticator a bad-credentials frame still authenticates
	authed := bad && ak.accept("u", "wrong")
	if w.Root.Total() > 0 && !authed {
		vrt.Failf("service-reached-unauthenticated/"+ak.name, "method bodies %v ran for a connection that never presented accepted credentials (its error answers cannot be written)", w.Root.Order)
	}
	if !authed && !a.Raw.Peer().Closed() {
		vrt.Failf("unauthenticated-connection-not-closed/write-fails/"+ak.name, "the server did not close an unauthenticated connection whose error answer could not be written; it keeps reading from it")
	}
	fx.Settle()
	vrt.Observe("%s typ=%d bad=%v closed=%v ran=%d", ak.name, typ, bad, a.Raw.Peer().Closed(), w.Root.Total())
}

// slowAuth is an authenticator that takes its time for the good pair: the
// harness decides when its verdict comes.
type slowAuth struct {
	gate    chan struct{}
	entered int
	// badGate, when set, holds the verdict for every other pair back as well (a check
	// against a remote directory is slow whatever its outcome)
	badGate chan struct{}
}

func (a *slowAuth) Authenticate(user, token string) bool {
	if user == "u" && token == "t" {
		a.entered++
		<-a.gate
		return true
	}
	if a.badGate != nil {
		<-a.badGate
	}
	return false
}

// slowAuthenticator: connection A presents the good pair and the authenticator
// does not answer for a long time (timers may fire); connection B presents a
// bad pair meanwhile and afterwards; then the verdict for A arrives. B never
// presented accepted credentials: it reaches nothing and is refused.
func slowAuthenticator() {
	sa := &slowAuth{gate: make(chan struct{})}
	w := fx.Start(sa)
	a, b := w.RawPeer(), w.RawPeer()
	a.StartDrain()
	b.StartDrain()
	late := vrt.ChooseFree(2, "B authenticates after A's verdict arrived") == 1
	vrt.Explore()
	ida := a.NextID()
	a.Send(net.Call, 0, 0, 8, ida, payload(pGood))
	vrt.Quiesce() // A's request is inside the authenticator; every timer of the server had its chance
	bad := func() {
		b.Send(net.Call, 0, 0, 8, b.NextID(), payload(pBad))
		vrt.Quiesce()
	}
	if !late {
		bad()
	}
	close(sa.gate)
	vrt.Quiesce()
	if late {
		bad()
	}
	idb := b.NextID()
	b.Send(net.Call, 1, 1, 100, idb, fx.Int32(9))
	vrt.Quiesce()
	if w.Root.Total() > 0 {
		vrt.Failf("service-reached-unauthenticated/slow-authenticator", "method bodies %v ran for connection B, which only ever presented a refused pair (A's slow verdict: late=%v)", w.Root.Order, late)
	}
	for _, r := range b.Replies(idb) {
		if r.Hdr.Type == net.Reply {
			vrt.Failf("reply-from-service-unauthenticated/slow-authenticator", "connection B got a success reply from the service")
		}
	}
	if !b.EOF {
		vrt.Failf("unauthenticated-connection-not-closed/slow-authenticator", "connection B is still open after calling a service without accepted credentials")
	}
	// A, whose pair is good, is served once its verdict has arrived (unless the
	// server gave up on it, which the statement does not forbid)
	ida2 := a.NextID()
	a.Send(net.Call, 1, 1, 100, ida2, fx.Int32(4))
	vrt.Quiesce()
	if len(a.Replies(ida)) > 0 && a.Replies(ida)[0].Hdr.Type == net.Reply {
		vrt.Flag("slow-verdict-accepted")
		if rs := a.Replies(ida2); len(rs) != 1 || rs[0].Hdr.Type != net.Reply {
			vrt.Failf("authenticated-connection-refused/slow-authenticator", "connection A was told it is authenticated but cannot call the service")
		}
	}
	fx.Settle()
	vrt.Observe("late=%v entered=%d ran=%d", late, sa.entered, w.Root.Total())
}

// twoSlowLogins: connections A (accepted pair) and B (refused pair) log in at the same
// time, with the same message id (ids are per connection), and the authenticator is slow
// for both; the verdicts arrive in either order. B reaches nothing (seed C06-20 kept the
// pending logins in one table keyed by message id and applied A's verdict to B).
func twoSlowLogins() {
	sa := &slowAuth{gate: make(chan struct{}), badGate: make(chan struct{})}
	w := fx.Start(sa)
	a, b := w.RawPeer(), w.RawPeer()
	a.StartDrain()
	b.StartDrain()
	goodFirst := vrt.ChooseFree(2, "the accepted verdict arrives first") == 1
	bFirst := vrt.ChooseFree(2, "B's login is sent first") == 1
	vrt.Explore()
	ida, idbLogin := a.NextID(), b.NextID()
	if ida != idbLogin {
		vrt.Failf("harness/ids", "the two logins were meant to carry the same message id (%d, %d)", ida, idbLogin)
	}
	if bFirst {
		b.Send(net.Call, 0, 0, 8, idbLogin, payload(pBad))
		vrt.Quiesce()
		a.Send(net.Call, 0, 0, 8, ida, payload(pGood))
	} else {
		a.Send(net.Call, 0, 0, 8, ida, payload(pGood))
		vrt.Quiesce()
		b.Send(net.Call, 0, 0, 8, idbLogin, payload(pBad))
	}
	vrt.Quiesce()
	if goodFirst {
		close(sa.gate)
		vrt.Quiesce()
		close(sa.badGate)
	} else {
		close(sa.badGate)
		vrt.Quiesce()
		close(sa.gate)
	}
	vrt.Quiesce()
	idb := b.NextID()
	b.Send(net.Call, 1, 1, 100, idb, fx.Int32(9))
	vrt.Quiesce()
	if w.Root.Total() > 0 {
		vrt.Failf("service-reached-unauthenticated/two-slow-logins", "method bodies %v ran for connection B, which only ever presented a refused pair, while connection A's accepted login was in flight with the same message id (good verdict first: %v, B first: %v)", w.Root.Order, goodFirst, bFirst)
	}
	for _, r := range b.Replies(idb) {
		if r.Hdr.Type == net.Reply {
			vrt.Failf("reply-from-service-unauthenticated/two-slow-logins", "connection B got a success reply from the service")
		}
	}
	if !b.EOF {
		vrt.Failf("unauthenticated-connection-not-closed/two-slow-logins", "connection B is still open after calling a service without accepted credentials")
	}
	// A presented the accepted pair: once told so it is served
	ida2 := a.NextID()
	a.Send(net.Call, 1, 1, 100, ida2, fx.Int32(4))
	vrt.Quiesce()
	if rs := a.Replies(ida); len(rs) > 0 && rs[0].Hdr.Type == net.Reply {
		vrt.Flag("slow-verdict-accepted")
		if rs := a.Replies(ida2); len(rs) != 1 || rs[0].Hdr.Type != net.Reply {
			vrt.Failf("authenticated-connection-refused/two-slow-logins", "connection A was told it is authenticated but cannot call the service")
		}
	}
	fx.Settle()
	vrt.Observe("goodFirst=%v bFirst=%v ran=%d", goodFirst, bFirst, w.Root.Total())
}

// afterLogin: connection A logs in with the accepted pair; then connection B
// presents every other payload of the alphabet (nothing, one half of the
// pair, forged states, near misses) and calls a service: what A presented
// earns B nothing.
func afterLogin() {
	ak := auths[0] // the dictionary authenticator: exactly ("u","t")
	w := fx.Start(ak.auth)
	a, b := w.RawPeer(), w.RawPeer()
	a.StartDrain()
	b.StartDrain()
	kinds := []int{pEmpty, pNoCreds, pUserOnly, pTokenOnly, pBad, pForgedU, pForgedI, pUserInt, pTokInt, pSpaceU, pSpaceT, pNewline, pGarbage}
	kind := kinds[vrt.ChooseFree(len(kinds), "payload of the second connection")]
	typ := []uint8{net.Call, net.Post, net.Capability}[vrt.ChooseFree(3, "type")]
	vrt.Explore()
	if !a.Authenticate("u", "t") {
		vrt.Failf("good-credentials-refused/"+ak.name, "the accepted pair was refused")
		return
	}
	b.Send(typ, 0, 0, 8, b.NextID(), payload(kind))
	vrt.Quiesce()
	id := b.NextID()
	b.Send(net.Call, 1, 1, 100, id, fx.Int32(9))
	vrt.Quiesce()
	if w.Root.Total() > 0 {
		vrt.Failf("other-connection-authenticated/after-login", "after connection A logged in, connection B presented [%s] (message type %d) and reached the service: %v", payloadNames[kind], typ, w.Root.Order)
	}
	for _, r := range b.Replies(id) {
		if r.Hdr.Type == net.Reply {
			vrt.Failf("reply-from-service-unauthenticated/after-login", "connection B got a success reply after presenting [%s]", payloadNames[kind])
		}
	}
	if !b.EOF {
		vrt.Failf("unauthenticated-connection-not-closed/after-login", "connection B is still open after calling a service having presented only [%s]", payloadNames[kind])
	}
	// A is still served
	ida := a.NextID()
	a.Send(net.Call, 1, 1, 100, ida, fx.Int32(4))
	vrt.Quiesce()
	if rs := a.Replies(ida); len(rs) != 1 || rs[0].Hdr.Type != net.Reply {
		vrt.Failf("authenticated-connection-refused/after-login", "connection A, which is authenticated, cannot call the service any more")
	}
	fx.Settle()
	vrt.Observe("kind=%s typ=%d", payloadNames[kind], typ)
}

// derivedPairs: pairs that are NOT the accepted pair (U, T) but resemble it in
// a way a derived key could confuse: every other split of U+sep+T for common
// separators (a cache keyed by user+sep+token), swapped halves, case variants,
// strict prefixes / extensions, the pair of another account.
func derivedPairs(U, T, U2, T2 string) [][2]string {
	seen := map[[2]string]bool{{U, T}: true, {U2, T2}: true}
	var out [][2]string
	add := func(u, t string) {
		k := [2]string{u, t}
		if !seen[k] {
			seen[k] = true
			out = append(out, k)
		}
	}
	for _, sep := range []string{"", ":", "/", " ", "|", "\x00", ",", ";", "=", "@", "\n", "-", "."} {
		for _, ut := range [][2]string{{U, T}, {U2, T2}} {
			joined := ut[0] + sep + ut[1]
			for i := 0; i+len(sep) <= len(joined); i++ {
				if joined[i:i+len(sep)] == sep {
					add(joined[:i], joined[i+len(sep):])
				}
			}
		}
	}
	add(T, U)
	add(U, T2)
	add(U2, T)
	add(strings.ToUpper(U), T)
	add(U, strings.ToUpper(T))
	add(U[:len(U)-1], T)
	add(U, T[:len(T)-1])
	add(U+"x", T)
	add(U, T+"x")
	add(U, "")
	add("", T)
	return out
}

// derivedAfterLogin: two accounts exist; connection A logs in with the first
// one (and, in half of the cases, a third connection with the second one);
// connection B then presents a pair derived from the accepted ones.
func derivedAfterLogin() {
	const U, T, U2, T2 = "ops:adm", "s3:cr/et", "ops", "adm:s3:cr/et x"
	w := fx.Start(bus.Dictionary(map[string]string{U: T, U2: T2}))
	a, b, c := w.RawPeer(), w.RawPeer(), w.RawPeer()
	a.StartDrain()
	b.StartDrain()
	c.StartDrain()
	pairs := derivedPairs(U, T, U2, T2)
	pr := pairs[vrt.ChooseFree(len(pairs), "derived pair")]
	both := vrt.ChooseFree(2, "second account logged in too") == 1
	vrt.Explore()
	if !a.Authenticate(U, T) {
		vrt.Failf("good-credentials-refused/dictionary", "the accepted pair was refused")
		return
	}
	if both && !c.Authenticate(U2, T2) {
		vrt.Failf("good-credentials-refused/dictionary", "the accepted pair of the second account was refused")
		return
	}
	b.Send(net.Call, 0, 0, 8, b.NextID(), fx.CapPayload(bus.ClientCap(pr[0], pr[1])))
	vrt.Quiesce()
	id := b.NextID()
	b.Send(net.Call, 1, 1, 100, id, fx.Int32(9))
	vrt.Quiesce()
	if w.Root.Total() > 0 {
		vrt.Failf("other-connection-authenticated/derived-pair", "accounts (%q,%q) and (%q,%q) logged in elsewhere; connection B presented (%q,%q), which the authenticator does not accept, and reached the service: %v", U, T, U2, T2, pr[0], pr[1], w.Root.Order)
	}
	for _, r := range b.Replies(id) {
		if r.Hdr.Type == net.Reply {
			vrt.Failf("reply-from-service-unauthenticated/derived-pair", "connection B got a success reply after presenting (%q,%q)", pr[0], pr[1])
		}
	}
	if !b.EOF {
		vrt.Failf("unauthenticated-connection-not-closed/derived-pair", "connection B is still open after calling a service having presented only (%q,%q)", pr[0], pr[1])
	}
	ida := a.NextID()
	a.Send(net.Call, 1, 1, 100, ida, fx.Int32(4))
	vrt.Quiesce()
	if rs := a.Replies(ida); len(rs) != 1 || rs[0].Hdr.Type != net.Reply {
		vrt.Failf("authenticated-connection-refused/derived-pair", "connection A, which is authenticated, cannot call the service any more")
	}
	fx.Settle()
	vrt.Observe("pair=%q both=%v", pr, both)
}

func init() {
	reg.Register(&reg.Scenario{Property: "C06", Name: "derived-credentials-after-a-login", Body: derivedAfterLogin, Quick: 0, Thorough: 1,
		Doc: "two accounts whose names and tokens contain separators; after one or both logged in on other connections, connection B presents a pair derived from the accepted ones (every re-split of user+sep+token over 13 separators, swapped halves, case variants, prefixes, extensions, the token of the other account) and calls a service: refused and closed"})
	reg.Register(&reg.Scenario{Property: "C06", Name: "second-connection-after-a-login", Body: afterLogin, Quick: 0, Thorough: 1,
		Doc: "connection A authenticates with the accepted pair; connection B then presents one of 13 other payloads (nothing, half of the pair, forged states, near misses with blanks) as Call / Post / Capability and calls a service: refused and closed"})
	reg.Register(&reg.Scenario{Property: "C06", Name: "two-slow-logins-same-id", Body: twoSlowLogins, Quick: 1, Thorough: 2,
		Doc: "an accepted and a refused login of two connections in flight at once with the same message id, a slow authenticator for both, verdicts in either order: the refused connection reaches nothing, is refused and closed", MustFlag: []string{"slow-verdict-accepted"}})
	reg.Register(&reg.Scenario{Property: "C06", Name: "slow-authenticator", Body: slowAuthenticator, Quick: 1, Thorough: 2,
		Doc: "the authenticator takes arbitrarily long for connection A's good pair; connection B presents a bad pair before or after A's verdict arrives, then calls a service: B is refused and closed", MustFlag: []string{"slow-verdict-accepted"}})
	reg.Register(&reg.Scenario{Property: "C06", Name: "reject-answer-cannot-be-written", Body: rejectWriteFails, Quick: 1, Thorough: 2,
		Doc: "the unauthenticated peer stopped reading (server writes fail, reads go on) and sends calls / posts to a service: the connection is closed, nothing is delivered"})
	reg.Register(&reg.Scenario{Property: "C06", Name: "sequences-2", Body: sequences(2, false, false), Quick: 0, Thorough: 1,
		Doc: "3 authenticators x all sequences of <=2 frames (reduced alphabet) from an unauthenticated peer, each step to quiescence; then a second unauthenticated connection", MustFlag: []string{"model-authenticated", "service-reached", "third-connection-authenticated"}})
	reg.Register(&reg.Scenario{Property: "C06", Name: "single-full", Body: sequences(1, true, false), Quick: 1, Thorough: 2,
		Doc: "3 authenticators x every single frame of the full alphabet (8 types x 11 targets (incl. the authenticate action id 8 on other services) x payload kinds)"})
	reg.Register(&reg.Scenario{Property: "C06", Name: "single-transport-names", Body: sequences(1, false, false, true), Quick: 1, Thorough: 2,
		Doc: "3 authenticators x 5 textual identities of the remote transport (as the server's stream prints it: in-memory, pipe://pipe like the server's own local clients, pipe://r:w, unix, tcp) x every single frame of the reduced alphabet"})
	reg.Register(&reg.Scenario{Property: "C06", Name: "pipelined-2", Body: sequences(2, false, true), Quick: 0, Thorough: 1,
		Doc: "as sequences-2 but both frames sent back to back (authenticate then call without waiting)", MustFlag: []string{"model-authenticated"}})
	reg.Register(&reg.Scenario{Property: "C06", Name: "sequences-3", Body: sequences(3, false, false), Quick: -1, Thorough: 0,
		Doc: "3 authenticators x all sequences of <=3 frames (reduced alphabet)"})
}
