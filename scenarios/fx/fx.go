// Package fx is the common fixture of the full-stack engine-B scenarios: a
// real stand-alone server hosting the probe service over the in-memory
// network, real clients, raw peers and frame taps.
package fx

import (
	"bytes"
	"fmt"

	"github.com/lugu/qiloop/bus"
	"github.com/lugu/qiloop/bus/net"
	"github.com/lugu/qiloop/type/basic"
	"github.com/lugu/qiloop/type/object"
	"github.com/lugu/qiloop/type/value"

	"verif/rt/vnet"
	"verif/rt/vrt"
	"verif/scenarios/probe"
)

// World is one running server with the probe service.
type World struct {
	Srv       bus.Server
	Service   bus.Service
	ServiceID uint32
	Root      *probe.Impl
	// Actor is the service object itself (for bus.DirectClient: the local
	// proxies the generated constructors hand out go through a second
	// mailbox of the same object).
	Actor bus.Actor
	Host  string
}

// Start launches a stand-alone server with the given authenticator.
func Start(auth bus.Authenticator) *World {
	w := &World{Host: "srv", Root: probe.New("root")}
	l, err := net.Listen("tcp://" + w.Host)
	if err != nil {
		panic(err)
	}
	w.Srv, err = bus.StandAloneServer(l, auth, bus.PrivateNamespace())
	if err != nil {
		panic(err)
	}
	w.Actor = probe.ProbeObject(w.Root)
	w.Service, err = w.Srv.NewService("Probe", w.Actor)
	if err != nil {
		panic(err)
	}
	w.ServiceID = w.Service.ServiceID()
	return w
}

// Frame is one message seen on a tap.
type Frame struct {
	Hdr     net.Header
	Payload []byte
	Step    int
}

// Tap records the frames written by one end of a connection.
type Tap struct {
	Frames []Frame
	rest   []byte
}

func (t *Tap) feed(p []byte) {
	// The tap is part of the oracles: it parses the documented layout itself
	// (28-byte header: big-endian magic 0x42dead42, little-endian id, size,
	// version, type, flags, service, object, action) and copies the payload, so
	// that what it records depends neither on the repository's Message.Read nor
	// on buffers the code under test may reuse.
	t.rest = append(t.rest, p...)
	le32 := func(b []byte) uint32 { return uint32(b[0]) | uint32(b[1])<<8 | uint32(b[2])<<16 | uint32(b[3])<<24 }
	for len(t.rest) >= 28 {
		b := t.rest
		if b[0] != 0x42 || b[1] != 0xde || b[2] != 0xad || b[3] != 0x42 {
			return
		}
		size := int(le32(b[8:12]))
		if size < 0 || len(b) < 28+size {
			return
		}
		var h net.Header
		h.Magic = 0x42dead42
		h.ID = le32(b[4:8])
		h.Size = uint32(size)
		h.Version = uint16(b[12]) | uint16(b[13])<<8
		h.Type = b[14]
		h.Flags = b[15]
		h.Service = le32(b[16:20])
		h.Object = le32(b[20:24])
		h.Action = le32(b[24:28])
		payload := append([]byte{}, b[28:28+size]...)
		t.rest = append([]byte(nil), b[28+size:]...)
		t.Frames = append(t.Frames, Frame{h, payload, vrt.Step()})
	}
}

// Conn is one client connection to the world.
type Conn struct {
	Raw    *vnet.MemConn
	EP     net.EndPoint
	Client bus.Client
	Out    *Tap // frames sent by the client
	In     *Tap // frames sent by the server on this connection
	W      *World
}

func tapped(w *World) (*vnet.MemConn, *Tap, *Tap) {
	raw, err := vnet.DialMem("tcp", w.Host)
	if err != nil {
		panic(err)
	}
	out, in := &Tap{}, &Tap{}
	raw.Tap = out.feed
	raw.Peer().Tap = in.feed
	return raw, out, in
}

// Connect dials the server and authenticates with the library's own client
// code.
func (w *World) Connect(user, token string) (*Conn, error) {
	raw, out, in := tapped(w)
	c := &Conn{Raw: raw, Out: out, In: in, W: w}
	c.EP = net.NewEndPoint(raw)
	caps := bus.ClientCap(user, token)
	ch := bus.NewChannel(c.EP, caps)
	if err := ch.Authenticate(); err != nil {
		return c, err
	}
	c.Client = bus.NewClient(ch)
	return c, nil
}

// MustConnect connects or panics.
func (w *World) MustConnect() *Conn {
	c, err := w.Connect("", "")
	if err != nil {
		panic(fmt.Sprintf("connect: %v", err))
	}
	return c
}

// session lets generated proxies resolve object references on the same
// connection.
type session struct{ c *Conn }

func (s session) Proxy(name string, objectID uint32) (bus.Proxy, error) {
	if name != "Probe" {
		return nil, fmt.Errorf("unknown service %s", name)
	}
	return s.c.proxy(objectID)
}

func (s session) Object(ref object.ObjectReference) (bus.Proxy, error) {
	return bus.NewProxy(s.c.Client, ref.MetaObject, ref.ServiceID, ref.ObjectID), nil
}

func (s session) Terminate() error { return nil }

// Session returns a bus.Session that resolves proxies and object references
// on this connection.
func (c *Conn) Session() bus.Session { return session{c} }

func (c *Conn) proxy(objectID uint32) (bus.Proxy, error) {
	meta, err := bus.GetMetaObject(c.Client, c.W.ServiceID, objectID)
	if err != nil {
		return nil, err
	}
	return bus.NewProxy(c.Client, meta, c.W.ServiceID, objectID), nil
}

// Probe returns a new generated proxy to object objectID of the probe service
// (every call creates a distinct proxy on the same connection).
func (c *Conn) Probe(objectID uint32) probe.ProbeProxy {
	p, err := c.proxy(objectID)
	if err != nil {
		panic(fmt.Sprintf("proxy: %v", err))
	}
	return probe.MakeProbe(session{c}, p)
}

// Raw peers -----------------------------------------------------------------

// Peer is a harness-owned connection speaking raw frames.
type Peer struct {
	Raw *vnet.MemConn
	Out *Tap
	In  *Tap
	W   *World
	// Got collects the frames read by Drain.
	Got    []Frame
	EOF    bool
	nextID uint32
	// Gate, when set, holds the draining thread back before each further
	// frame until it is closed (a peer that stops reading for a while).
	Gate chan struct{}
}

// RawPeer dials the server without authenticating.
func (w *World) RawPeer() *Peer {
	raw, out, in := tapped(w)
	return &Peer{Raw: raw, Out: out, In: in, W: w, nextID: 1000}
}

// Send writes one frame.
func (p *Peer) Send(typ uint8, service, object, action, id uint32, payload []byte) error {
	m := net.NewMessage(net.NewHeader(typ, service, object, action, id), payload)
	return m.Write(p.Raw)
}

// SendRaw writes arbitrary bytes.
func (p *Peer) SendRaw(b []byte) error {
	_, err := p.Raw.Write(b)
	return err
}

// NextID returns a fresh message id.
func (p *Peer) NextID() uint32 { p.nextID += 2; return p.nextID }

// StartDrain reads every frame the server sends on this connection.
func (p *Peer) StartDrain() {
	vrt.GoNamed("peer-drain", func() {
		for {
			if g := p.Gate; g != nil {
				<-g
			}
			var m net.Message
			if err := m.Read(p.Raw); err != nil {
				p.EOF = true
				return
			}
			p.Got = append(p.Got, Frame{m.Header, m.Payload, vrt.Step()})
		}
	})
}

// CapPayload encodes a capability map.
func CapPayload(m bus.CapabilityMap) []byte {
	var b bytes.Buffer
	bus.WriteCapabilityMap(m, &b)
	return b.Bytes()
}

// Authenticate performs the authenticate call by hand and waits (by
// quiescence) for the answer. Requires StartDrain.
func (p *Peer) Authenticate(user, token string) bool {
	id := p.NextID()
	p.Send(net.Call, 0, 0, object.AuthenticateActionID, id, CapPayload(bus.ClientCap(user, token)))
	vrt.Quiesce()
	for _, f := range p.Got {
		if f.Hdr.ID == id && f.Hdr.Type == net.Reply {
			m, err := bus.ReadCapabilityMap(bytes.NewReader(f.Payload))
			if err != nil {
				return false
			}
			return m.Authenticated()
		}
	}
	return false
}

// Replies returns the Reply/Error frames received for message id.
func (p *Peer) Replies(id uint32) []Frame {
	var out []Frame
	for _, f := range p.Got {
		if f.Hdr.ID == id && (f.Hdr.Type == net.Reply || f.Hdr.Type == net.Error) {
			out = append(out, f)
		}
	}
	return out
}

// Helpers -------------------------------------------------------------------

// Int32 encodes an int32 argument.
func Int32(v int32) []byte {
	var b bytes.Buffer
	basic.WriteInt32(v, &b)
	return b.Bytes()
}

// ReadInt32 decodes an int32 result.
func ReadInt32(p []byte) (int32, error) {
	return basic.ReadInt32(bytes.NewReader(p))
}

// ErrorText extracts the message of an Error frame.
func ErrorText(p []byte) string {
	v, err := value.NewValue(bytes.NewReader(p))
	if err != nil {
		return "unreadable error payload"
	}
	if s, ok := v.(value.StringValue); ok {
		return s.Value()
	}
	return "non-string error payload"
}

// Settle checks the universal end-of-scenario conditions.
func Settle(workers ...*vrt.Thread) {
	for _, w := range workers {
		if !w.Done() {
			vrt.Failf("hang/"+w.Name, "worker %s still blocked on %s at quiescence", w.Name, w.BlockedOn())
		}
	}
	for _, lw := range vrt.LockWaiters() {
		vrt.Failf("deadlock/"+lw.Kind, "thread %s blocked on %s at quiescence", lw.Thread, lw.Label)
	}
}

// LogTaps writes the frames of both directions to the trace (replay mode).
func (c *Conn) LogTaps(name string) {
	for _, f := range c.Out.Frames {
		vrt.Logf("tap %s out step=%d %v payload=%x", name, f.Step, f.Hdr, f.Payload)
	}
	for _, f := range c.In.Frames {
		vrt.Logf("tap %s in  step=%d %v payload=%x", name, f.Step, f.Hdr, f.Payload)
	}
}

// Backlog is a scenario shared by C04, C12 and C16: an object is kept busy in
// a gated slow() call while one connection pipelines a terminate() of that
// object followed by more calls than its mailbox holds, and a second
// connection adds one more call; then the gate opens. Every call must get
// exactly one answer, the object must be terminated exactly once, the other
// objects must keep answering and nothing may dead lock.
func Backlog(nCalls int) func() {
	return func() {
		w := Start(bus.Yes{})
		c := w.MustConnect()
		root := c.Probe(1)
		pa, err := root.Spawn()
		pb, err2 := root.Spawn()
		if err != nil || err2 != nil {
			vrt.Failf("harness/spawn", "%v %v", err, err2)
			return
		}
		a, b := w.Root.Children[0], w.Root.Children[1]
		aID := pa.Proxy().ObjectID()
		a.Gate = make(chan struct{})
		vrt.GoNamed("slow-caller", func() { pa.Slow(1) })
		vrt.Quiesce()
		h := w.RawPeer()
		h.StartDrain()
		if !h.Authenticate("", "") {
			vrt.Failf("harness/auth", "raw peer could not authenticate")
			return
		}
		h2 := w.RawPeer()
		h2.StartDrain()
		h2.Authenticate("", "")
		vrt.Explore()
		var ids []uint32
		termID := h.NextID()
		var tp bytes.Buffer
		basic.WriteUint32(aID, &tp)
		h.Send(net.Call, w.ServiceID, aID, 3, termID, tp.Bytes())
		for i := 0; i < nCalls; i++ {
			id := h.NextID()
			ids = append(ids, id)
			h.Send(net.Call, w.ServiceID, aID, 100, id, Int32(int32(i)))
		}
		id2 := h2.NextID()
		h2.Send(net.Call, w.ServiceID, aID, 100, id2, Int32(77))
		vrt.Quiesce()
		rel := vrt.GoWorker("releaser", func() { close(a.Gate) })
		vrt.Quiesce()
		Settle(rel)
		unanswered, twice := 0, 0
		for _, id := range append(ids, termID) {
			switch n := len(h.Replies(id)); {
			case n == 0:
				unanswered++
			case n > 1:
				twice++
			}
		}
		if n := len(h2.Replies(id2)); n != 1 {
			vrt.Failf("backlog/call-answer-count/second-connection", "the call of the second connection queued behind a full mailbox got %d answers", n)
		}
		if unanswered > 0 {
			vrt.Failf("backlog/call-never-answered", "%d of %d pipelined requests to a busy object were never answered", unanswered, nCalls+1)
		}
		if twice > 0 {
			vrt.Failf("backlog/call-answered-twice", "%d requests were answered more than once", twice)
		}
		if a.Terminated != 1 {
			vrt.Failf("backlog/terminate-hook-count", "terminate() queued behind a backlog: termination hook ran %d times", a.Terminated)
		}
		for k, n := range a.Calls {
			if n > 1 {
				vrt.Failf("backlog/executed-twice", "%s ran %d times", k, n)
			}
		}
		if v, err := pb.Echo(5); err != nil || v != probe.EchoResult(5) {
			vrt.Failf("backlog/other-object-affected", "another object of the service stopped answering: %v", err)
		}
		if v, err := root.Echo(6); err != nil || v != probe.EchoResult(6) {
			vrt.Failf("backlog/other-object-affected", "the service object stopped answering: %v", err)
		}
		if b.Terminated != 0 {
			vrt.Failf("backlog/other-object-terminated", "another object was terminated")
		}
		Settle()
		vrt.Observe("answered=%d/%d terminated=%d", nCalls+1-unanswered, nCalls+1, a.Terminated)
	}
}
