// Package all links every scenario package into the runner.
package all

import (
	_ "verif/scenarios/c17"
)
