// Package all links every scenario package into the runner.
package all

import (
	_ "verif/scenarios/c04"
	_ "verif/scenarios/c06"
	_ "verif/scenarios/c10"
	_ "verif/scenarios/c11"
	_ "verif/scenarios/c12"
	_ "verif/scenarios/c13"
	_ "verif/scenarios/c14"
	_ "verif/scenarios/c15"
	_ "verif/scenarios/c16"
	_ "verif/scenarios/c17"
	_ "verif/scenarios/c19"
)
