// Package c16 holds the engine-B scenarios of property C16: removed objects
// are unreachable and terminated exactly once.
package c16

import (
	"fmt"

	"github.com/lugu/qiloop/bus"

	"verif/rt/vrt"
	"verif/scenarios/fx"
	"verif/scenarios/probe"
	"verif/scenarios/reg"
)

// obj is the reference model of one object of the service.
type obj struct {
	impl    *probe.Impl
	proxy   probe.ProbeProxy
	id      uint32
	removed bool
	// subFailed: a subscription attempt on this (removed) object already
	// failed; the client-side proxy keeps a stale local count afterwards, so
	// further attempts do not send any message and are not judged here
	subFailed bool
	calls     int
	subs      []*sub
}

type sub struct {
	closed bool
	got    []int32
}

type world struct {
	w    *fx.World
	c    *fx.Conn
	c2   *fx.Conn // a second connection (another client of the same objects)
	root probe.ProbeProxy
	objs []*obj
	log  string
}

func (x *world) add() {
	before := len(x.w.Root.Children)
	p, err := x.root.Spawn()
	if err != nil {
		vrt.Failf("add-failed", "spawn() failed after [%s]: %v", x.log, err)
		return
	}
	// find the implementation behind the returned reference (additions may
	// run concurrently)
	var impl *probe.Impl
	for i, cp := range x.w.Root.ChildProxy {
		if i >= before && cp.Proxy().ObjectID() == p.Proxy().ObjectID() {
			impl = x.w.Root.Children[i]
		}
	}
	if impl == nil {
		vrt.Failf("add-unknown-object", "spawn() returned a reference to object %d, which the service did not create", p.Proxy().ObjectID())
		return
	}
	o := &obj{impl: impl, proxy: p, id: p.Proxy().ObjectID()}
	for _, other := range x.objs {
		if !other.removed && other.id == o.id {
			vrt.Failf("id-collision", "a new object received identifier %d, which a live object already holds (after [%s])", o.id, x.log)
		}
	}
	if o.id == 1 {
		vrt.Failf("id-collision", "a new object received the identifier of the service object")
	}
	x.objs = append(x.objs, o)
}

// target resolves an operation on a removed object: identifiers are unique
// among LIVE objects only, so a later object may have been given the
// identifier of a removed one (random identifiers: an explored choice); a
// message carrying that identifier then legitimately concerns the new object.
func (x *world) target(o *obj) *obj {
	if !o.removed {
		return o
	}
	for _, other := range x.objs {
		if !other.removed && other.id == o.id {
			vrt.Flag("identifier-of-a-removed-object-reused")
			return other
		}
	}
	return o
}

func (x *world) call(o *obj, arg int32) {
	sender := o
	o = x.target(o)
	before := o.impl.Total()
	v, err := sender.proxy.Echo(arg)
	switch {
	case o.removed && err == nil:
		vrt.Failf("removed-object-answers", "echo on a removed object succeeded (returned %d) after [%s]", v, x.log)
	case o.removed && o.impl.Total() != before:
		vrt.Failf("removed-object-invoked", "a call to a removed object was answered with an error but ran the method, after [%s]", x.log)
	case !o.removed && err != nil:
		vrt.Failf("live-object-refuses", "echo on a live object failed after [%s]: %v", x.log, err)
	case !o.removed && v != probe.EchoResult(arg):
		vrt.Failf("wrong-result", "echo(%d) returned %d", arg, v)
	}
}

// call2: the same call through a second connection.
func (x *world) call2(o *obj, arg int32) {
	if x.c2 == nil {
		x.c2 = x.w.MustConnect()
	}
	o = x.target(o)
	before := o.impl.Total()
	// a plain call (action 100 = echo): building a proxy would ask the
	// object for its meta-object first
	var v int32
	res, err := x.c2.Client.Call(nil, x.w.ServiceID, o.id, 100, fx.Int32(arg))
	if err == nil {
		v, err = fx.ReadInt32(res)
	}
	switch {
	case o.removed && err == nil:
		vrt.Failf("removed-object-answers", "echo through a second connection on a removed object succeeded (returned %d) after [%s]", v, x.log)
	case o.removed && o.impl.Total() != before:
		vrt.Failf("removed-object-invoked", "a call to a removed object through a second connection was answered with an error but ran the method, after [%s]", x.log)
	case !o.removed && err != nil:
		vrt.Failf("live-object-refuses", "echo through a second connection on a live object failed after [%s]: %v", x.log, err)
	case !o.removed && v != probe.EchoResult(arg):
		vrt.Failf("wrong-result", "echo(%d) through a second connection returned %d", arg, v)
	}
}

func (x *world) subscribe(o *obj) {
	sender := o
	o = x.target(o)
	if sender != o {
		// the stale proxy of the removed object keeps its own local
		// subscription count: not judged
		return
	}
	if o.subFailed || (o.removed && len(o.subs) > 0) {
		// the proxy holds a local subscription count from an earlier
		// attempt: no message would be sent to the removed object
		return
	}
	_, ch, err := o.proxy.SubscribeTick()
	if o.removed {
		o.subFailed = true
		if err == nil {
			vrt.Failf("removed-object-subscribable", "subscribing to a removed object succeeded after [%s]", x.log)
		}
		return
	}
	if err != nil {
		vrt.Failf("live-object-refuses", "subscribe on a live object failed after [%s]: %v", x.log, err)
		return
	}
	s := &sub{}
	o.subs = append(o.subs, s)
	vrt.GoNamed("sub-drain", func() {
		for v := range ch {
			s.got = append(s.got, v)
		}
		s.closed = true
	})
}

func (x *world) remove(o *obj) {
	o = x.target(o)
	err := x.w.Service.Remove(o.id)
	if o.removed && err == nil {
		vrt.Failf("double-remove-accepted", "removing an already removed object succeeded after [%s]", x.log)
	}
	if !o.removed && err != nil {
		vrt.Failf("remove-failed", "removing a live object failed after [%s]: %v", x.log, err)
	}
	if err == nil {
		o.removed = true
	}
}

func (x *world) terminate(o *obj) {
	sender := o
	o = x.target(o)
	err := sender.proxy.Terminate(o.id)
	if !o.removed && err != nil {
		vrt.Failf("terminate-failed", "terminate() of a live object failed after [%s]: %v", x.log, err)
	}
	if o.removed && err == nil {
		vrt.Failf("removed-object-answers", "terminate() on a removed object succeeded after [%s]", x.log)
	}
	if err == nil {
		o.removed = true
	}
}

// check evaluates the invariants of every object.
func (x *world) check() {
	for i, o := range x.objs {
		want := 0
		if o.removed {
			want = 1
		}
		if o.impl.Terminated != want {
			vrt.Failf(fmt.Sprintf("terminate-hook-count/%d", o.impl.Terminated), "object %d: termination hook ran %d times, expected %d, after [%s]", i, o.impl.Terminated, want, x.log)
		}
		for _, s := range o.subs {
			if o.removed && !s.closed {
				vrt.Failf("subscriber-not-told", "object %d was removed but its subscriber's channel is still open after [%s]", i, x.log)
			}
			if !o.removed && s.closed {
				vrt.Failf("subscriber-dropped", "object %d is live but its subscriber's channel was closed after [%s]", i, x.log)
			}
		}
	}
	if x.w.Root.Terminated != 0 {
		vrt.Failf("other-object-terminated", "the service object was terminated after [%s]", x.log)
	}
}

func start() *world {
	w := fx.Start(bus.Yes{})
	c := w.MustConnect()
	return &world{w: w, c: c, root: c.Probe(1)}
}

var opNames = []string{"add", "remove", "terminate", "call", "subscribe", "call2"}

var modeNames = []string{"plain", "statistics", "tracing"}

// histories: all operation sequences of length <= n over two pre-created
// objects and the objects added on the way; every step runs to quiescence.
func histories(n int) func() {
	return func() {
		x := start()
		x.add()
		x.add()
		if len(x.objs) != 2 {
			return
		}
		// the optional statistics / tracing of an object wrap the channel of
		// every incoming message: the two pre-created objects run in one of
		// the three modes
		mode := vrt.ChooseFree(len(modeNames), "object-mode")
		for _, o := range x.objs {
			var err error
			switch mode {
			case 1:
				err = o.proxy.EnableStats(true)
			case 2:
				err = o.proxy.EnableTrace(true)
			}
			if err != nil {
				vrt.Failf("harness/mode", "%s: %v", modeNames[mode], err)
				return
			}
		}
		x.log = modeNames[mode] + ":"
		type step struct{ op, target int }
		var steps []step
		for i := 0; i < n; i++ {
			op := vrt.ChooseFree(len(opNames)+1, "op")
			if op == len(opNames) {
				break
			}
			t := 0
			if opNames[op] != "add" {
				t = vrt.ChooseFree(2, "target")
			}
			steps = append(steps, step{op, t})
		}
		vrt.Explore()
		for _, st := range steps {
			o := x.objs[st.target]
			name := opNames[st.op]
			x.log += fmt.Sprintf("%s(%d);", name, st.target)
			switch name {
			case "add":
				x.add()
			case "remove":
				x.remove(o)
			case "terminate":
				x.terminate(o)
			case "call":
				x.call(o, int32(10+len(x.log)))
			case "subscribe":
				x.subscribe(o)
			case "call2":
				x.call2(o, int32(40+len(x.log)))
			}
			vrt.Quiesce()
			x.check()
		}
		// every object answers according to the model; the service object too
		for i, o := range x.objs {
			x.log += fmt.Sprintf("final-call(%d);", i)
			x.call(o, int32(100+i))
		}
		if v, err := x.root.Echo(7); err != nil || v != probe.EchoResult(7) {
			vrt.Failf("other-object-affected", "the service object no longer answers after [%s]: %v", x.log, err)
		}
		vrt.Quiesce()
		x.check()
		fx.Settle()
		vrt.Observe("%s", x.log)
	}
}

// pair: two operations on the same object (or two adds) run concurrently.
func pair(kind string, fine bool) func() {
	return func() {
		x := start()
		x.add()
		x.add()
		if len(x.objs) != 2 {
			return
		}
		a, b := x.objs[0], x.objs[1]
		x.subscribe(a)
		vrt.Quiesce()
		c2 := x.w.MustConnect()
		pa2 := c2.Probe(a.id)
		// whether the last message the service routed before the race went to the
		// object under test or to another one (a routing cache is in either state)
		if vrt.ChooseFree(2, "the last message before the race went to the other object") == 1 {
			if _, err := b.proxy.Echo(1); err != nil {
				vrt.Failf("harness/echo", "%v", err)
			}
			vrt.Quiesce()
		}
		vrt.Explore()
		vrt.SetFine(fine)
		var ws []*vrt.Thread
		var e1, e2 error
		var v1 int32
		before := a.impl.Total()
		switch kind {
		case "call-remove":
			ws = append(ws, vrt.GoWorker("caller", func() { v1, e1 = pa2.Echo(31) }))
			ws = append(ws, vrt.GoWorker("remover", func() { e2 = x.w.Service.Remove(a.id) }))
		case "remove-remove":
			ws = append(ws, vrt.GoWorker("remover1", func() { e1 = x.w.Service.Remove(a.id) }))
			ws = append(ws, vrt.GoWorker("remover2", func() { e2 = x.w.Service.Remove(a.id) }))
		case "terminate-remove":
			ws = append(ws, vrt.GoWorker("terminator", func() { e1 = pa2.Terminate(a.id) }))
			ws = append(ws, vrt.GoWorker("remover", func() { e2 = x.w.Service.Remove(a.id) }))
		case "terminate-call-other":
			ws = append(ws, vrt.GoWorker("terminator", func() { e1 = pa2.Terminate(a.id) }))
			ws = append(ws, vrt.GoWorker("caller", func() { v1, e2 = b.proxy.Echo(32) }))
		case "remove-subscribe2":
			// a second established subscriber, then two newcomers race the removal
			s1 := &sub{}
			a.subs = append(a.subs, s1)
			if _, ch, err := pa2.SubscribeTick(); err == nil {
				vrt.GoNamed("sub-drain-1", func() {
					for range ch {
					}
					s1.closed = true
				})
			} else {
				vrt.Failf("harness/subscribe", "%v", err)
			}
			// the newcomers' connections and proxies (the meta-object is
			// fetched from the object itself, so before it gets busy)
			var newcomers []probe.ProbeProxy
			for i := 0; i < 2; i++ {
				newcomers = append(newcomers, x.w.MustConnect().Probe(a.id))
			}
			// the object is busy in slow(): requests queue up in its mailbox
			a.impl.Gate = make(chan struct{})
			vrt.GoNamed("slow-caller", func() { a.proxy.Slow(1) })
			vrt.Quiesce()
			for i := 0; i < 2; i++ {
				pi := newcomers[i]
				ns := &sub{}
				vrt.GoNamed(fmt.Sprintf("newcomer%d", i), func() {
					_, ch, err := pi.SubscribeTick()
					if err != nil {
						ns.closed = true
						return
					}
					// a request already queued when the object was removed
					// may still be accepted afterwards: the statement does
					// not say what happens to it, so the newcomers are not
					// part of the "remaining subscribers are told" check
					for range ch {
					}
					ns.closed = true
				})
			}
			vrt.Quiesce() // both registerEvent requests are queued behind slow()
			vrt.Explore()
			ws = append(ws, vrt.GoWorker("remover", func() { e2 = x.w.Service.Remove(a.id) }))
			ws = append(ws, vrt.GoWorker("releaser", func() { close(a.impl.Gate) }))
		case "add-add":
			ws = append(ws, vrt.GoWorker("adder1", func() { x.add() }))
			ws = append(ws, vrt.GoWorker("adder2", func() {
				p, err := c2.Probe(1).Spawn()
				if err != nil {
					e2 = err
					return
				}
				for _, o := range x.objs {
					if o.id == p.Proxy().ObjectID() && !o.removed {
						vrt.Failf("id-collision", "two concurrent additions received the same identifier %d", o.id)
					}
				}
			}))
		}
		vrt.Quiesce()
		fx.Settle(ws...)
		x.log = kind
		switch kind {
		case "call-remove":
			if e2 != nil {
				vrt.Failf("remove-failed", "Remove failed: %v", e2)
			}
			a.removed = true
			if e1 == nil && v1 != probe.EchoResult(31) {
				vrt.Failf("wrong-result", "echo(31) returned %d", v1)
			}
			if e1 != nil && a.impl.Total() != before {
				vrt.Failf("failed-call-invoked", "the call racing the removal failed (%v) but ran the method", e1)
			}
			if e1 == nil {
				vrt.Flag("call-won")
			} else {
				vrt.Flag("remove-won")
			}
		case "remove-remove":
			if (e1 == nil) == (e2 == nil) {
				vrt.Failf("double-remove-result", "two racing removals returned %v and %v", e1, e2)
			}
			a.removed = true
		case "terminate-remove":
			if e2 != nil {
				vrt.Flag("terminate-won")
			}
			a.removed = true
		case "terminate-call-other":
			if e1 != nil {
				vrt.Failf("terminate-failed", "terminate failed: %v", e1)
			}
			if e2 != nil || v1 != probe.EchoResult(32) {
				vrt.Failf("other-object-affected", "a call to another object failed while an object terminated: %v", e2)
			}
			a.removed = true
		case "remove-subscribe2":
			if e2 != nil {
				vrt.Failf("remove-failed", "Remove failed: %v", e2)
			}
			a.removed = true
		case "add-add":
			if e2 != nil {
				vrt.Failf("add-failed", "concurrent spawn failed: %v", e2)
			}
		}
		x.check()
		// afterwards the removed object is unreachable, the others answer
		for i, o := range x.objs {
			x.log += fmt.Sprintf(";final-call(%d)", i)
			x.call(o, int32(100+i))
		}
		vrt.Quiesce()
		x.check()
		fx.Settle()
		vrt.Observe("%s e1=%v e2=%v", kind, e1 != nil, e2 != nil)
	}
}

func init() {
	reg.Register(&reg.Scenario{Property: "C16", Name: "backlog-behind-busy-object", Body: fx.Backlog(12), Quick: 1, Thorough: 2,
		Doc: "an object busy in a gated call; one connection pipelines terminate() + 12 calls (more than its mailbox holds), a second connection one more; then the gate opens"})
	reg.Register(&reg.Scenario{Property: "C16", Name: "histories-3", Body: histories(3), Quick: 0, Thorough: 1,
		Doc: "all sequences of <=3 operations {add, remove(i), terminate(i), call(i), subscribe(i)} over two objects, each step to quiescence, against the reference model"})
	reg.Register(&reg.Scenario{Property: "C16", Name: "histories-4", Body: histories(4), Quick: -1, Thorough: 0,
		Doc: "all sequences of <=4 operations"})
	for _, k := range []string{"call-remove", "remove-remove", "terminate-remove", "terminate-call-other", "add-add"} {
		q := 2
		if k == "add-add" {
			q = 1
		}
		reg.Register(&reg.Scenario{Property: "C16", Name: "pair-" + k, Body: pair(k, false), Quick: q, Thorough: 3,
			Doc: "two concurrent operations: " + k})
	}
	reg.Register(&reg.Scenario{Property: "C16", Name: "remove-vs-two-new-subscribers", Body: pair("remove-subscribe2", false), Quick: 1, Thorough: 3,
		Doc: "an object with two subscribers is removed while two more clients subscribe to it"})
	reg.Register(&reg.Scenario{Property: "C16", Name: "pair-remove-remove-statement-level", Body: pair("remove-remove", true), Quick: 2, Thorough: 3,
		Doc: "two concurrent Remove of one object with bus/service.go interleaved at statement level"})
	reg.Register(&reg.Scenario{Property: "C16", Name: "pair-call-remove-statement-level", Body: pair("call-remove", true), Quick: 2, Thorough: 3,
		Doc: "call || Remove of the same object with bus/service.go interleaved at statement level"})
}
