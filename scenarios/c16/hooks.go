package c16

import (
	"fmt"

	"github.com/lugu/qiloop/bus"
	"github.com/lugu/qiloop/bus/net"
	"github.com/lugu/qiloop/type/object"

	"verif/rt/vnet"
	"verif/rt/vrt"
	"verif/scenarios/fx"
	"verif/scenarios/probe"
	"verif/scenarios/reg"
)

// hookCascade: the termination hook of object a removes object b (a parent
// taking its child along). Both are removed, each hook runs once, the
// removal returns and the service keeps answering.
func hookCascade() {
	x := start()
	x.add()
	x.add()
	if len(x.objs) != 2 {
		return
	}
	a, b := x.objs[0], x.objs[1]
	x.subscribe(b)
	vrt.Quiesce()
	var cascadeErr error
	a.impl.OnTerm = func() { cascadeErr = x.w.Service.Remove(b.id) }
	remote := vrt.ChooseFree(2, "remote-terminate") == 1
	vrt.Explore()
	var err error
	w := vrt.GoWorker("remover", func() {
		if remote {
			err = a.proxy.Terminate(a.id)
		} else {
			err = x.w.Service.Remove(a.id)
		}
	})
	vrt.Quiesce()
	x.log = fmt.Sprintf("cascade(remote=%v)", remote)
	if !w.Done() {
		vrt.Failf("hook-reentrance-deadlock", "removing an object whose termination hook removes another object never returned (blocked on %s)", w.BlockedOn())
		return
	}
	if err != nil {
		vrt.Failf("remove-failed", "removing a live object failed: %v", err)
	}
	if cascadeErr != nil {
		vrt.Failf("remove-failed", "Remove of the child from the parent's hook failed: %v", cascadeErr)
	}
	a.removed, b.removed = true, true
	x.check()
	for i, o := range x.objs {
		x.log += fmt.Sprintf(";final-call(%d)", i)
		x.call(o, int32(100+i))
	}
	if v, err := x.root.Echo(7); err != nil || v != probe.EchoResult(7) {
		vrt.Failf("other-object-affected", "the service object no longer answers after [%s]: %v", x.log, err)
	}
	vrt.Quiesce()
	x.check()
	fx.Settle(w)
	vrt.Observe("remote=%v", remote)
}

// hookSlow: the termination hook of a is slow (it waits for the harness):
// meanwhile the other objects of the service answer, and a itself is
// already unreachable.
func hookSlow() {
	x := start()
	x.add()
	x.add()
	if len(x.objs) != 2 {
		return
	}
	a, b := x.objs[0], x.objs[1]
	c2 := x.w.MustConnect()
	pa2 := c2.Probe(a.id)
	gate := make(chan struct{})
	inHook := false
	a.impl.OnTerm = func() {
		inHook = true
		<-gate
	}
	vrt.Explore()
	var err error
	w := vrt.GoWorker("remover", func() { err = x.w.Service.Remove(a.id) })
	vrt.Quiesce()
	x.log = "slow-hook"
	if !inHook {
		vrt.Failf("harness/hook-not-reached", "the termination hook did not start")
	}
	// while the hook is running: b and the service object answer, a does not
	var vb, vr int32
	var eb, er, ea error
	before := a.impl.Total()
	wb := vrt.GoWorker("call-b", func() { vb, eb = b.proxy.Echo(5) })
	wr := vrt.GoWorker("call-root", func() { vr, er = x.root.Echo(6) })
	wa := vrt.GoWorker("call-a", func() { _, ea = pa2.Echo(7) })
	vrt.Quiesce()
	if !wb.Done() || !wr.Done() {
		vrt.Failf("other-object-affected", "calls to the other objects of the service are not answered while the termination hook of a removed object runs (b done=%v, service object done=%v)", wb.Done(), wr.Done())
	} else if eb != nil || er != nil || vb != probe.EchoResult(5) || vr != probe.EchoResult(6) {
		vrt.Failf("other-object-affected", "calls to the other objects failed while a termination hook runs: %v / %v", eb, er)
	}
	if !wa.Done() {
		vrt.Failf("removed-object-unanswered", "a call to the removed object gets no answer while its termination hook runs")
	} else if ea == nil {
		vrt.Failf("removed-object-answers", "echo on the removed object succeeded while its termination hook runs")
	} else if a.impl.Total() != before {
		vrt.Failf("removed-object-invoked", "a call to the removed object ran the method")
	}
	close(gate)
	vrt.Quiesce()
	if err != nil {
		vrt.Failf("remove-failed", "removing a live object failed: %v", err)
	}
	a.removed = true
	x.check()
	fx.Settle(w, wb, wr, wa)
	vrt.Observe("done")
}

// ---------------------------------------------------------------------
// client-side objects (bus/service_reference.go)

type noSession struct{}

func (noSession) Proxy(name string, objectID uint32) (bus.Proxy, error) {
	return nil, fmt.Errorf("no session")
}
func (noSession) Object(ref object.ObjectReference) (bus.Proxy, error) {
	return nil, fmt.Errorf("no session")
}
func (noSession) Terminate() error { return nil }

type clientWorld struct {
	svc    bus.Service
	remote bus.Client
	meta   object.MetaObject
}

func startClientObjects() *clientWorld {
	host, peer := net.Pipe()
	w := &clientWorld{
		svc:    bus.NewServiceReference(noSession{}, host, 7),
		remote: bus.NewClient(bus.NewContext(peer)),
	}
	w.meta = object.FullMetaObject(probe.ProbeMeta())
	return w
}

func (w *clientWorld) proxy(id uint32) probe.ProbeProxy {
	return probe.MakeProbe(noSession{}, bus.NewProxy(w.remote, w.meta, 7, id))
}

// callOK calls echo on a client-side object through the remote end.
func (w *clientWorld) callOK(what string, id uint32, impl *probe.Impl, arg int32) {
	before := impl.Calls[fmt.Sprintf("echo(%d)", arg)]
	v, err := w.proxy(id).Echo(arg)
	if err != nil || v != probe.EchoResult(arg) {
		vrt.Failf("live-object-refuses/client-side", "%s: echo(%d) on client-side object %d returned %d, %v", what, arg, id, v, err)
		return
	}
	if impl.Calls[fmt.Sprintf("echo(%d)", arg)] != before+1 {
		vrt.Failf("wrong-object-invoked/client-side", "%s: echo(%d) addressed to object %d ran %d times on its implementation", what, arg, id, impl.Calls[fmt.Sprintf("echo(%d)", arg)]-before)
	}
}

// activationWindow: Service.Add releases the service lock while the new
// object's Activate runs. Whatever completes inside that window - a child
// added by the Activate itself, the removal of another object, the addition
// of another object - must still hold once the activation is over.
func activationWindow() {
	x := start()
	x.add()
	x.add()
	if len(x.objs) != 2 {
		return
	}
	kind := vrt.ChooseFree(3, "what happens during the activation")
	kinds := []string{"activate-adds-a-child", "another-object-removed-meanwhile", "another-object-added-meanwhile"}
	x.log = kinds[kind] + ";"
	vrt.Explore()
	p, child, other := probe.New("P"), probe.New("P.child"), probe.New("R")
	started, gate := make(chan struct{}), make(chan struct{})
	var pid, childID, otherID uint32
	var perr, childErr, otherErr error
	p.OnAct = func(a bus.Activation) {
		switch kind {
		case 0:
			childID, childErr = a.Service.Add(probe.ProbeObject(child))
		default:
			close(started)
			<-gate
		}
	}
	ws := []*vrt.Thread{vrt.GoWorker("adder", func() { pid, perr = x.w.Service.Add(probe.ProbeObject(p)) })}
	if kind != 0 {
		ws = append(ws, vrt.GoWorker("meanwhile", func() {
			<-started
			if kind == 1 {
				x.remove(x.objs[0])
			} else {
				otherID, otherErr = x.w.Service.Add(probe.ProbeObject(other))
			}
			close(gate)
		}))
	}
	vrt.Quiesce()
	fx.Settle(ws...)
	vrt.Freeze()
	echo := func(what string, id uint32, impl *probe.Impl, arg int32) {
		before := impl.Total()
		res, err := x.c.Client.Call(nil, x.w.ServiceID, id, 100, fx.Int32(arg))
		v := int32(0)
		if err == nil {
			v, err = fx.ReadInt32(res)
		}
		if err != nil || v != probe.EchoResult(arg) {
			vrt.Failf("live-object-refuses/"+what, "%s (object %d), added %s, does not answer echo(%d): %v (result %d)", what, id, kinds[kind], arg, err, v)
		} else if impl.Total() != before+1 {
			vrt.Failf("wrong-object-invoked/"+what, "echo on %s (object %d) was answered but ran %d bodies of its implementation", what, id, impl.Total()-before)
		}
	}
	if perr != nil {
		vrt.Failf("add-failed", "Service.Add failed (%s): %v", kinds[kind], perr)
		return
	}
	echo("the new object", pid, p, 31)
	switch kind {
	case 0:
		if childErr != nil {
			vrt.Failf("add-failed/child", "Add from inside Activate failed: %v", childErr)
			return
		}
		if childID == pid {
			vrt.Failf("id-collision", "the object and the child added by its Activate both received identifier %d", pid)
		}
		echo("the child added by Activate", childID, child, 32)
	case 1:
		x.call(x.objs[0], 33) // removed during the activation: must stay unreachable
	case 2:
		if otherErr != nil {
			vrt.Failf("add-failed/meanwhile", "Add during another activation failed: %v", otherErr)
			return
		}
		if otherID == pid {
			vrt.Failf("id-collision", "two objects added at the same time both received identifier %d", pid)
		}
		echo("the object added meanwhile", otherID, other, 34)
	}
	x.call(x.objs[1], 35)
	vrt.Quiesce()
	x.check()
	// the new object can be removed, once
	if err := x.w.Service.Remove(pid); err != nil {
		vrt.Failf("remove-failed", "removing the object added (%s) failed: %v", kinds[kind], err)
	}
	vrt.Quiesce()
	if p.Terminated != 1 {
		vrt.Failf(fmt.Sprintf("terminate-hook-count/%d", p.Terminated), "the termination hook of the new object ran %d times after its removal", p.Terminated)
	}
	if res, err := x.c.Client.Call(nil, x.w.ServiceID, pid, 100, fx.Int32(36)); err == nil {
		vrt.Failf("removed-object-answers", "the new object answers after its removal (%d bytes)", len(res))
	}
	if kind == 0 {
		echo("the child after its parent's removal", childID, child, 37)
	}
	fx.Settle()
	vrt.Observe("%s", x.log)
}

// clientObjects: objects added to a client-side service reference.
//   - nested: an object adds a child from its Activate
//   - add-add: two concurrent Add
//   - remove-remove: two objects removed concurrently
func clientObjects(kind string, fine bool) func() {
	return func() {
		w := startClientObjects()
		impls := []*probe.Impl{probe.New("p"), probe.New("q"), probe.New("child")}
		ids := make([]uint32, 3)
		errs := make([]error, 3)
		how := 0
		if kind == "nested" {
			how = vrt.ChooseFree(3, "removal: Remove / remote terminate / service Terminate")
		}
		vrt.Explore()
		vrt.SetFine(fine)
		var ws []*vrt.Thread
		live := []int{0, 1}
		switch kind {
		case "nested":
			impls[0].OnAct = func(a bus.Activation) {
				ids[2], errs[2] = a.Service.Add(probe.ProbeObject(impls[2]))
			}
			ids[0], errs[0] = w.svc.Add(probe.ProbeObject(impls[0]))
			ids[1], errs[1] = w.svc.Add(probe.ProbeObject(impls[1]))
			live = []int{0, 1, 2}
		case "add-add":
			for i := 0; i < 2; i++ {
				i := i
				ws = append(ws, vrt.GoWorker(fmt.Sprintf("adder%d", i), func() {
					ids[i], errs[i] = w.svc.Add(probe.ProbeObject(impls[i]))
				}))
			}
		case "remove-remove":
			ids[0], errs[0] = w.svc.Add(probe.ProbeObject(impls[0]))
			ids[1], errs[1] = w.svc.Add(probe.ProbeObject(impls[1]))
			ids[2], errs[2] = w.svc.Add(probe.ProbeObject(impls[2]))
			live = []int{0, 1, 2}
		}
		vrt.Quiesce()
		fx.Settle(ws...)
		for _, i := range live {
			if errs[i] != nil {
				vrt.Failf("add-failed/client-side", "Add of a client-side object failed: %v", errs[i])
				return
			}
			if impls[i].Activated != 1 {
				vrt.Failf("activate-count/client-side", "object %s activated %d times", impls[i].Name, impls[i].Activated)
			}
			for _, j := range live {
				if j < i && ids[i] == ids[j] {
					vrt.Failf("id-collision/client-side", "client-side objects %s and %s both received identifier %d", impls[j].Name, impls[i].Name, ids[i])
					return
				}
			}
		}
		for n, i := range live {
			w.callOK("after add", ids[i], impls[i], int32(20+n))
		}
		vrt.Quiesce()
		// removal
		rmErr := make([]error, 3)
		if kind == "remove-remove" {
			var rs []*vrt.Thread
			for i := 0; i < 2; i++ {
				i := i
				rs = append(rs, vrt.GoWorker(fmt.Sprintf("remover%d", i), func() { rmErr[i] = w.svc.Remove(ids[i]) }))
			}
			vrt.Quiesce()
			fx.Settle(rs...)
		} else if kind == "nested" && how == 1 {
			// the object is terminated by its remote user
			rmErr[0] = w.proxy(ids[0]).Terminate(ids[0])
			vrt.Quiesce()
		} else if kind == "nested" && how == 2 {
			// the whole client-side service goes away
			if err := w.svc.Terminate(); err != nil {
				vrt.Failf("service-terminate-failed/client-side", "Terminate of the client-side service failed: %v", err)
			}
			vrt.Quiesce()
		} else {
			rmErr[0] = w.svc.Remove(ids[0])
			vrt.Quiesce()
		}
		removed := map[int]bool{0: true}
		if kind == "remove-remove" {
			removed[1] = true
		}
		if kind == "nested" && how == 2 {
			removed[1], removed[2] = true, true
		}
		for _, i := range live {
			want := 0
			if removed[i] {
				want = 1
				if rmErr[i] != nil {
					vrt.Failf("remove-failed/client-side", "removing live client-side object %d failed: %v", ids[i], rmErr[i])
				}
				if w.svc.Remove(ids[i]) == nil {
					vrt.Failf("double-remove-accepted/client-side", "removing client-side object %d twice succeeded", ids[i])
				}
			}
			if impls[i].Terminated != want {
				vrt.Failf(fmt.Sprintf("terminate-hook-count/client-side/%d", impls[i].Terminated), "client-side object %s: termination hook ran %d times, expected %d", impls[i].Name, impls[i].Terminated, want)
			}
		}
		vrt.Quiesce()
		for n, i := range live {
			if !removed[i] {
				w.callOK("after the removal of another object", ids[i], impls[i], int32(40+n))
			}
		}
		// a later message addressed to a removed object is answered with an
		// error and runs nothing
		{
			before := impls[0].Total()
			var lateV int32
			var lateErr error
			lw := vrt.GoWorker("late-caller", func() { lateV, lateErr = w.proxy(ids[0]).Echo(77) })
			vrt.Quiesce()
			if !lw.Done() {
				vrt.Failf("=client-side/removed-object-call-never-answered", "a call addressed to a removed client-side object is never answered: the hosting endpoint drops the frame (no handler matches) instead of answering with an error; the caller is blocked on %s", lw.BlockedOn())
			} else if lateErr == nil {
				vrt.Failf("removed-object-answers/client-side", "echo(77) on removed client-side object %d succeeded (returned %d)", ids[0], lateV)
			}
			if impls[0].Total() != before {
				vrt.Failf("removed-object-invoked/client-side", "a call addressed to removed client-side object %d ran a method", ids[0])
			}
		}
		vrt.Quiesce()
		fx.Settle()
		vrt.Observe("%s how=%d ids=%v", kind, how, ids)
	}
}

// serviceTerminate: the whole service is terminated by its host: the hook of
// every live object runs exactly once (and not again for an object removed
// before), nothing is invoked afterwards unless it is answered.
func serviceTerminate() {
	x := start()
	x.add()
	x.add()
	if len(x.objs) != 2 {
		return
	}
	a, b := x.objs[0], x.objs[1]
	x.remove(a)
	vrt.Quiesce()
	vrt.Explore()
	var err error
	w := vrt.GoWorker("terminator", func() { err = x.w.Service.Terminate() })
	vrt.Quiesce()
	fx.Settle(w)
	if err != nil {
		vrt.Failf("service-terminate-failed", "Service.Terminate failed: %v", err)
	}
	if a.impl.Terminated != 1 {
		vrt.Failf(fmt.Sprintf("terminate-hook-count/%d", a.impl.Terminated), "an object removed before the termination of its service had its hook run %d times", a.impl.Terminated)
	}
	if b.impl.Terminated != 1 || x.w.Root.Terminated != 1 {
		vrt.Failf(fmt.Sprintf("terminate-hook-count/service-terminate/%d-%d", b.impl.Terminated, x.w.Root.Terminated), "after Service.Terminate the hooks of the live object and of the service object ran %d and %d times", b.impl.Terminated, x.w.Root.Terminated)
	}
	before := a.impl.Total()
	if v, err := a.proxy.Echo(3); err == nil {
		vrt.Failf("removed-object-answers", "echo on a removed object succeeded (returned %d) after the termination of the service", v)
	}
	if a.impl.Total() != before {
		vrt.Failf("removed-object-invoked", "a call to a removed object ran the method after the termination of the service")
	}
	vrt.Quiesce()
	fx.Settle()
	vrt.Observe("hooks=%d,%d,%d", a.impl.Terminated, b.impl.Terminated, x.w.Root.Terminated)
}

// clientHistories: every sequence of <= n operations {add, remove(k)} on a
// client-side service reference, against a model: identifiers unique among
// live objects, each live object reaches its own implementation, each removed
// one had its hook run exactly once.
func clientHistories(n int) func() {
	return func() {
		w := startClientObjects()
		type cobj struct {
			impl    *probe.Impl
			id      uint32
			removed bool
		}
		var objs []*cobj
		type step struct{ op, k int }
		var steps []step
		for i := 0; i < n; i++ {
			op := vrt.ChooseFree(6, "op: add / remove(0..3) / stop")
			if op == 5 {
				break
			}
			steps = append(steps, step{op, op - 1})
		}
		vrt.Explore()
		log := ""
		for _, st := range steps {
			if st.op == 0 {
				log += "add;"
				o := &cobj{impl: probe.New(fmt.Sprintf("o%d", len(objs)))}
				id, err := w.svc.Add(probe.ProbeObject(o.impl))
				if err != nil {
					vrt.Failf("add-failed/client-side", "Add failed after [%s]: %v", log, err)
					return
				}
				o.id = id
				for _, other := range objs {
					if !other.removed && other.id == id {
						vrt.Failf("id-collision/client-side", "after [%s] a new client-side object received identifier %d, which a live object holds", log, id)
						return
					}
				}
				objs = append(objs, o)
			} else {
				log += fmt.Sprintf("remove(%d);", st.k)
				if st.k >= len(objs) {
					continue
				}
				o := objs[st.k]
				// the identifier of a removed object may have been given to a later one
				target := o
				if o.removed {
					for _, other := range objs {
						if !other.removed && other.id == o.id {
							target = other
						}
					}
				}
				err := w.svc.Remove(target.id)
				if target.removed && err == nil {
					vrt.Failf("double-remove-accepted/client-side", "removing an already removed client-side object succeeded after [%s]", log)
				}
				if !target.removed && err != nil {
					vrt.Failf("remove-failed/client-side", "removing a live client-side object failed after [%s]: %v", log, err)
				}
				if err == nil {
					target.removed = true
				}
			}
			vrt.Quiesce()
			for i, o := range objs {
				want := 0
				if o.removed {
					want = 1
				}
				if o.impl.Terminated != want {
					vrt.Failf(fmt.Sprintf("terminate-hook-count/client-side/%d", o.impl.Terminated), "client-side object %d: termination hook ran %d times, expected %d, after [%s]", i, o.impl.Terminated, want, log)
					return
				}
			}
		}
		for i, o := range objs {
			if !o.removed {
				w.callOK(fmt.Sprintf("after [%s], object %d", log, i), o.id, o.impl, int32(60+i))
			}
		}
		vrt.Quiesce()
		fx.Settle()
		vrt.Observe("%s", log)
	}
}

// secondLife: the same Actor is added to the service again after its first
// life ended (removal or remote terminate), or after a first activation that
// failed: the second life behaves like the first - callable, subscribers told
// at its end, hook run once per life, unreachable afterwards.
func secondLife() {
	w := fx.Start(bus.Yes{})
	c := w.MustConnect()
	impl := probe.New("again")
	actor := probe.ProbeObject(impl)
	first := vrt.ChooseFree(3, "first life ends by: Remove / remote terminate / its activation fails")
	second := vrt.ChooseFree(2, "second life ends by: Remove / remote terminate")
	vrt.Explore()
	hooks := 0
	life := func(n int, how int) {
		ctx := fmt.Sprintf("life %d (first life ended by variant %d)", n, first)
		id, err := w.Service.Add(actor)
		if err != nil {
			vrt.Failf("add-failed/"+fmt.Sprint(n), "%s: Add failed: %v", ctx, err)
			return
		}
		vrt.Quiesce()
		p := c.Probe(id)
		if v, err := p.Echo(int32(n)); err != nil || v != probe.EchoResult(int32(n)) {
			vrt.Failf("live-object-refuses/second-life", "%s: echo on the object returned %d, %v", ctx, v, err)
			return
		}
		s := &sub{}
		// the subscriber has its own connection (and so its own local
		// subscription bookkeeping) in each life
		cs := w.MustConnect()
		if _, ch, err := cs.Probe(id).SubscribeTick(); err != nil {
			vrt.Failf("live-object-refuses/second-life", "%s: subscribing failed: %v", ctx, err)
		} else {
			vrt.GoNamed(fmt.Sprintf("sub-drain-%d", n), func() {
				for v := range ch {
					s.got = append(s.got, v)
				}
				s.closed = true
			})
		}
		vrt.Quiesce()
		if how == 0 {
			err = w.Service.Remove(id)
		} else {
			err = p.Terminate(id)
		}
		vrt.Quiesce()
		if err != nil {
			vrt.Failf("remove-failed/second-life", "%s: ending the life failed: %v", ctx, err)
		}
		hooks++
		if impl.Terminated != hooks {
			vrt.Failf(fmt.Sprintf("terminate-hook-count/second-life/%d-of-%d", impl.Terminated, hooks), "%s: the termination hook ran %d times in total, %d lives ended", ctx, impl.Terminated, hooks)
		}
		if !s.closed {
			vrt.Failf("subscriber-not-told/second-life", "%s: the object was removed but its subscriber's channel is still open", ctx)
		}
		before := impl.Total()
		if v, err := p.Echo(9); err == nil {
			vrt.Failf("removed-object-answers/second-life", "%s: echo on the removed object succeeded (returned %d)", ctx, v)
		} else if impl.Total() != before {
			vrt.Failf("removed-object-invoked/second-life", "%s: a call to the removed object ran the method", ctx)
		}
		vrt.Quiesce()
	}
	if first == 2 {
		impl.FailAct = true
		if _, err := w.Service.Add(actor); err == nil {
			vrt.Failf("harness/failed-activation", "Add succeeded although the activation failed")
		}
		vrt.Quiesce()
		// a failed activation is not a life: the hook may or may not have run
		hooks = impl.Terminated
	} else {
		life(1, first)
	}
	life(2, second)
	if v, err := c.Probe(1).Echo(3); err != nil || v != probe.EchoResult(3) {
		vrt.Failf("other-object-affected", "the service object no longer answers: %v", err)
	}
	fx.Settle()
	vrt.Observe("first=%d second=%d hooks=%d", first, second, impl.Terminated)
}

// twoSubscriptions: one connection follows two signals and the property of an
// object; when the object is removed every one of its channels is closed;
// also with far more unread events than a subscription queue holds.
func twoSubscriptions() {
	x := start()
	x.add()
	if len(x.objs) != 1 {
		return
	}
	a := x.objs[0]
	c := x.w.MustConnect()
	p := c.Probe(a.id)
	flood := []int{0, 30, 130}[vrt.ChooseFree(3, "unread events pending at removal: 0 / 30 / 130")]
	how := vrt.ChooseFree(2, "Remove / remote terminate")
	closed := make([]bool, 3)
	got := make([]int, 3)
	start := make([]func(), 3)
	names := []string{"tick", "other", "level"}
	_, ch0, e0 := p.SubscribeTick()
	_, ch1, e1 := p.SubscribeOther()
	_, ch2, e2 := p.SubscribeLevel()
	if e0 != nil || e1 != nil || e2 != nil {
		vrt.Failf("live-object-refuses", "subscribing to three actions of a live object failed: %v %v %v", e0, e1, e2)
		return
	}
	start[0] = func() {
		vrt.GoNamed("drain-tick", func() {
			for range ch0 {
				got[0]++
			}
			closed[0] = true
		})
	}
	start[1] = func() {
		vrt.GoNamed("drain-other", func() {
			for range ch1 {
				got[1]++
			}
			closed[1] = true
		})
	}
	start[2] = func() {
		vrt.GoNamed("drain-level", func() {
			for range ch2 {
				got[2]++
			}
			closed[2] = true
		})
	}
	vrt.Quiesce()
	vrt.Explore()
	// nobody reads while the events arrive
	for k := 0; k < flood; k++ {
		a.impl.Helper.SignalTick(int32(k))
		if k == 5 {
			// the client's forwarding goroutine picks the first event up and
			// waits for a reader: the queue behind it can then fill completely
			vrt.Quiesce()
		}
	}
	vrt.Quiesce()
	var err error
	if how == 0 {
		err = x.w.Service.Remove(a.id)
	} else {
		err = x.c.Probe(a.id).Terminate(a.id)
	}
	vrt.Quiesce()
	if err != nil {
		vrt.Failf("remove-failed", "ending the object failed: %v", err)
	}
	for i := range start {
		start[i]()
	}
	vrt.Quiesce()
	for i, name := range names {
		if !closed[i] {
			vrt.Failf("subscriber-not-told/"+name, "the object was removed (variant %d, %d unread tick events pending) but the channel of the connection's %s subscription is still open (it delivered %d events)", how, flood, name, got[i])
		}
	}
	if flood > 0 && flood <= 100 && got[0] != flood {
		vrt.Failf("events-before-removal-lost", "%d tick events were emitted before the removal (within the queue capacity), %d were delivered", flood, got[0])
	}
	if a.impl.Terminated != 1 {
		vrt.Failf(fmt.Sprintf("terminate-hook-count/%d", a.impl.Terminated), "termination hook ran %d times", a.impl.Terminated)
	}
	fx.Settle()
	wire := 0
	for _, f := range c.In.Frames {
		if f.Hdr.Type == 5 && f.Hdr.Action == 105 {
			wire++
		}
	}
	vrt.Observe("flood=%d how=%d got=%v wire=%d", flood, how, got, wire)
}

// firstObject: the object a service was created with (id 1) is terminated by
// a remote client like any other object: its hook runs once, its subscriber
// is told, and the other objects of the service keep answering.
func firstObject() {
	x := start()
	x.add()
	if len(x.objs) != 1 {
		return
	}
	b := x.objs[0]
	c2 := x.w.MustConnect()
	_, ch, err := c2.Probe(1).SubscribeTick()
	if err != nil {
		vrt.Failf("live-object-refuses", "%v", err)
		return
	}
	told := false
	vrt.GoNamed("drain-root", func() {
		for range ch {
		}
		told = true
	})
	vrt.Quiesce()
	how := vrt.ChooseFree(2, "remote terminate / Service.Remove")
	vrt.Explore()
	if how == 0 {
		err = x.root.Terminate(1)
	} else {
		err = x.w.Service.Remove(1)
	}
	vrt.Quiesce()
	if err != nil {
		vrt.Failf("terminate-failed", "terminating the first object of the service failed: %v", err)
	}
	if x.w.Root.Terminated != 1 {
		vrt.Failf(fmt.Sprintf("terminate-hook-count/first-object/%d", x.w.Root.Terminated), "the first object of the service was terminated (variant %d): its hook ran %d times", how, x.w.Root.Terminated)
	}
	if !told {
		vrt.Failf("subscriber-not-told/first-object", "the first object was terminated but its subscriber's channel is still open")
	}
	before := x.w.Root.Total()
	if _, err := c2.Probe(b.id).Echo(5); err != nil {
		vrt.Failf("other-object-affected/first-object", "after the first object of the service was terminated, another object of the service fails: %v", err)
	}
	if v, err := x.root.Echo(6); err == nil {
		vrt.Failf("removed-object-answers/first-object", "echo on the terminated first object succeeded (%d)", v)
	} else if x.w.Root.Total() != before {
		vrt.Failf("removed-object-invoked/first-object", "a call to the terminated first object ran the method")
	}
	if b.impl.Terminated != 0 {
		vrt.Failf("other-object-terminated", "another object was terminated along with the first one")
	}
	fx.Settle()
	vrt.Observe("how=%d", how)
}

// unreachableSubscriber: three connections follow tick of object a; the server cannot
// write to one of them any more (its registration is still there: the loss has not been
// noticed) when a is removed - locally or by a remote terminate. The subscribers on the
// two healthy connections are told whatever the position of the unreachable one in the
// list (seed C16-20 stopped telling at the first write that failed).
func unreachableSubscriber() {
	x := start()
	x.add()
	if len(x.objs) != 1 {
		return
	}
	a := x.objs[0]
	broken := vrt.ChooseFree(3, "which subscriber is unreachable")
	remote := vrt.ChooseFree(2, "removed by a remote terminate") == 1
	conns := []*fx.Conn{x.w.MustConnect(), x.w.MustConnect(), x.w.MustConnect()}
	closed := make([]bool, 3)
	for i, c := range conns {
		i := i
		_, ch, err := c.Probe(a.id).SubscribeTick()
		if err != nil {
			vrt.Failf("harness/subscribe", "%v", err)
			return
		}
		vrt.GoNamed(fmt.Sprintf("sub-drain-%d", i), func() {
			for range ch {
			}
			closed[i] = true
		})
	}
	vrt.Quiesce()
	conns[broken].Raw.Peer().OnOp = func(kind string, idx int) *vnet.Fault {
		if kind == "write" {
			return &vnet.Fault{Kind: "werr"}
		}
		return nil
	}
	vrt.Explore()
	var err error
	if remote {
		err = a.proxy.Terminate(a.id)
	} else {
		err = x.w.Service.Remove(a.id)
	}
	vrt.Quiesce()
	if !remote && err != nil {
		vrt.Failf("remove-failed", "Remove with an unreachable subscriber failed: %v", err)
	}
	a.removed = true
	if a.impl.Terminated != 1 {
		vrt.Failf(fmt.Sprintf("terminate-hook-count/%d", a.impl.Terminated), "termination hook ran %d times with an unreachable subscriber (remote=%v)", a.impl.Terminated, remote)
	}
	for i := range conns {
		if i != broken && !closed[i] {
			vrt.Failf("subscriber-not-told", "object removed (remote terminate: %v) while the server could not write to subscriber %d: the subscriber on healthy connection %d was not told (its channel is still open)", remote, broken, i)
		}
	}
	x.log = "remove-with-unreachable-subscriber;final-call"
	x.call(a, 7)
	fx.Settle()
	vrt.Observe("broken=%d remote=%v closed=%v", broken, remote, closed)
}

func init() {
	reg.Register(&reg.Scenario{Property: "C16", Name: "three-subscriptions-one-connection", Body: twoSubscriptions, Quick: 0, Thorough: 1,
		Doc: "one connection follows two signals and the property of an object, with 0 / 30 / 130 unread events pending; the object is removed or terminated: every channel of the connection is closed"})
	reg.Register(&reg.Scenario{Property: "C16", Name: "remove-with-unreachable-subscriber", Body: unreachableSubscriber, Quick: 0, Thorough: 1,
		Doc: "three connections follow tick of an object, the server cannot write to one of them (first, middle or last registered) when the object is removed locally or terminated remotely: the hook runs once, the subscribers on the healthy connections are told, the object is unreachable"})
	reg.Register(&reg.Scenario{Property: "C16", Name: "first-object-terminated", Body: firstObject, Quick: 0, Thorough: 1,
		Doc: "the object a service was created with (id 1) is terminated remotely or removed: hook once, subscriber told, unreachable, the other objects keep answering"})
	reg.Register(&reg.Scenario{Property: "C16", Name: "actor-second-life", Body: secondLife, Quick: 1, Thorough: 2,
		Doc: "the same Actor is added again after its first life ended (Remove / remote terminate) or after a failed activation; each life: callable, a subscriber, ended by Remove or remote terminate; hook once per life, subscriber told, unreachable afterwards"})
	reg.Register(&reg.Scenario{Property: "C16", Name: "client-objects-histories-6", Body: clientHistories(6), Quick: 0, Thorough: 0,
		Doc: "client-side service reference: every sequence of <=6 operations {add, remove(0..3)} against the model (identifiers unique among live objects, own implementation reached, hooks exactly once)"})
	reg.Register(&reg.Scenario{Property: "C16", Name: "client-objects-histories-7", Body: clientHistories(7), Quick: -1, Thorough: 0,
		Doc: "the same with <=7 operations"})
	reg.Register(&reg.Scenario{Property: "C16", Name: "service-terminate", Body: serviceTerminate, Quick: 1, Thorough: 2,
		Doc: "one object removed, then the host terminates the whole service: every hook ran exactly once"})
	reg.Register(&reg.Scenario{Property: "C16", Name: "hook-removes-another-object", Body: hookCascade, Quick: 1, Thorough: 2,
		Doc: "the termination hook of an object removes another object of the service (Remove or remote terminate): both hooks run once, the removal returns, the others answer"})
	reg.Register(&reg.Scenario{Property: "C16", Name: "slow-termination-hook", Body: hookSlow, Quick: 1, Thorough: 2,
		Doc: "while the termination hook of a removed object is still running, the other objects answer and the removed one answers with an error"})
	reg.Register(&reg.Scenario{Property: "C16", Name: "activation-window", Body: activationWindow, Quick: 1, Thorough: 2,
		Doc: "while Service.Add runs the new object's Activate (service lock released): the Activate adds a child / another object is removed / another object is added; afterwards every live object answers with its own implementation, the removed one stays unreachable, the new object can be removed once"})
	reg.Register(&reg.Scenario{Property: "C16", Name: "client-objects-nested-add", Body: clientObjects("nested", false), Quick: 1, Thorough: 2,
		Doc: "client-side service reference: an object adds a child from its Activate, then another Add; identifiers unique, each callable, removal of one"})
	reg.Register(&reg.Scenario{Property: "C16", Name: "client-objects-add-add", Body: clientObjects("add-add", true), Quick: 2, Thorough: 3,
		Doc: "client-side service reference: two concurrent Add (bus/service_reference.go at statement level)"})
	reg.Register(&reg.Scenario{Property: "C16", Name: "client-objects-remove-remove", Body: clientObjects("remove-remove", true), Quick: 2, Thorough: 3,
		Doc: "client-side service reference: two of three objects removed concurrently (statement level, map accesses announced)"})
}
