package c16

import (
	"fmt"

	"github.com/lugu/qiloop/bus"

	"verif/rt/vrt"
	"verif/scenarios/fx"
	"verif/scenarios/probe"
	"verif/scenarios/reg"
)

// terminateThenCall: the client that terminated an object calls it again as
// soon as the termination was acknowledged (no pause in between): once the
// Reply of terminate has been read, the object must be gone - the call is
// answered with an error and runs nothing; subscribers were told.
func terminateThenCall() {
	x := start()
	x.add()
	if len(x.objs) != 1 {
		return
	}
	o := x.objs[0]
	other := x.w.MustConnect()
	po := probe.MakeProbe(other.Session(), mustProxy(other, o.id))
	_, ch, err := po.SubscribeTick()
	if err != nil {
		vrt.Failf("harness/subscribe", "%v", err)
		return
	}
	told := false
	vrt.GoNamed("sub-drain", func() {
		for range ch {
		}
		told = true
	})
	vrt.Quiesce()
	vrt.Explore()
	var termErr, callErr error
	var v int32
	toldAtAck := false
	before := 0
	w := vrt.GoWorker("terminator", func() {
		termErr = o.proxy.Terminate(o.id)
		toldAtAck = told
		before = o.impl.Total()
		v, callErr = o.proxy.Echo(4)
	})
	vrt.Quiesce()
	fx.Settle(w)
	_ = toldAtAck
	switch {
	case termErr != nil:
		vrt.Failf("remove-failed", "terminate(%d) of a live object failed: %v", o.id, termErr)
	case callErr == nil:
		vrt.Failf("removed-object-answers/after-acknowledged-terminate", "echo(4) sent right after the acknowledged terminate of the object succeeded (returned %d)", v)
	case o.impl.Total() != before:
		vrt.Failf("removed-object-invoked/after-acknowledged-terminate", "a call sent right after the acknowledged terminate ran the method")
	}
	if o.impl.Terminated != 1 {
		vrt.Failf(fmt.Sprintf("terminate-hook-count/%d", o.impl.Terminated), "termination hook of the terminated object ran %d times", o.impl.Terminated)
	}
	if !told {
		vrt.Failf("subscriber-not-told/after-terminate", "the subscriber of the terminated object was never told (its channel is still open at quiescence)")
	}
	if v, err := x.root.Echo(8); err != nil || v != probe.EchoResult(8) {
		vrt.Failf("other-object-affected", "the service object no longer answers after the termination of another object: %d, %v", v, err)
	}
	vrt.Observe("term=%v call=%v told=%v", termErr, callErr != nil, told)
}

func mustProxy(c *fx.Conn, objectID uint32) bus.Proxy {
	meta, err := bus.GetMetaObject(c.Client, c.W.ServiceID, objectID)
	if err != nil {
		panic(fmt.Sprintf("meta object of %d: %v", objectID, err))
	}
	return bus.NewProxy(c.Client, meta, c.W.ServiceID, objectID)
}

// svcProbe returns a generated proxy to object 1 of service sid.
func svcProbe(c *fx.Conn, sid uint32) (probe.ProbeProxy, error) {
	meta, err := bus.GetMetaObject(c.Client, sid, 1)
	if err != nil {
		return nil, err
	}
	return probe.MakeProbe(c.Session(), bus.NewProxy(c.Client, meta, sid, 1)), nil
}

// lentObjects: client A hosts one object for each of TWO services of the
// server over ONE connection (two service references on one endpoint: both
// objects carry the first client-side identifier, 2^31) and lends them
// (adopt); client B obtains them (adopted) and uses them through the
// services' relays. Then one of them is terminated by B through its PUBLIC
// identifier (how=0), or removed by A (how=1): the other one keeps serving,
// the removed one answers with an error, hooks ran exactly once.
func lentObjects() {
	w := fx.Start(bus.Yes{})
	root2 := probe.New("root2")
	svc2, err := w.Srv.NewService("Probe2", probe.ProbeObject(root2))
	if err != nil {
		vrt.Failf("harness/second-service", "%v", err)
		return
	}
	sid2 := svc2.ServiceID()
	cA, cB := w.MustConnect(), w.MustConnect()
	pA1 := cA.Probe(1)
	pA2, err := svcProbe(cA, sid2)
	if err != nil {
		vrt.Failf("harness/proxy2", "%v", err)
		return
	}
	mine := []*probe.Impl{probe.New("lent1"), probe.New("lent2")}
	refs := []bus.Service{pA1.Proxy().ProxyService(cA.Session()), pA2.Proxy().ProxyService(cA.Session())}
	var lent []probe.ProbeProxy
	for i := range mine {
		l, err := probe.CreateProbe(cA.Session(), refs[i], mine[i])
		if err != nil {
			vrt.Failf("harness/create", "%v", err)
			return
		}
		lent = append(lent, l)
	}
	if lent[0].Proxy().ObjectID() != lent[1].Proxy().ObjectID() {
		vrt.Flag("client-side-identifiers-differ")
	} else {
		vrt.Flag("client-side-identifiers-equal")
	}
	if err := pA1.Adopt(lent[0]); err != nil {
		vrt.Failf("harness/adopt", "%v", err)
		return
	}
	if err := pA2.Adopt(lent[1]); err != nil {
		vrt.Failf("harness/adopt2", "%v", err)
		return
	}
	vrt.Quiesce()
	pB1 := cB.Probe(1)
	pB2, err := svcProbe(cB, sid2)
	if err != nil {
		vrt.Failf("harness/proxy2-B", "%v", err)
		return
	}
	got := make([]probe.ProbeProxy, 2)
	if got[0], err = pB1.Adopted(); err != nil {
		vrt.Failf("harness/adopted", "%v", err)
		return
	}
	if got[1], err = pB2.Adopted(); err != nil {
		vrt.Failf("harness/adopted2", "%v", err)
		return
	}
	callOK := func(when string, i int, arg int32) {
		key := fmt.Sprintf("echo(%d)", arg)
		b0, b1 := mine[0].Calls[key], mine[1].Calls[key]
		v, err := got[i].Echo(arg)
		if err != nil || v != probe.EchoResult(arg) {
			vrt.Failf("live-object-refuses/lent", "%s: echo(%d) on the object lent to service %d returned %d, %v", when, arg, i+1, v, err)
			return
		}
		d := []int{mine[0].Calls[key] - b0, mine[1].Calls[key] - b1}
		if d[i] != 1 || d[1-i] != 0 {
			vrt.Failf("wrong-object-invoked/lent", "%s: echo(%d) addressed to the object lent to service %d ran %d times there and %d times on the object lent to the other service", when, arg, i+1, d[i], d[1-i])
		}
	}
	callOK("before", 0, 31)
	callOK("before", 1, 32)
	victim := vrt.ChooseFree(2, "which lent object goes away")
	how := vrt.ChooseFree(2, "terminated by its remote user through the public id / removed by its host")
	vrt.Explore()
	var rmErr error
	wk := vrt.GoWorker("remover", func() {
		if how == 0 {
			rmErr = got[victim].Terminate(got[victim].Proxy().ObjectID())
		} else {
			rmErr = refs[victim].Remove(lent[victim].Proxy().ObjectID())
		}
	})
	vrt.Quiesce()
	fx.Settle(wk)
	if rmErr != nil {
		vrt.Failf(fmt.Sprintf("remove-failed/lent/how%d", how), "removing the object lent to service %d failed (how=%d: 0 = terminate(public id) by its remote user, 1 = Remove by its host): %v", victim+1, how, rmErr)
	}
	for i := range mine {
		want := 0
		if i == victim {
			want = 1
		}
		if mine[i].Terminated != want {
			vrt.Failf(fmt.Sprintf("terminate-hook-count/lent/%d-for-%d", mine[i].Terminated, want), "the termination hook of the object lent to service %d ran %d times, expected %d (victim: service %d, how=%d)", i+1, mine[i].Terminated, want, victim+1, how)
		}
	}
	// the survivor keeps serving, the removed one is unreachable
	callOK("after the removal of the other lent object", 1-victim, 41)
	before := mine[0].Total() + mine[1].Total()
	var lateV int32
	var lateErr error
	lw := vrt.GoWorker("late-caller", func() { lateV, lateErr = got[victim].Echo(43) })
	vrt.Quiesce()
	if !lw.Done() {
		vrt.Failf("=client-side/removed-object-call-never-answered", "a call addressed to a removed client-side object (here: through the relay of the service it was lent to) is never answered: the hosting client's endpoint drops the frame (no handler matches) instead of answering with an error; the caller is blocked on %s", lw.BlockedOn())
	} else if lateErr == nil {
		vrt.Failf("removed-object-answers/lent", "echo(43) on the removed lent object succeeded (returned %d)", lateV)
	}
	if mine[0].Total()+mine[1].Total() != before {
		vrt.Failf("removed-object-invoked/lent", "a call addressed to the removed lent object ran a method (on it or on the other lent object)")
	}
	if mine[1-victim].Terminated != 0 {
		vrt.Failf("other-object-affected/lent", "the surviving lent object was terminated by the traffic addressed to the removed one")
	}
	fx.Settle()
	vrt.Observe("victim=%d how=%d err=%v", victim, how, rmErr)
}

func init() {
	reg.Register(&reg.Scenario{Property: "C16", Name: "terminate-then-call", Body: terminateThenCall, Quick: 2, Thorough: 3,
		Doc: "a client terminates an object and, as soon as the terminate is acknowledged, calls it again: the call is answered with an error and runs nothing; the hook ran once, the subscriber on another connection was told, the service object still answers"})
	reg.Register(&reg.Scenario{Property: "C16", Name: "lent-objects-two-services", Body: lentObjects, Quick: 1, Thorough: 2,
		Doc: "client A hosts one object for each of two services over one connection (two service references, equal client-side identifiers) and lends them; client B uses them through the relays; one is terminated by B through its public identifier or removed by A: hook once, the removed one is unreachable, the other keeps serving on its own implementation", MustFlag: []string{"client-side-identifiers-equal"}})
}
