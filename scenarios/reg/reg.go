// Package reg is the registry of engine-B scenarios.
package reg

import "sort"

// Scenario is one closed harness around the real bus code.
type Scenario struct {
	Property string // C17, ...
	Name     string // unique within the property
	Body     func() // runs as the main controlled thread
	// Bounds[tier] is the deviation bound explored ("quick", "thorough").
	Quick, Thorough int
	// ExpectCrash: the scenario inspects crashes itself.
	ExpectCrash bool
	// MaxSteps per execution (0: default).
	MaxSteps int
	// StepLimitFails: not coming to rest within MaxSteps is a violation.
	StepLimitFails bool
	// Flags that must be hit by at least one execution (vacuity guard).
	MustFlag []string
	// Doc is a one-line description used in evidence samples.
	Doc string
}

var all []*Scenario

// Register adds a scenario.
func Register(s *Scenario) { all = append(all, s) }

// For returns the scenarios of a property, sorted by name.
func For(property string) []*Scenario {
	var out []*Scenario
	for _, s := range all {
		if s.Property == property {
			out = append(out, s)
		}
	}
	sort.Slice(out, func(i, j int) bool { return out[i].Name < out[j].Name })
	return out
}

// Find returns one scenario.
func Find(property, name string) *Scenario {
	for _, s := range all {
		if s.Property == property && s.Name == name {
			return s
		}
	}
	return nil
}
