// Package c19 holds the engine-B scenarios of property C19: a session can be
// shared by concurrent goroutines.
package c19

import (
	"fmt"

	"github.com/lugu/qiloop/bus"
	"github.com/lugu/qiloop/bus/directory"
	qinet "github.com/lugu/qiloop/bus/net"
	"github.com/lugu/qiloop/bus/services"
	"github.com/lugu/qiloop/bus/session"
	"github.com/lugu/qiloop/type/object"

	"verif/rt/vnet"
	"verif/rt/vrt"
	"verif/scenarios/fx"
	"verif/scenarios/probe"
	"verif/scenarios/reg"
)

type world struct {
	impl  *probe.Impl
	impl2 *probe.Impl // the second service (Probe2) of the same host, same endpoint
	other bus.Session // another participant's session (registers unrelated services)
	sess  bus.Session
	ref   object.ObjectReference // reference to the Probe service object
}

// start: a directory on tcp://sd, a second server on tcp://b hosting the
// probe service (and a third on tcp://c hosting another one), and the session
// under test.
func start(twoHosts bool, multi ...bool) *world {
	if _, err := directory.NewServer("tcp://sd", bus.Yes{}); err != nil {
		panic(err)
	}
	w := &world{impl: probe.New("root")}
	host := func(addr, name string, impl *probe.Impl) {
		s, err := session.NewSession("tcp://sd")
		if err != nil {
			panic(fmt.Sprintf("host session: %v", err))
		}
		var srv bus.Server
		if len(multi) > 0 && multi[0] {
			// the service is advertised with three addresses: a test-range
			// address (never dialled), one nobody listens on, the real one
			l, lerr := qinet.Listen(addr)
			if lerr != nil {
				panic(fmt.Sprintf("host listen: %v", lerr))
			}
			ns, nerr := services.Namespace(s, []string{"tcp://198.18.0.1:9559", "tcp://nobody", addr})
			if nerr != nil {
				panic(fmt.Sprintf("host namespace: %v", nerr))
			}
			srv, err = bus.StandAloneServer(l, bus.Yes{}, ns)
		} else {
			srv, err = services.NewServer(s, addr, bus.Yes{})
		}
		if err != nil {
			panic(fmt.Sprintf("host server: %v", err))
		}
		if _, err := srv.NewService(name, probe.ProbeObject(impl)); err != nil {
			panic(fmt.Sprintf("host service: %v", err))
		}
		if name == "Probe" {
			// a second service behind the same endpoint
			w.impl2 = probe.New("root2")
			if _, err := srv.NewService("Probe2", probe.ProbeObject(w.impl2)); err != nil {
				panic(fmt.Sprintf("host service 2: %v", err))
			}
		}
	}
	host("tcp://b", "Probe", w.impl)
	if twoHosts {
		host("tcp://c", "Other", probe.New("other"))
	}
	vrt.Quiesce()
	s, err := session.NewSession("tcp://sd")
	if err != nil {
		panic(fmt.Sprintf("session: %v", err))
	}
	w.sess = s
	vrt.Quiesce()
	// an object reference to the probe service, as a method returning an
	// object would deliver it (obtained through a separate session)
	s2, err := session.NewSession("tcp://sd")
	if err != nil {
		panic(err)
	}
	px, err := s2.Proxy("Probe", 1)
	if err != nil {
		panic(fmt.Sprintf("reference proxy: %v", err))
	}
	w.ref = bus.ObjectReference(px)
	w.other = s2
	vrt.Quiesce()
	return w
}

type req struct {
	name    string
	service string
	done    bool
	err     error
	ok      bool
}

func body(services_ []string, fine bool, multi ...bool) func() {
	return func() {
		twoHosts := false
		for _, s := range services_ {
			if s == "Other" {
				twoHosts = true
			}
		}
		w := start(twoHosts, multi...)
		vrt.Explore()
		vrt.SetFine(fine)
		var reqs []*req
		var ws []*vrt.Thread
		for i, svc := range services_ {
			r := &req{name: fmt.Sprintf("g%d", i), service: svc}
			reqs = append(reqs, r)
			arg := int32(10 + i)
			ws = append(ws, vrt.GoWorker(r.name, func() {
				defer func() { r.done = true }()
				var p bus.Proxy
				var err error
				if r.service == "churn" {
					// another participant registers, readies and withdraws an
					// unrelated service: the directory signals every session
					dp, err := w.other.Proxy("ServiceDirectory", 1)
					if err != nil {
						r.err = err
						return
					}
					sd := services.MakeServiceDirectory(w.other, dp)
					id, err := sd.RegisterService(services.ServiceInfo{Name: "Churn", MachineId: "m9", ProcessId: 9, Endpoints: []string{"tcp://nowhere"}})
					if err == nil {
						err = sd.ServiceReady(id)
					}
					if err == nil {
						err = sd.UnregisterService(id)
					}
					r.err = err
					r.ok = err == nil
					return
				}
				if r.service == "Probe-by-reference" {
					// Session.Object: a proxy from an object reference
					p, err = w.sess.Object(w.ref)
				} else {
					p, err = w.sess.Proxy(r.service, 1)
				}
				if err != nil {
					r.err = err
					return
				}
				switch r.service {
				case "ServiceDirectory":
					sd := services.MakeServiceDirectory(w.sess, p)
					l, err := sd.Services()
					r.err = err
					r.ok = err == nil && len(l) >= 2
				default:
					v, err := probe.MakeProbe(w.sess, p).Echo(arg)
					r.err = err
					r.ok = err == nil && v == probe.EchoResult(arg)
				}
			}))
		}
		vrt.Quiesce()
		fx.Settle(ws...)
		for _, r := range reqs {
			if !r.done {
				continue
			}
			if r.err != nil {
				vrt.Failf("request-failed/"+r.service, "%s: Proxy(%q) or its first call failed: %v", r.name, r.service, r.err)
			} else if !r.ok {
				vrt.Failf("proxy-not-working/"+r.service, "%s: the proxy to %q returned a wrong result", r.name, r.service)
			}
		}
		// at most one connection per remote endpoint, shared by the proxies
		for _, addr := range []string{"tcp://sd", "tcp://b", "tcp://c"} {
			// the hosting sessions hold their own connections to the directory
			extra := 0
			if addr == "tcp://sd" {
				extra = 2 // the hosting session and the reference session
				if twoHosts {
					extra = 3
				}
			}
			if addr == "tcp://b" {
				extra = 1 // the reference session's own connection
			}
			if n := vnet.OpenClientConns(addr) - extra; n > 1 {
				vrt.Failf("duplicate-connection/"+addr, "the session holds %d open connections to %s", n, addr)
			}
			if vnet.Dials[addr]-extra > 1 {
				vrt.Flag("dialled-twice:" + addr)
			}
		}
		// the session still works afterwards (a probe: default schedule only)
		vrt.Freeze()
		p, err := w.sess.Proxy("Probe", 1)
		if err != nil {
			vrt.Failf("session-broken", "Proxy(Probe) fails after the concurrent requests: %v", err)
		} else if v, err := probe.MakeProbe(w.sess, p).Echo(99); err != nil || v != probe.EchoResult(99) {
			vrt.Failf("session-broken", "echo through a later proxy fails: %v", err)
		}
		if n := vnet.OpenClientConns("tcp://b") - 1; n > 1 {
			vrt.Failf("duplicate-connection/tcp://b", "the session holds %d open connections to tcp://b after a later request", n)
		}
		fx.Settle()
		vrt.Observe("dials b=%d c=%d open b=%d", vnet.Dials["tcp://b"], vnet.Dials["tcp://c"], vnet.OpenClientConns("tcp://b"))
	}
}

// reconnect: the pooled connection to an endpoint is lost (the remote side
// closes it); later concurrent requests dial again, succeed and share one
// connection.
func reconnect() {
	w := start(false)
	p0, err := w.sess.Proxy("Probe", 1)
	if err != nil {
		vrt.Failf("request-failed/Probe", "first Proxy(Probe) failed: %v", err)
		return
	}
	if v, err := probe.MakeProbe(w.sess, p0).Echo(1); err != nil || v != probe.EchoResult(1) {
		vrt.Failf("proxy-not-working/Probe", "first echo failed: %v", err)
	}
	vrt.Quiesce()
	conns := vnet.Established["tcp://b"]
	if len(conns) < 2 {
		vrt.Failf("harness/connections", "expected the reference session's and the session's connection to tcp://b, found %d", len(conns))
		return
	}
	mine := conns[len(conns)-1]
	concurrent := vrt.ChooseFree(2, "cut-concurrent-with-requests") == 1
	if !concurrent {
		mine.Peer().Close()
		vrt.Quiesce()
	}
	vrt.Explore()
	var ws []*vrt.Thread
	errs := make([]error, 2)
	for i := 0; i < 2; i++ {
		i := i
		ws = append(ws, vrt.GoWorker(fmt.Sprintf("g%d", i), func() {
			p, err := w.sess.Proxy("Probe", 1)
			if err != nil {
				errs[i] = err
				return
			}
			v, err := probe.MakeProbe(w.sess, p).Echo(int32(20 + i))
			if err == nil && v != probe.EchoResult(int32(20+i)) {
				err = fmt.Errorf("wrong result %d", v)
			}
			errs[i] = err
		}))
	}
	if concurrent {
		ws = append(ws, vrt.GoWorker("cutter", func() { mine.Peer().Close() }))
	}
	vrt.Quiesce()
	fx.Settle(ws...)
	for i, err := range errs {
		if err != nil && !concurrent {
			vrt.Failf("request-failed/after-connection-loss", "g%d: after the connection to tcp://b was lost, Proxy(Probe) or its first call failed: %v", i, err)
		}
		if err != nil {
			vrt.Flag("request-hit-by-the-cut")
		}
	}
	// whatever happened to the requests in flight, the session recovers
	p, err := w.sess.Proxy("Probe", 1)
	if err != nil {
		vrt.Failf("session-broken/after-connection-loss", "Proxy(Probe) still fails after the lost connection was noticed: %v", err)
	} else if v, err := probe.MakeProbe(w.sess, p).Echo(99); err != nil || v != probe.EchoResult(99) {
		vrt.Failf("session-broken/after-connection-loss", "echo through a proxy obtained after the connection loss fails: %v", err)
	}
	if n := vnet.OpenClientConns("tcp://b") - 1; n > 1 {
		vrt.Failf("duplicate-connection/tcp://b", "the session holds %d open connections to tcp://b after reconnecting", n)
	}
	if vnet.Dials["tcp://b"] >= 3 {
		vrt.Flag("dialled-again:tcp://b")
	}
	fx.Settle()
	vrt.Observe("concurrent=%v errs=%v dials=%d open=%d", concurrent, errs[0] != nil || errs[1] != nil, vnet.Dials["tcp://b"], vnet.OpenClientConns("tcp://b"))
}

// unreachable: a registered service advertised only with addresses that are
// never dialled (the 198.18.0.x test range) or that nobody listens on: the
// request cannot succeed, but it must fail with an error - not crash - and
// the session keeps working.
func unreachable() {
	w := start(false)
	kind := vrt.ChooseFree(3, "addresses: test-range only / dead only / both")
	eps := [][]string{{"tcp://198.18.0.1:9559"}, {"tcp://nobody"}, {"tcp://198.18.0.1:9559", "tcp://nobody"}}[kind]
	hs, err := session.NewSession("tcp://sd")
	if err != nil {
		panic(err)
	}
	ns, err := services.Namespace(hs, eps)
	if err != nil {
		panic(err)
	}
	id, err := ns.Reserve("Ghost")
	if err != nil {
		vrt.Failf("harness/reserve", "%v", err)
		return
	}
	if err := ns.Enable(id); err != nil {
		vrt.Failf("harness/enable", "%v", err)
		return
	}
	vrt.Quiesce()
	vrt.Explore()
	var e1, e2 error
	ws := []*vrt.Thread{
		vrt.GoWorker("ghost", func() { _, e1 = w.sess.Proxy("Ghost", 1) }),
		vrt.GoWorker("probe", func() {
			p, err := w.sess.Proxy("Probe", 1)
			if err == nil {
				_, err = probe.MakeProbe(w.sess, p).Echo(4)
			}
			e2 = err
		}),
	}
	vrt.Quiesce()
	fx.Settle(ws...)
	if e1 == nil {
		vrt.Failf("unreachable-service-proxy", "Proxy(Ghost) succeeded although none of its addresses %v can be connected", eps)
	}
	if e2 != nil {
		vrt.Failf("request-failed/Probe", "a request for a reachable service failed while another one asked for an unreachable service: %v", e2)
	}
	vrt.Observe("kind=%d e1=%v", kind, e1 != nil)
}

// register a service name with arbitrary addresses through a helper session.
func advertise(name string, eps []string) bool {
	hs, err := session.NewSession("tcp://sd")
	if err != nil {
		panic(err)
	}
	ns, err := services.Namespace(hs, eps)
	if err != nil {
		panic(err)
	}
	id, err := ns.Reserve(name)
	if err != nil {
		vrt.Failf("harness/reserve", "%v", err)
		return false
	}
	if err := ns.Enable(id); err != nil {
		vrt.Failf("harness/enable", "%v", err)
		return false
	}
	return true
}

// hung: one of the registered services sits behind an endpoint that accepts
// connections but never answers (not even the authentication): the goroutine
// asking for it waits; the other goroutines, asking for healthy services or
// for connections already pooled, are served.
func hung() {
	w := start(false)
	if _, err := vnet.Listen("tcp", "hung"); err != nil {
		panic(err)
	}
	if !advertise("Hung", []string{"tcp://hung"}) {
		return
	}
	vrt.Quiesce()
	vrt.Explore()
	var e1, e2 error
	ok1, ok2 := false, false
	vrt.GoNamed("asks-hung", func() { w.sess.Proxy("Hung", 1) })
	vrt.Quiesce() // the request for Hung is waiting for an answer that never comes
	w1 := vrt.GoWorker("asks-probe", func() {
		p, err := w.sess.Proxy("Probe", 1)
		if err == nil {
			var v int32
			v, err = probe.MakeProbe(w.sess, p).Echo(5)
			ok1 = err == nil && v == probe.EchoResult(5)
		}
		e1 = err
	})
	w2 := vrt.GoWorker("asks-directory", func() {
		p, err := w.sess.Proxy("ServiceDirectory", 1)
		if err == nil {
			var l []services.ServiceInfo
			l, err = services.MakeServiceDirectory(w.sess, p).Services()
			ok2 = err == nil && len(l) >= 2
		}
		e2 = err
	})
	vrt.Quiesce()
	if !w1.Done() || !w2.Done() {
		vrt.Failf("request-blocked-by-another/hung-endpoint", "while one goroutine waits for an endpoint that never answers, the others are not served (Probe done=%v on %s, ServiceDirectory done=%v on %s)", w1.Done(), w1.BlockedOn(), w2.Done(), w2.BlockedOn())
	} else if !ok1 || !ok2 {
		vrt.Failf("request-failed/hung-endpoint", "requests for healthy services failed while another endpoint hangs: %v / %v", e1, e2)
	}
	vrt.Observe("ok=%v,%v", ok1, ok2)
}

// failedThenAgain: a request that fails remotely (no such object) must not
// make the session forget - or duplicate - the healthy pooled connection.
func failedThenAgain() {
	w := start(false)
	p, err := w.sess.Proxy("Probe", 1)
	if err != nil {
		vrt.Failf("request-failed/Probe", "first request: %v", err)
		return
	}
	vrt.Quiesce()
	vrt.Explore()
	if _, err := w.sess.Proxy("Probe", 424242); err == nil {
		vrt.Failf("proxy-to-missing-object", "Proxy(Probe, 424242) succeeded although the service has no such object")
	}
	vrt.Quiesce()
	errs := make([]error, 2)
	var ws []*vrt.Thread
	for i := 0; i < 2; i++ {
		i := i
		ws = append(ws, vrt.GoWorker(fmt.Sprintf("g%d", i), func() {
			q, err := w.sess.Proxy("Probe", 1)
			if err == nil {
				_, err = probe.MakeProbe(w.sess, q).Echo(int32(30 + i))
			}
			errs[i] = err
		}))
	}
	vrt.Quiesce()
	fx.Settle(ws...)
	for i, e := range errs {
		if e != nil {
			vrt.Failf("request-failed/after-failed-request", "g%d: %v", i, e)
		}
	}
	if v, err := probe.MakeProbe(w.sess, p).Echo(2); err != nil || v != probe.EchoResult(2) {
		vrt.Failf("proxy-not-working/after-failed-request", "the proxy obtained before the failed request no longer works: %v", err)
	}
	if n := vnet.OpenClientConns("tcp://b") - 1; n > 1 {
		vrt.Failf("duplicate-connection/tcp://b", "the session holds %d open connections to tcp://b after a request that failed remotely", n)
	}
	vrt.Observe("dials=%d open=%d", vnet.Dials["tcp://b"], vnet.OpenClientConns("tcp://b"))
}

// twoReferences: two goroutines turn the same object reference into a proxy
// (Session.Object) and call the same method with different arguments while
// both calls are in flight: each gets its own answer (the proxies share the
// pooled connection and its message numbering).
func twoReferences() {
	w := start(false)
	w.impl.Gate = make(chan struct{})
	vrt.Explore()
	res := make([]int32, 2)
	errs := make([]error, 2)
	var ws []*vrt.Thread
	for i := 0; i < 2; i++ {
		i := i
		ws = append(ws, vrt.GoWorker(fmt.Sprintf("g%d", i), func() {
			p, err := w.sess.Object(w.ref)
			if err != nil {
				errs[i] = err
				return
			}
			res[i], errs[i] = probe.MakeProbe(w.sess, p).Slow(int32(11 + i))
		}))
	}
	vrt.Quiesce() // one slow() is held by the gate, the other waits in the mailbox
	for i, t := range ws {
		if t.Done() && errs[i] == nil {
			vrt.Failf("answer-of-another-call/object-reference", "g%d returned %d while the object was still held by the gate", i, res[i])
		}
	}
	close(w.impl.Gate)
	vrt.Quiesce()
	fx.Settle(ws...)
	for i := range ws {
		if errs[i] != nil {
			vrt.Failf("request-failed/Probe-by-reference", "g%d: %v", i, errs[i])
		} else if res[i] != probe.EchoResult(int32(11+i)) {
			vrt.Failf("answer-of-another-call/object-reference", "g%d called slow(%d) through its own proxy of the object reference and received %d; its own arguments give %d", i, 11+i, res[i], probe.EchoResult(int32(11+i)))
		}
	}
	if n := vnet.OpenClientConns("tcp://b") - 1; n > 1 {
		vrt.Failf("duplicate-connection/tcp://b", "the session holds %d open connections to tcp://b", n)
	}
	vrt.Observe("res=%v", res)
}

// sharedReference: one object reference value handed to two goroutines (the
// usual case: a reference returned by a method is given to a pool of
// workers); the connection is pooled already, so what is explored, at
// statement level (bus/proxy.go, bus/session/session.go), is the construction
// of the two proxies from the same reference and their first calls.
func sharedReference() {
	w := start(false)
	if vrt.ChooseFree(2, "meta-object of the reference: as the server describes it / the interface only") == 1 {
		// a reference as a stub that only knows its interface would hand it
		// out: the generic object actions (registerEvent, metaObject...) are
		// not part of the description
		w.ref.MetaObject = probe.ProbeMeta()
	}
	before := fmt.Sprint(len(w.ref.MetaObject.Methods), len(w.ref.MetaObject.Signals), len(w.ref.MetaObject.Properties))
	defer func() {
		if after := fmt.Sprint(len(w.ref.MetaObject.Methods), len(w.ref.MetaObject.Signals), len(w.ref.MetaObject.Properties)); after != before {
			// not judged (the statement does not speak of it): recorded, because
			// a reference shared by goroutines is then written concurrently
			vrt.Flag("object-reference-modified-by-Session.Object")
		}
	}()
	// the connection to the service's endpoint is pooled by a request by name,
	// so that the two concurrent requests below are the first users of the
	// reference value
	if _, err := w.sess.Proxy("Probe", 1); err != nil {
		vrt.Failf("harness/first-proxy", "%v", err)
		return
	}
	vrt.Quiesce()
	vrt.Explore()
	vrt.SetFine(true)
	res := make([]int32, 2)
	errs := make([]error, 2)
	var ws []*vrt.Thread
	for i := 0; i < 2; i++ {
		i := i
		ws = append(ws, vrt.GoWorker(fmt.Sprintf("g%d", i), func() {
			p, err := w.sess.Object(w.ref)
			if err != nil {
				errs[i] = err
				return
			}
			vrt.SetFine(false)
			res[i], errs[i] = probe.MakeProbe(w.sess, p).Echo(int32(21 + i))
		}))
	}
	vrt.Quiesce()
	vrt.SetFine(false)
	fx.Settle(ws...)
	for i := range ws {
		if errs[i] != nil {
			vrt.Failf("request-failed/Probe-by-reference", "g%d: %v", i, errs[i])
		} else if res[i] != probe.EchoResult(int32(21+i)) {
			vrt.Failf("answer-of-another-call/object-reference", "g%d called echo(%d) and received %d", i, 21+i, res[i])
		}
	}
	if n := vnet.OpenClientConns("tcp://b") - 1; n > 1 {
		vrt.Failf("duplicate-connection/tcp://b", "the session holds %d open connections to tcp://b", n)
	}
	vrt.Observe("res=%v", res)
}

func init() {
	reg.Register(&reg.Scenario{Property: "C19", Name: "shared-reference-statement-level", Body: sharedReference, Quick: 1, Thorough: 2,
		Doc: "two goroutines build a proxy from the SAME object reference value (connection already pooled) and call it; bus/proxy.go and bus/session/session.go interleaved at statement level, Go map accesses announced"})
	reg.Register(&reg.Scenario{Property: "C19", Name: "two-object-references-in-flight", Body: twoReferences, Quick: 1, Thorough: 2,
		Doc: "two goroutines obtain Object(reference to Probe) from the session and call slow(11) / slow(12), both in flight behind a gate: each receives its own answer over the shared connection"})
	reg.Register(&reg.Scenario{Property: "C19", Name: "hung-endpoint", Body: hung, Quick: 1, Thorough: 2,
		Doc: "one goroutine asks for a service whose endpoint accepts but never answers; two others ask for a healthy new endpoint and for the pooled directory connection: they are served"})
	reg.Register(&reg.Scenario{Property: "C19", Name: "failed-request-then-requests", Body: failedThenAgain, Quick: 1, Thorough: 2,
		Doc: "Proxy(Probe) succeeds, Proxy(Probe, no-such-object) fails remotely, then two goroutines ask again: same pooled connection, earlier proxy still works"})
	reg.Register(&reg.Scenario{Property: "C19", Name: "three-mixed-several-addresses", Body: body([]string{"Probe", "ServiceDirectory", "Other"}, false, true), Quick: 1, Thorough: 2,
		Doc: "three-mixed with both hosts advertised with a common test-range address, a common dead address and their real one"})
	reg.Register(&reg.Scenario{Property: "C19", Name: "unreachable-service", Body: unreachable, Quick: 1, Thorough: 2,
		Doc: "a registered service whose advertised addresses are never dialled (test range) or dead: its request fails with an error, no crash, while another goroutine gets a working proxy to a reachable service"})
	reg.Register(&reg.Scenario{Property: "C19", Name: "reconnect-after-connection-loss", Body: reconnect, Quick: 2, Thorough: 3,
		Doc: "the pooled connection to an endpoint is closed by the remote side (before, or while, two goroutines request proxies): the session dials again, the requests succeed and share one connection", MustFlag: []string{"dialled-again:tcp://b"}})
	reg.Register(&reg.Scenario{Property: "C19", Name: "two-services-one-endpoint", Body: body([]string{"Probe", "Probe2"}, false), Quick: 1, Thorough: 2,
		Doc: "two goroutines request two DIFFERENT services hosted behind the same, not yet connected endpoint: both succeed, one connection to that endpoint"})
	reg.Register(&reg.Scenario{Property: "C19", Name: "requests-during-directory-churn", Body: body([]string{"Probe", "churn", "Probe-by-reference"}, false), Quick: 1, Thorough: 2,
		Doc: "a Proxy and an Object request while another participant registers, readies and unregisters an unrelated service (the directory's signals make the session refresh its service list): every request for a registered service succeeds"})
	reg.Register(&reg.Scenario{Property: "C19", Name: "two-same-endpoint", Body: body([]string{"Probe", "Probe"}, false), Quick: 1, Thorough: 2,
		Doc: "two goroutines request a proxy to the same not-yet-connected service and call it", MustFlag: []string{"dialled-twice:tcp://b"}})
	reg.Register(&reg.Scenario{Property: "C19", Name: "two-same-endpoint-several-addresses", Body: body([]string{"Probe", "Probe-by-reference"}, false, true), Quick: 1, Thorough: 2,
		Doc: "Proxy(Probe) || Object(reference to Probe) for a service advertised with three addresses (a test-range one, one nobody listens on, the real one)", MustFlag: []string{"dialled-twice:tcp://b"}})
	reg.Register(&reg.Scenario{Property: "C19", Name: "two-shared-connection", Body: body([]string{"ServiceDirectory", "ServiceDirectory"}, false), Quick: 2, Thorough: 3,
		Doc: "two goroutines request a proxy over the session's existing directory connection and call it (shared client)"})
	reg.Register(&reg.Scenario{Property: "C19", Name: "proxy-and-object-reference", Body: body([]string{"Probe", "Probe-by-reference"}, false), Quick: 1, Thorough: 2,
		Doc: "one goroutine requests Proxy(Probe), another Object(reference to Probe): same not-yet-connected endpoint", MustFlag: []string{"dialled-twice:tcp://b"}})
	reg.Register(&reg.Scenario{Property: "C19", Name: "three-mixed", Body: body([]string{"Probe", "ServiceDirectory", "Other"}, false), Quick: 1, Thorough: 2,
		Doc: "three goroutines: a new endpoint, the directory's existing connection, another new endpoint"})
	reg.Register(&reg.Scenario{Property: "C19", Name: "two-same-endpoint-statement-level", Body: body([]string{"Probe", "Probe"}, true), Quick: 1, Thorough: 2,
		Doc: "two-same-endpoint with bus/session/session.go interleaved at statement level"})
	reg.Register(&reg.Scenario{Property: "C19", Name: "three-mixed-statement-level", Body: body([]string{"Probe", "ServiceDirectory", "Other"}, true), Quick: 1, Thorough: 2,
		Doc: "three-mixed with bus/session/session.go interleaved at statement level"})
}
