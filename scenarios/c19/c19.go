// Package c19 holds the engine-B scenarios of property C19: a session can be
// shared by concurrent goroutines.
package c19

import (
	"fmt"

	"github.com/lugu/qiloop/bus"
	"github.com/lugu/qiloop/bus/directory"
	"github.com/lugu/qiloop/bus/services"
	"github.com/lugu/qiloop/bus/session"
	"github.com/lugu/qiloop/type/object"

	"verif/rt/vnet"
	"verif/rt/vrt"
	"verif/scenarios/fx"
	"verif/scenarios/probe"
	"verif/scenarios/reg"
)

type world struct {
	impl *probe.Impl
	sess bus.Session
	ref  object.ObjectReference // reference to the Probe service object
}

// start: a directory on tcp://sd, a second server on tcp://b hosting the
// probe service (and a third on tcp://c hosting another one), and the session
// under test.
func start(twoHosts bool) *world {
	if _, err := directory.NewServer("tcp://sd", bus.Yes{}); err != nil {
		panic(err)
	}
	w := &world{impl: probe.New("root")}
	host := func(addr, name string, impl *probe.Impl) {
		s, err := session.NewSession("tcp://sd")
		if err != nil {
			panic(fmt.Sprintf("host session: %v", err))
		}
		srv, err := services.NewServer(s, addr, bus.Yes{})
		if err != nil {
			panic(fmt.Sprintf("host server: %v", err))
		}
		if _, err := srv.NewService(name, probe.ProbeObject(impl)); err != nil {
			panic(fmt.Sprintf("host service: %v", err))
		}
	}
	host("tcp://b", "Probe", w.impl)
	if twoHosts {
		host("tcp://c", "Other", probe.New("other"))
	}
	vrt.Quiesce()
	s, err := session.NewSession("tcp://sd")
	if err != nil {
		panic(fmt.Sprintf("session: %v", err))
	}
	w.sess = s
	vrt.Quiesce()
	// an object reference to the probe service, as a method returning an
	// object would deliver it (obtained through a separate session)
	s2, err := session.NewSession("tcp://sd")
	if err != nil {
		panic(err)
	}
	px, err := s2.Proxy("Probe", 1)
	if err != nil {
		panic(fmt.Sprintf("reference proxy: %v", err))
	}
	w.ref = bus.ObjectReference(px)
	vrt.Quiesce()
	return w
}

type req struct {
	name    string
	service string
	done    bool
	err     error
	ok      bool
}

func body(services_ []string, fine bool) func() {
	return func() {
		twoHosts := false
		for _, s := range services_ {
			if s == "Other" {
				twoHosts = true
			}
		}
		w := start(twoHosts)
		vrt.Explore()
		vrt.SetFine(fine)
		var reqs []*req
		var ws []*vrt.Thread
		for i, svc := range services_ {
			r := &req{name: fmt.Sprintf("g%d", i), service: svc}
			reqs = append(reqs, r)
			arg := int32(10 + i)
			ws = append(ws, vrt.GoWorker(r.name, func() {
				defer func() { r.done = true }()
				var p bus.Proxy
				var err error
				if r.service == "Probe-by-reference" {
					// Session.Object: a proxy from an object reference
					p, err = w.sess.Object(w.ref)
				} else {
					p, err = w.sess.Proxy(r.service, 1)
				}
				if err != nil {
					r.err = err
					return
				}
				switch r.service {
				case "ServiceDirectory":
					sd := services.MakeServiceDirectory(w.sess, p)
					l, err := sd.Services()
					r.err = err
					r.ok = err == nil && len(l) >= 2
				default:
					v, err := probe.MakeProbe(w.sess, p).Echo(arg)
					r.err = err
					r.ok = err == nil && v == probe.EchoResult(arg)
				}
			}))
		}
		vrt.Quiesce()
		fx.Settle(ws...)
		for _, r := range reqs {
			if !r.done {
				continue
			}
			if r.err != nil {
				vrt.Failf("request-failed/"+r.service, "%s: Proxy(%q) or its first call failed: %v", r.name, r.service, r.err)
			} else if !r.ok {
				vrt.Failf("proxy-not-working/"+r.service, "%s: the proxy to %q returned a wrong result", r.name, r.service)
			}
		}
		// at most one connection per remote endpoint, shared by the proxies
		for _, addr := range []string{"tcp://sd", "tcp://b", "tcp://c"} {
			// the hosting sessions hold their own connections to the directory
			extra := 0
			if addr == "tcp://sd" {
				extra = 2 // the hosting session and the reference session
				if twoHosts {
					extra = 3
				}
			}
			if addr == "tcp://b" {
				extra = 1 // the reference session's own connection
			}
			if n := vnet.OpenClientConns(addr) - extra; n > 1 {
				vrt.Failf("duplicate-connection/"+addr, "the session holds %d open connections to %s", n, addr)
			}
			if vnet.Dials[addr]-extra > 1 {
				vrt.Flag("dialled-twice:" + addr)
			}
		}
		// the session still works afterwards
		p, err := w.sess.Proxy("Probe", 1)
		if err != nil {
			vrt.Failf("session-broken", "Proxy(Probe) fails after the concurrent requests: %v", err)
		} else if v, err := probe.MakeProbe(w.sess, p).Echo(99); err != nil || v != probe.EchoResult(99) {
			vrt.Failf("session-broken", "echo through a later proxy fails: %v", err)
		}
		if n := vnet.OpenClientConns("tcp://b") - 1; n > 1 {
			vrt.Failf("duplicate-connection/tcp://b", "the session holds %d open connections to tcp://b after a later request", n)
		}
		fx.Settle()
		vrt.Observe("dials b=%d c=%d open b=%d", vnet.Dials["tcp://b"], vnet.Dials["tcp://c"], vnet.OpenClientConns("tcp://b"))
	}
}

func init() {
	reg.Register(&reg.Scenario{Property: "C19", Name: "two-same-endpoint", Body: body([]string{"Probe", "Probe"}, false), Quick: 1, Thorough: 2,
		Doc: "two goroutines request a proxy to the same not-yet-connected service and call it", MustFlag: []string{"dialled-twice:tcp://b"}})
	reg.Register(&reg.Scenario{Property: "C19", Name: "two-shared-connection", Body: body([]string{"ServiceDirectory", "ServiceDirectory"}, false), Quick: 2, Thorough: 3,
		Doc: "two goroutines request a proxy over the session's existing directory connection and call it (shared client)"})
	reg.Register(&reg.Scenario{Property: "C19", Name: "proxy-and-object-reference", Body: body([]string{"Probe", "Probe-by-reference"}, false), Quick: 1, Thorough: 2,
		Doc: "one goroutine requests Proxy(Probe), another Object(reference to Probe): same not-yet-connected endpoint", MustFlag: []string{"dialled-twice:tcp://b"}})
	reg.Register(&reg.Scenario{Property: "C19", Name: "three-mixed", Body: body([]string{"Probe", "ServiceDirectory", "Other"}, false), Quick: 1, Thorough: 2,
		Doc: "three goroutines: a new endpoint, the directory's existing connection, another new endpoint"})
	reg.Register(&reg.Scenario{Property: "C19", Name: "two-same-endpoint-statement-level", Body: body([]string{"Probe", "Probe"}, true), Quick: 1, Thorough: 2,
		Doc: "two-same-endpoint with bus/session/session.go interleaved at statement level"})
	reg.Register(&reg.Scenario{Property: "C19", Name: "three-mixed-statement-level", Body: body([]string{"Probe", "ServiceDirectory", "Other"}, true), Quick: 1, Thorough: 2,
		Doc: "three-mixed with bus/session/session.go interleaved at statement level"})
}
