// Package c14 holds the engine-B scenarios of property C14: a property is an
// atomic, typed register with validated writes and change events.
package c14

import (
	"bytes"
	"context"
	"fmt"
	"sort"
	"strings"

	"github.com/anishathalye/porcupine"
	"github.com/lugu/qiloop/bus"
	"github.com/lugu/qiloop/bus/net"
	"github.com/lugu/qiloop/type/basic"
	"github.com/lugu/qiloop/type/object"
	"github.com/lugu/qiloop/type/value"

	"verif/rt/vnet"
	"verif/rt/vrt"
	"verif/scenarios/fx"
	"verif/scenarios/probe"
	"verif/scenarios/reg"
)

type in struct {
	get bool
	v   int32
}

type out struct {
	v  int32
	ok bool
}

// register is the sequential reference model: a get returns the value of the
// latest accepted write; a refused write changes nothing.
var register = porcupine.Model{
	Init: func() interface{} { return int32(probe.InitialLevel) },
	Step: func(state, input, output interface{}) (bool, interface{}) {
		s, i, o := state.(int32), input.(in), output.(out)
		if i.get {
			return o.ok && o.v == s, s
		}
		if o.ok {
			return true, i.v
		}
		return true, s
	},
	DescribeOperation: func(input, output interface{}) string {
		i, o := input.(in), output.(out)
		if i.get {
			return fmt.Sprintf("get() -> %d,%v", o.v, o.ok)
		}
		return fmt.Sprintf("set(%d) -> %v", i.v, o.ok)
	},
}

type history struct {
	ops []porcupine.Operation
}

func (h *history) record(client int, i in, f func() out) out {
	call := int64(vrt.Step())
	o := f()
	h.ops = append(h.ops, porcupine.Operation{ClientId: client, Input: i, Call: call, Output: o, Return: int64(vrt.Step())})
	return o
}

var w2ops = []string{"set(7)", "set(-1)", "set-wrong-type-(i)", "set-wrong-type-I", "set-wrong-type-s", "set-by-id(8)", "set-wrong-type-I-by-id", "set-wrong-type-s-by-id"}

func rawInt(v int32) []byte {
	var b bytes.Buffer
	basic.WriteInt32(v, &b)
	return b.Bytes()
}

func body(fine bool) func() {
	return func() {
		w := fx.Start(bus.Yes{})
		c1, c2, c3 := w.MustConnect(), w.MustConnect(), w.MustConnect()
		p1, p2, p3 := c1.Probe(1), c2.Probe(1), c3.Probe(1)
		// two more subscribers registered BEFORE the observed one (so that it
		// is the last entry of the server's table); the middle one leaves
		// while the writes are going on
		var events4 []int32
		c4, c5 := w.MustConnect(), w.MustConnect()
		_, ch4, err4 := c4.Probe(1).SubscribeLevel()
		cancel5, ch5, err5 := c5.Probe(1).SubscribeLevel()
		if err4 != nil || err5 != nil {
			vrt.Failf("harness/subscribe", "%v %v", err4, err5)
			return
		}
		vrt.GoNamed("event-drain-4", func() {
			for v := range ch4 {
				events4 = append(events4, v)
			}
		})
		vrt.GoNamed("event-drain-5", func() {
			for range ch5 {
			}
		})
		var events []int32
		_, ch, err := p3.SubscribeLevel()
		if err != nil {
			vrt.Failf("harness/subscribe", "%v", err)
			return
		}
		vrt.GoNamed("event-drain", func() {
			for v := range ch {
				events = append(events, v)
			}
		})
		local := probe.MakeProbe(nil, bus.NewProxy(bus.DirectClient(w.Actor), object.FullMetaObject(probe.ProbeMeta()), w.ServiceID, 1))
		variant := w2ops[vrt.ChooseFree(len(w2ops), "second-writer")]
		vrt.Explore()
		vrt.SetFine(fine)
		h := &history{}
		var accepted []int32
		getFailed := ""
		set := func(client int, v int32, f func() error) {
			o := h.record(client, in{false, v}, func() out { return out{ok: f() == nil} })
			if o.ok {
				accepted = append(accepted, v)
			}
		}
		get := func(client int, p probe.ProbeProxy) {
			h.record(client, in{get: true}, func() out {
				v, err := p.GetLevel()
				if err != nil {
					getFailed = err.Error()
				}
				return out{v, err == nil}
			})
		}
		wrongAccepted := ""
		w1 := vrt.GoWorker("client1", func() {
			set(1, 5, func() error { return p1.SetLevel(5) })
			get(1, p1)
		})
		w2 := vrt.GoWorker("client2", func() {
			switch variant {
			case "set(7)":
				set(2, 7, func() error { return p2.SetLevel(7) })
			case "set(-1)":
				set(2, -1, func() error { return p2.SetLevel(-1) })
			case "set-by-id(8)":
				// the property may also be named by its numeric id
				set(2, 8, func() error { return p2.SetProperty(value.Uint(107), value.Opaque("i", rawInt(8))) })
			default:
				var val value.Value
				switch variant {
				case "set-wrong-type-(i)":
					val = value.Opaque("(i)", rawInt(6))
				case "set-wrong-type-I":
					val = value.Uint(6)
				case "set-wrong-type-s":
					val = value.String("abcd")
				case "set-wrong-type-I-by-id":
					val = value.Uint(6)
				case "set-wrong-type-s-by-id":
					val = value.String("abcd")
				}
				// the property is named by its string name or by its numeric id
				var name value.Value = value.String("level")
				if variant == "set-wrong-type-I-by-id" || variant == "set-wrong-type-s-by-id" {
					name = value.Uint(107)
				}
				// a wrongly-typed write must be refused and change nothing
				o := h.record(2, in{false, 6}, func() out {
					err := p2.SetProperty(name, val)
					return out{ok: err == nil}
				})
				if o.ok {
					wrongAccepted = variant
				}
			}
			get(2, p2)
		})
		w3 := vrt.GoWorker("service", func() {
			set(3, 9, func() error { return w.Root.Helper.UpdateLevel(9) })
			// a service-side update refused by the service's own validator
			set(3, -3, func() error { return w.Root.Helper.UpdateLevel(-3) })
		})
		w4 := vrt.GoWorker("leaver", func() { cancel5() })
		// a local proxy of the same object (bus.DirectClient, as every
		// generated Create<X> constructor hands out): its requests go
		// through a second mailbox and overlap those of the remote clients
		w5 := vrt.GoWorker("local-proxy", func() {
			set(4, -6, func() error { return local.SetLevel(-6) })
			set(4, 6, func() error { return local.SetLevel(6) })
		})
		vrt.Quiesce()
		fx.Settle(w1, w2, w3, w4, w5)
		if wrongAccepted != "" {
			vrt.Failf("wrongly-typed-write-accepted/"+wrongAccepted, "setProperty(level, %s) reported success", wrongAccepted)
		}
		// final reads: declared type, latest accepted value
		raw, err := p1.Property(value.String("level"))
		if err != nil {
			vrt.Failf("final-read-failed", "property(level) fails after the history (%s): %v", variant, err)
		} else if sig := raw.Signature(); sig != "i" {
			vrt.Failf("property-type-changed/"+variant, "property(level) now has signature %q instead of i after %s", sig, variant)
		}
		get(1, p1)
		if getFailed != "" {
			vrt.Failf("get-failed/"+variant, "GetLevel failed on a healthy system after %s: %s", variant, getFailed)
		} else if !porcupine.CheckOperations(register, h.ops) {
			desc := ""
			for _, o := range h.ops {
				desc += fmt.Sprintf("[c%d %s @%d-%d] ", o.ClientId, register.DescribeOperation(o.Input, o.Output), o.Call, o.Return)
			}
			vrt.Failf("not-linearizable/"+variant, "no sequential order of the register explains: %s", desc)
		}
		// exactly one change event per accepted write
		a := append([]int32(nil), accepted...)
		e := append([]int32(nil), events...)
		sort.Slice(a, func(i, j int) bool { return a[i] < a[j] })
		sort.Slice(e, func(i, j int) bool { return e[i] < e[j] })
		if fmt.Sprint(a) != fmt.Sprint(e) {
			vrt.Failf("events-differ-from-accepted-writes/"+variant, "accepted writes %v, change events received %v", a, e)
		}
		e4 := append([]int32(nil), events4...)
		sort.Slice(e4, func(i, j int) bool { return e4[i] < e4[j] })
		if fmt.Sprint(a) != fmt.Sprint(e4) {
			vrt.Failf("events-differ-from-accepted-writes-other-subscriber/"+variant, "accepted writes %v, change events received by the first subscriber %v", a, e4)
		}
		if len(w.Root.Rejected) > 0 {
			vrt.Flag("validator-rejected")
		}
		if len(events) >= 2 && events[0] != 5 {
			vrt.Flag("writes-reordered")
		}
		vrt.Observe("%s accepted=%v events=%v", variant, accepted, events)
	}
}

// histories: sequential subscribe / write / cancel histories on the level
// property. Every accepted write (by a client, by name or by numeric id, or
// by the service) reaches each subscriber of the moment exactly once, in
// order; refused writes reach nobody; reads return the latest accepted value.
func histories(sameClient bool) func() {
	return func() {
		w := fx.Start(bus.Yes{})
		c1 := w.MustConnect()
		c2 := c1
		if !sameClient {
			c2 = w.MustConnect()
		}
		cw := w.MustConnect() // the writer's own connection
		pA, pB, pW := c1.Probe(1), c2.Probe(1), cw.Probe(1)
		order := vrt.ChooseFree(2, "who-leaves-first")
		third := vrt.ChooseFree(2, "third-subscriber-connection")
		mode := vrt.ChooseFree(3, "object-mode")
		switch mode {
		case 1:
			if err := pW.EnableStats(true); err != nil {
				vrt.Failf("harness/enable-stats", "%v", err)
			}
		case 2:
			if err := pW.EnableTrace(true); err != nil {
				vrt.Failf("harness/enable-trace", "%v", err)
			}
		}
		vrt.Explore()
		type window struct {
			name   string
			got    []int32
			closed bool
			cancel func()
			err    error
		}
		subscribe := func(name string, p probe.ProbeProxy) *window {
			x := &window{name: name}
			cancel, ch, err := p.SubscribeLevel()
			if err != nil {
				x.err = err
				vrt.Failf("history-subscribe-failed/"+name, "subscribing to the level property failed: %v", err)
				return x
			}
			x.cancel = cancel
			vrt.GoNamed("drain-"+name, func() {
				for v := range ch {
					x.got = append(x.got, v)
				}
				x.closed = true
			})
			return x
		}
		expect := map[string][]int32{}
		open := map[string]bool{}
		current := int32(probe.InitialLevel)
		n := int32(10)
		ctx := func() string {
			return fmt.Sprintf("first leaver %d, third subscriber on connection %d, object mode %d [0 plain, 1 statistics, 2 tracing]", order, third+1, mode)
		}
		accepted := func(v int32) {
			current = v
			for name, o := range open {
				if o {
					expect[name] = append(expect[name], v)
				}
			}
		}
		// one round of writes: client by name, refused, service, client by id
		step := func() {
			n++
			if err := pW.SetLevel(n); err != nil {
				vrt.Failf("history-write-refused", "SetLevel(%d) failed (%s): %v", n, ctx(), err)
			} else {
				accepted(n)
			}
			if err := pW.SetLevel(-n); err == nil {
				vrt.Failf("history-invalid-write-accepted", "SetLevel(%d) succeeded although the validator refuses negative levels (%s)", -n, ctx())
			}
			if err := pW.SetProperty(value.String("level"), value.String("x")); err == nil {
				vrt.Failf("history-wrongly-typed-write-accepted", "setProperty(level, \"x\") succeeded (%s)", ctx())
			}
			// the same value again: still an accepted write, still one event
			if err := pW.SetLevel(n); err != nil {
				vrt.Failf("history-write-refused", "SetLevel(%d) a second time failed (%s): %v", n, ctx(), err)
			} else {
				accepted(n)
			}
			n++
			if err := w.Root.Helper.UpdateLevel(n); err != nil {
				vrt.Failf("history-write-refused", "service-side UpdateLevel(%d) failed (%s): %v", n, ctx(), err)
			} else {
				accepted(n)
			}
			// the same value again through the service-side helper: an accepted
			// write like the client's repeated SetLevel above, one more event
			if err := w.Root.Helper.UpdateLevel(n); err != nil {
				vrt.Failf("history-write-refused", "service-side UpdateLevel(%d) a second time failed (%s): %v", n, ctx(), err)
			} else {
				accepted(n)
			}
			if err := w.Root.Helper.UpdateLevel(-n); err == nil {
				vrt.Failf("history-invalid-write-accepted", "service-side UpdateLevel(%d) succeeded (%s)", -n, ctx())
			}
			n++
			if err := pW.SetProperty(value.Uint(107), value.Opaque("i", rawInt(n))); err != nil {
				vrt.Failf("history-write-refused", "setProperty(107, %d) failed (%s): %v", n, ctx(), err)
			} else {
				accepted(n)
			}
			// writes that name no property change nothing
			for _, bad := range []struct {
				what string
				name value.Value
			}{{"an unknown name", value.String("nosuch")}, {"an unknown numeric id", value.Uint(9999)}, {"a name of the wrong type", value.Int(107)}} {
				if err := pW.SetProperty(bad.name, value.Opaque("i", rawInt(n))); err == nil {
					vrt.Failf("history-unknown-property-written", "setProperty with %s succeeded (%s)", bad.what, ctx())
				}
			}
			if _, err := pW.Property(value.String("nosuch")); err == nil {
				vrt.Failf("history-unknown-property-read", "property(\"nosuch\") succeeded (%s)", ctx())
			}
			if names, err := pW.Properties(); err != nil || fmt.Sprint(names) != "[level]" {
				vrt.Failf("history-property-list-differs", "properties() returned %v, %v; the object declares [level] (%s)", names, err, ctx())
			}
			vrt.Quiesce()
			if v, err := pA.GetLevel(); err != nil || v != current {
				vrt.Failf("history-read-differs", "GetLevel returned %d, %v; the latest accepted write is %d (%s)", v, err, current, ctx())
			}
		}
		a := subscribe("A", pA)
		// the same client also follows a signal of the same object and stops
		// following it later: its property subscription is not affected
		cancelTick, tickCh, tickErr := pA.SubscribeTick()
		if tickErr != nil {
			vrt.Failf("harness/subscribe-tick", "%v", tickErr)
		} else {
			vrt.GoNamed("drain-tick", func() {
				for range tickCh {
				}
			})
		}
		vrt.Quiesce()
		open["A"] = true
		step()
		if tickErr == nil {
			cancelTick()
			vrt.Quiesce()
		}
		step()
		b := subscribe("B", pB)
		vrt.Quiesce()
		open["B"] = true
		step()
		first, second, fn, sn := a, b, "A", "B"
		if order == 1 {
			first, second, fn, sn = b, a, "B", "A"
		}
		stop := func(x *window) {
			if x.cancel != nil {
				x.cancel()
			}
			vrt.Quiesce()
		}
		stop(first)
		open[fn] = false
		step()
		stop(second)
		open[sn] = false
		step()
		pC := pA
		if third == 1 {
			pC = pB
		}
		c := subscribe("C", pC)
		vrt.Quiesce()
		open["C"] = true
		step()
		stop(c)
		open["C"] = false
		step()
		for _, win := range []*window{a, b, c} {
			if win.err != nil {
				continue
			}
			if fmt.Sprint(win.got) != fmt.Sprint(expect[win.name]) {
				clause := "history-events-differ/"
				if len(win.got) > len(expect[win.name]) {
					clause = "history-event-duplicated/"
				}
				vrt.Failf(clause+win.name, "sequential history (%s): subscriber %s received %v, the writes accepted while it was subscribed are %v", ctx(), win.name, win.got, expect[win.name])
			}
			if !win.closed {
				vrt.Failf("history-channel-not-closed/"+win.name, "the channel of subscriber %s is still open after its cancellation (%s)", win.name, ctx())
			}
		}
		fx.Settle()
		vrt.Observe("order=%d third=%d mode=%d", order, third, mode)
	}
}

// brokenSubscriber: one of the subscribers sits behind a connection the
// server can no longer write to (and is still registered). Writes by a client
// and by the service are judged as usual: stored, readable, announced once to
// the healthy subscriber.
func brokenSubscriber() {
	w := fx.Start(bus.Yes{})
	cw, ch, cx := w.MustConnect(), w.MustConnect(), w.MustConnect()
	pW, pH, pX := cw.Probe(1), ch.Probe(1), cx.Probe(1)
	first := vrt.ChooseFree(2, "broken-subscriber-registered-first") == 1
	var events []int32
	subH := func() {
		_, c, err := pH.SubscribeLevel()
		if err != nil {
			vrt.Failf("harness/subscribe", "%v", err)
			return
		}
		vrt.GoNamed("drain-H", func() {
			for v := range c {
				events = append(events, v)
			}
		})
	}
	subX := func() {
		if _, c, err := pX.SubscribeLevel(); err == nil {
			vrt.GoNamed("drain-X", func() {
				for range c {
				}
			})
		} else {
			vrt.Failf("harness/subscribe", "%v", err)
		}
	}
	if first {
		subX()
		subH()
	} else {
		subH()
		subX()
	}
	vrt.Quiesce()
	// from now on every write of the server towards X fails; X stays connected
	cx.Raw.Peer().OnOp = func(kind string, idx int) *vnet.Fault {
		if kind == "write" {
			return &vnet.Fault{Kind: "werr"}
		}
		return nil
	}
	vrt.Explore()
	var accepted []int32
	current := int32(probe.InitialLevel)
	judge := func(what string, v int32, err error) {
		serviceSide := strings.HasPrefix(what, "Update")
		got, gerr := pW.GetLevel()
		switch {
		case gerr != nil:
			vrt.Failf("get-failed/broken-subscriber", "GetLevel failed after %s: %v", what, gerr)
		case err == nil && got != v:
			vrt.Failf("write-lost/broken-subscriber", "%s succeeded but GetLevel returns %d", what, got)
		case err != nil && got != current && !serviceSide:
			vrt.Failf("refused-write-took-effect/broken-subscriber", "%s was answered with an error (%v) but GetLevel now returns %d instead of %d", what, err, got, current)
		case err != nil && serviceSide && got != v && got != current:
			// the service-side helper may report the unreachable subscriber
			// to its local caller (not judged, as for signals in C13); the
			// value is either stored or not
			vrt.Failf("write-lost/broken-subscriber", "%s reported %v and GetLevel returns %d", what, err, got)
		}
		if gerr == nil && got == v && v != current {
			accepted = append(accepted, v)
			current = v
		}
	}
	judge("SetLevel(5)", 5, pW.SetLevel(5))
	vrt.Quiesce()
	judge("UpdateLevel(9)", 9, w.Root.Helper.UpdateLevel(9))
	vrt.Quiesce()
	if err := pW.SetLevel(-4); err == nil {
		vrt.Failf("invalid-write-accepted/broken-subscriber", "SetLevel(-4) succeeded")
	}
	judge("SetLevel(7)", 7, pW.SetLevel(7))
	vrt.Quiesce()
	if fmt.Sprint(events) != fmt.Sprint(accepted) {
		vrt.Failf("events-differ-from-accepted-writes/broken-subscriber", "values stored %v, change events received by the healthy subscriber %v", accepted, events)
	}
	vrt.Observe("first=%v accepted=%v events=%v", first, accepted, events)
}

// cancelledWrite: a client write is cancelled (context done) while it waits
// in the object's mailbox behind a slow call. Whatever the writer is told, the
// write takes effect at most once: at most one event carries its value, and
// the next write is the value read afterwards.
func cancelledWrite() {
	w := fx.Start(bus.Yes{})
	cw, ch := w.MustConnect(), w.MustConnect()
	ctx, stop := context.WithCancel(context.Background())
	pW, pH := cw.Probe(1), ch.Probe(1)
	var events []int32
	_, c, err := pH.SubscribeLevel()
	if err != nil {
		vrt.Failf("harness/subscribe", "%v", err)
		return
	}
	vrt.GoNamed("drain-H", func() {
		for v := range c {
			events = append(events, v)
		}
	})
	w.Root.Gate = make(chan struct{})
	vrt.GoNamed("slow-caller", func() { pH.Slow(1) })
	vrt.Quiesce() // the object is busy in slow(1)
	vrt.Explore()
	var werr error
	done := false
	ww := vrt.GoWorker("writer", func() { werr = pW.WithContext(ctx).SetLevel(5); done = true })
	wc := vrt.GoWorker("canceller", func() { stop() })
	vrt.Quiesce()
	if !done {
		vrt.Failf("hang/cancelled-write", "a write whose context was cancelled did not return")
	}
	close(w.Root.Gate)
	vrt.Quiesce()
	fx.Settle(ww, wc)
	if err := pW.SetLevel(7); err != nil {
		vrt.Failf("call-failed/after-cancelled-write", "SetLevel(7) after a cancelled write failed: %v", err)
	}
	vrt.Quiesce()
	n5 := 0
	for _, v := range events {
		if v == 5 {
			n5++
		}
	}
	if n5 > 1 {
		vrt.Failf("cancelled-write-applied-twice", "a write of 5 that was cancelled while in flight produced %d change events: %v", n5, events)
	}
	if len(events) == 0 || events[len(events)-1] != 7 {
		vrt.Failf("events-differ-from-accepted-writes/cancelled-write", "change events %v: the last accepted write is 7", events)
	}
	if v, err := pW.GetLevel(); err != nil || v != 7 {
		vrt.Failf("read-differs/cancelled-write", "GetLevel returned %d, %v after SetLevel(7); events %v", v, err, events)
	}
	if werr != nil {
		vrt.Flag("writer-told-cancelled")
	}
	vrt.Observe("werr=%v events=%v", werr != nil, events)
}

// propertyCycles: the same proxy follows the level property, sees two accepted
// writes (one by a client, one by the service), stops following, misses one
// write - four times in a row. Each life receives exactly its own two change
// events, once each.
func propertyCycles() {
	w := fx.Start(bus.Yes{})
	cs, cw := w.MustConnect(), w.MustConnect()
	p, pw := cs.Probe(1), cw.Probe(1)
	vrt.Explore()
	n := int32(100)
	write := func(service bool) int32 {
		n++
		var err error
		if service {
			err = w.Root.Helper.UpdateLevel(n)
		} else {
			err = pw.SetLevel(n)
		}
		if err != nil {
			vrt.Failf("write-refused/cycles", "write of %d failed: %v", n, err)
		}
		vrt.Quiesce()
		return n
	}
	for life := 1; life <= 4; life++ {
		cancel, ch, err := p.SubscribeLevel()
		if err != nil {
			vrt.Failf("subscribe-failed/cycles", "subscription number %d to the level property failed: %v", life, err)
			break
		}
		var got []int32
		closed := false
		vrt.GoNamed(fmt.Sprintf("drain-life%d", life), func() {
			for v := range ch {
				got = append(got, v)
			}
			closed = true
		})
		vrt.Quiesce()
		a, b := write(false), write(true)
		cancel()
		vrt.Quiesce()
		write(false)
		if fmt.Sprint(got) != fmt.Sprint([]int32{a, b}) {
			clause := "events-differ-from-accepted-writes"
			if len(got) > 2 {
				clause = "event-duplicated"
			}
			vrt.Failf(fmt.Sprintf("cycles/%s/life%d", clause, life), "subscription number %d of the same proxy to the level property received %v; the writes accepted while it was open are [%d %d]", life, got, a, b)
			break
		}
		if !closed {
			vrt.Failf(fmt.Sprintf("cycles/channel-not-closed/life%d", life), "the channel of subscription number %d is still open after its cancellation", life)
			break
		}
	}
	fx.Settle()
	vrt.Observe("n=%d", n)
}

// burst: a subscriber that does not read while several clients write a burst
// of values (well within the documented capacity of a subscription), then
// reads: it receives every accepted write exactly once.
func burst() {
	w := fx.Start(bus.Yes{})
	cs := w.MustConnect()
	_, ch, err := cs.Probe(1).SubscribeLevel()
	if err != nil {
		vrt.Failf("harness/subscribe", "%v", err)
		return
	}
	writers := []probe.ProbeProxy{w.MustConnect().Probe(1), w.MustConnect().Probe(1), w.MustConnect().Probe(1)}
	vrt.Quiesce()
	vrt.Explore()
	const per = 16 // 48 events wait unread: more than a small queue holds, fewer than the 100 of the client's subscription queue
	var ws []*vrt.Thread
	for i, p := range writers {
		i, p := i, p
		ws = append(ws, vrt.GoWorker(fmt.Sprintf("writer%d", i), func() {
			for k := 0; k < per; k++ {
				v := int32(100*(i+1) + k)
				if err := p.SetLevel(v); err != nil {
					vrt.Failf("write-refused/burst", "SetLevel(%d) failed: %v", v, err)
				}
			}
		}))
	}
	vrt.Quiesce()
	fx.Settle(ws...)
	var events []int32
	vrt.GoNamed("late-reader", func() {
		for v := range ch {
			events = append(events, v)
		}
	})
	vrt.Quiesce()
	seen := map[int32]int{}
	for _, v := range events {
		seen[v]++
	}
	missing, dup := 0, 0
	for i := range writers {
		for k := 0; k < per; k++ {
			switch seen[int32(100*(i+1)+k)] {
			case 0:
				missing++
			case 1:
			default:
				dup++
			}
		}
	}
	if missing > 0 || dup > 0 || len(events) != per*len(writers) {
		vrt.Failf("events-differ-from-accepted-writes/burst", "%d writes were accepted while the subscriber was not reading; once it read it received %d events (%d writes without event, %d announced more than once)", per*len(writers), len(events), missing, dup)
	}
	// per-writer order
	last := map[int32]int32{}
	for _, v := range events {
		if v <= last[v/100] {
			vrt.Failf("event-order/burst", "events of one writer out of order: %v", events)
			break
		}
		last[v/100] = v
	}
	vrt.Observe("events=%d", len(events))
}

// duplicateLink: a raw client registers for the property's events with a link
// id that another connection already uses on the object: it is either refused
// with an error, or it really is subscribed - never told "subscribed" and then
// left without events.
func duplicateLink() {
	w := fx.Start(bus.Yes{})
	first, second := w.RawPeer(), w.RawPeer()
	first.StartDrain()
	second.StartDrain()
	if !first.Authenticate("", "") || !second.Authenticate("", "") {
		vrt.Failf("harness/auth", "raw peers could not authenticate")
		return
	}
	same := vrt.ChooseFree(2, "second registration: same signal / other signal of the object") == 0
	reg1 := func(p *fx.Peer, signal uint32, link uint64) (uint32, bool) {
		id := p.NextID()
		var b bytes.Buffer
		basic.WriteUint32(1, &b)
		basic.WriteUint32(signal, &b)
		basic.WriteUint64(link, &b)
		p.Send(net.Call, w.ServiceID, 1, 0, id, b.Bytes())
		vrt.Quiesce()
		rs := p.Replies(id)
		return id, len(rs) == 1 && rs[0].Hdr.Type == net.Reply
	}
	vrt.Explore()
	if _, ok := reg1(first, 107, 1); !ok {
		vrt.Failf("harness/register", "the first registration was refused")
		return
	}
	signal := uint32(107)
	if !same {
		signal = 105
	}
	_, accepted := reg1(second, signal, 1)
	// one write and one tick
	if err := w.MustConnect().Probe(1).SetLevel(33); err != nil {
		vrt.Failf("write-refused/duplicate-link", "%v", err)
	}
	w.Root.Helper.SignalTick(4)
	vrt.Quiesce()
	count := func(p *fx.Peer, action uint32) int {
		n := 0
		for _, f := range p.Got {
			if f.Hdr.Type == net.Event && f.Hdr.Action == action {
				n++
			}
		}
		return n
	}
	if count(first, 107) != 1 {
		vrt.Failf("events-differ-from-accepted-writes/duplicate-link", "the first subscriber received %d change events for one accepted write (a second connection used its link id)", count(first, 107))
	}
	if accepted && count(second, signal) != 1 {
		vrt.Failf("subscribed-but-no-event/duplicate-link", "a registration with a link id already in use on the object was answered with success, but the connection received %d events of action %d for one emission", count(second, signal), signal)
	}
	vrt.Observe("same=%v accepted=%v", same, accepted)
}

// twoProperties: an object with two properties; a client writes one while the service
// updates the other (and, in the second flavour, another client writes the other). Both
// writes are acknowledged, so both values are there afterwards: a property table that is
// copied and republished loses one of them (seed C14-19).
func twoProperties(fine bool) func() {
	return func() {
		w := fx.Start(bus.Yes{})
		c1, c2 := w.MustConnect(), w.MustConnect()
		p1, p2 := c1.Probe(1), c2.Probe(1)
		remote := vrt.ChooseFree(2, "the other property is written by a client") == 1
		if err := w.Root.Helper.UpdateMode(1); err != nil {
			vrt.Failf("harness/update-mode", "%v", err)
			return
		}
		vrt.Quiesce()
		vrt.Explore()
		vrt.SetFine(fine)
		var e1, e2 error
		wa := vrt.GoWorker("level-writer", func() { e1 = p1.SetLevel(5) })
		wb := vrt.GoWorker("mode-writer", func() {
			if remote {
				e2 = p2.SetMode(9)
			} else {
				e2 = w.Root.Helper.UpdateMode(9)
			}
		})
		vrt.Quiesce()
		fx.Settle(wa, wb)
		vrt.SetFine(false)
		vrt.Freeze()
		if e1 != nil || e2 != nil {
			vrt.Failf("write-refused/two-properties", "setProperty(level,5): %v; mode := 9: %v", e1, e2)
			return
		}
		lv, lerr := p2.GetLevel()
		mv, merr := p1.GetMode()
		if lerr != nil || merr != nil {
			vrt.Failf("read-failed/two-properties", "level: %v, mode: %v", lerr, merr)
			return
		}
		if lv != 5 {
			vrt.Failf("acknowledged-write-lost/level", "setProperty(level, 5) was acknowledged while the other property of the object was written; level reads %d", lv)
		}
		if mv != 9 {
			vrt.Failf("acknowledged-write-lost/mode", "mode := 9 was acknowledged while the other property of the object was written; mode reads %d", mv)
		}
		vrt.Observe("remote=%v level=%d mode=%d", remote, lv, mv)
	}
}

func init() {
	reg.Register(&reg.Scenario{Property: "C14", Name: "four-property-subscription-cycles", Body: propertyCycles, Quick: 0, Thorough: 1,
		Doc: "the same proxy follows the level property, sees a client write and a service-side update, cancels, misses a write - four lives in a row: each life receives exactly its own two change events once"})
	reg.Register(&reg.Scenario{Property: "C14", Name: "burst-before-reading", Body: burst, Quick: 0, Thorough: 1,
		Doc: "three clients write ten values each while the subscriber does not read (30 pending events, the subscription queue holds 100); then it reads: every accepted write exactly once, each writer's in order"})
	reg.Register(&reg.Scenario{Property: "C14", Name: "link-id-already-in-use", Body: duplicateLink, Quick: 0, Thorough: 1,
		Doc: "a raw client registers for events with a link id another connection already uses on the object (same signal / other signal): refused with an error, or really subscribed"})
	reg.Register(&reg.Scenario{Property: "C14", Name: "two-properties", Body: twoProperties(false), Quick: 2, Thorough: 3,
		Doc: "an object with two properties: setProperty(level,5) by a client || mode := 9 by the service (or by another client): both acknowledged writes are read back afterwards"})
	reg.Register(&reg.Scenario{Property: "C14", Name: "two-properties-statement-level", Body: twoProperties(true), Quick: 1, Thorough: 2,
		Doc: "the same with a scheduling point in front of every statement of bus/object.go"})
	reg.Register(&reg.Scenario{Property: "C14", Name: "cancelled-write", Body: cancelledWrite, Quick: 2, Thorough: 3,
		Doc: "a client write waits in the mailbox behind a slow call; its context is cancelled; then the object is released and another write follows: the cancelled write takes effect at most once", MustFlag: []string{"writer-told-cancelled"}})
	reg.Register(&reg.Scenario{Property: "C14", Name: "broken-subscriber", Body: brokenSubscriber, Quick: 1, Thorough: 2,
		Doc: "a subscriber behind a connection the server cannot write to any more is still registered; a client and the service write: stored values are readable and announced exactly once to the healthy subscriber; a write answered with an error changes nothing"})
	reg.Register(&reg.Scenario{Property: "C14", Name: "histories-same-client", Body: histories(true), Quick: 0, Thorough: 1,
		Doc: "sequential: A subscribes, B subscribes (same client), they leave in either order, C subscribes and leaves; after every step a client write by name, a refused one, a wrongly typed one, a service update, a refused service update, a write by numeric id and a read; object plain / with statistics / with tracing"})
	reg.Register(&reg.Scenario{Property: "C14", Name: "histories-two-connections", Body: histories(false), Quick: 0, Thorough: 1,
		Doc: "same sequential histories with A and B on different connections"})
	reg.Register(&reg.Scenario{Property: "C14", Name: "three-writers", Body: body(false), Quick: 1, Thorough: 2,
		Doc:      "client1: set 5, get || client2: one of {set 7, set -1, five wrongly-typed sets (by name and by numeric id), set by id}, get || service: update 9, update -3 || the middle one of three subscribers leaves; porcupine against a register",
		MustFlag: []string{"validator-rejected", "writes-reordered"}})
	reg.Register(&reg.Scenario{Property: "C14", Name: "three-writers-statement-level", Body: body(true), Quick: 1, Thorough: 2,
		Doc: "same with bus/object.go interleaved at statement level"})
}
