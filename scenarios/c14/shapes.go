package c14

import (
	"bytes"
	"fmt"

	"github.com/lugu/qiloop/bus"
	"github.com/lugu/qiloop/bus/net"
	"github.com/lugu/qiloop/type/basic"
	"github.com/lugu/qiloop/type/object"
	"github.com/lugu/qiloop/type/value"

	"verif/rt/vrt"
	"verif/scenarios/fx"
	"verif/scenarios/reg"
)

// declaredShapes: properties of an object whose meta-object was written by
// hand (as a foreign service would publish it): declared as a one-member
// tuple "(i)", as a bare "i", as a pair "(is)"; a SIGNAL shares the name of
// the first property. Every write of a small alphabet (exact type, the bare
// form that setProperty tolerates for a one-member tuple, wrong types) is
// judged as a register: an accepted write is what a read returns next and
// reaches the property's subscriber exactly once; a refused write changes
// nothing and reaches nobody; the subscriber of the homonymous signal never
// receives anything.

type rawActor struct{}

func (rawActor) Receive(msg *net.Message, from bus.Channel) error {
	return from.SendError(msg, fmt.Errorf("unknown action %d", msg.Header.Action))
}
func (rawActor) Activate(a bus.Activation) error { return nil }
func (rawActor) OnTerminate()                    {}

func dataOf(v value.Value) (sig string, data []byte) {
	var b bytes.Buffer
	v.Write(&b)
	sig, _ = basic.ReadString(&b)
	return sig, b.Bytes()
}

func int32Bytes(v int32) []byte {
	var b bytes.Buffer
	basic.WriteInt32(v, &b)
	return b.Bytes()
}

func pairBytes(i int32, s string) []byte {
	var b bytes.Buffer
	basic.WriteInt32(i, &b)
	basic.WriteString(s, &b)
	return b.Bytes()
}

type shapeWrite struct {
	name   string
	prop   string
	val    func(n int32) value.Value
	accept bool
}

func shapeWrites() []shapeWrite {
	return []shapeWrite{
		{"wrapped<-i", "wrapped", func(n int32) value.Value { return value.Int(n) }, true},
		{"wrapped<-(i)", "wrapped", func(n int32) value.Value { return value.Opaque("(i)", int32Bytes(n)) }, true},
		{"wrapped<-s", "wrapped", func(n int32) value.Value { return value.String("x") }, false},
		{"wrapped<-(is)", "wrapped", func(n int32) value.Value { return value.Opaque("(is)", pairBytes(n, "p")) }, false},
		{"plain<-i", "plain", func(n int32) value.Value { return value.Int(n) }, true},
		{"plain<-(i)", "plain", func(n int32) value.Value { return value.Opaque("(i)", int32Bytes(n)) }, false},
		{"plain<-I", "plain", func(n int32) value.Value { return value.Uint(uint32(n)) }, false},
		{"pair<-(is)", "pair", func(n int32) value.Value { return value.Opaque("(is)", pairBytes(n, "p")) }, true},
		{"pair<-i", "pair", func(n int32) value.Value { return value.Int(n) }, false},
		{"unknown<-i", "nosuch", func(n int32) value.Value { return value.Int(n) }, false},
	}
}

func declaredShapes() {
	w := fx.Start(bus.Yes{})
	meta := object.MetaObject{
		Description: "Raw",
		Methods:     map[uint32]object.MetaMethod{},
		Signals: map[uint32]object.MetaSignal{
			210: {Uid: 210, Name: "wrapped", Signature: "(i)"},
		},
		Properties: map[uint32]object.MetaProperty{
			201: {Uid: 201, Name: "wrapped", Signature: "(i)"},
			202: {Uid: 202, Name: "plain", Signature: "i"},
			203: {Uid: 203, Name: "pair", Signature: "(is)"},
		},
	}
	obj := bus.NewBasicObject(rawActor{}, meta, func(string, []byte) error { return nil })
	svc, err := w.Srv.NewService("Raw", obj)
	if err != nil {
		vrt.Failf("harness/service", "%v", err)
		return
	}
	sid := svc.ServiceID()
	writer, reader := w.MustConnect(), w.MustConnect()
	mk := func(c *fx.Conn) (bus.Proxy, bus.ObjectProxy) {
		m, err := bus.GetMetaObject(c.Client, sid, 1)
		if err != nil {
			panic(fmt.Sprintf("meta object: %v", err))
		}
		p := bus.NewProxy(c.Client, m, sid, 1)
		return p, bus.MakeObject(p)
	}
	_, wobj := mk(writer)
	rp, robj := mk(reader)
	events := map[uint32][][]byte{}
	for _, id := range []uint32{201, 202, 203, 210} {
		id := id
		_, ch, err := rp.SubscribeID(id)
		if err != nil {
			vrt.Failf("harness/subscribe", "subscribing to %d: %v", id, err)
			return
		}
		vrt.GoNamed(fmt.Sprintf("drain-%d", id), func() {
			for p := range ch {
				events[id] = append(events[id], p)
			}
		})
	}
	vrt.Quiesce()
	abc := shapeWrites()
	var seq []shapeWrite
	for i := 0; i < 2; i++ {
		k := vrt.ChooseFree(len(abc)+1, "write")
		if k == len(abc) {
			break
		}
		seq = append(seq, abc[k])
	}
	vrt.Explore()
	ids := map[string]uint32{"wrapped": 201, "plain": 202, "pair": 203}
	current := map[string][]byte{} // data bytes of the latest accepted write
	wantEvents := map[uint32][][]byte{}
	hist := ""
	for i, sw := range seq {
		n := int32(5 + i)
		v := sw.val(n)
		_, data := dataOf(v)
		hist += sw.name + ";"
		err := wobj.SetProperty(value.String(sw.prop), v)
		vrt.Quiesce()
		switch {
		case sw.accept && err != nil:
			vrt.Failf("correctly-typed-write-refused/"+sw.name, "after [%s]: a write of the declared type (or of the tolerated bare form) was answered with an error: %v", hist, err)
		case !sw.accept && err == nil:
			vrt.Failf("wrongly-typed-write-accepted/"+sw.name, "after [%s]: the write was accepted", hist)
		}
		if err == nil {
			current[sw.prop] = data
			wantEvents[ids[sw.prop]] = append(wantEvents[ids[sw.prop]], data)
		}
		// the register as a reader sees it
		for prop, id := range ids {
			got, rerr := robj.Property(value.String(prop))
			want, written := current[prop]
			if !written {
				continue // never written: whatever the object answers
			}
			if rerr != nil {
				vrt.Failf("get-failed/"+sw.name, "after [%s]: reading %s failed: %v", hist, prop, rerr)
				continue
			}
			_, gd := dataOf(got)
			if !bytes.Equal(gd, want) {
				clause := "read-differs-from-latest-accepted-write/"
				if err != nil && prop == sw.prop {
					clause = "refused-write-took-effect/"
				}
				vrt.Failf(clause+sw.name, "after [%s]: property %s (%d) reads %x, the latest accepted write carried %x (this write returned %v)", hist, prop, id, gd, want, err)
			}
		}
	}
	vrt.Quiesce()
	for _, id := range []uint32{201, 202, 203, 210} {
		if fmt.Sprintf("%x", events[id]) != fmt.Sprintf("%x", wantEvents[id]) {
			what := "property"
			if id == 210 {
				what = "signal (homonym of property wrapped)"
			}
			vrt.Failf(fmt.Sprintf("events-differ-from-accepted-writes/%d", id), "after [%s]: the subscriber of %s %d received %x, the accepted writes were %x", hist, what, id, events[id], wantEvents[id])
		}
	}
	fx.Settle()
	vrt.Observe("%s", hist)
}

func init() {
	reg.Register(&reg.Scenario{Property: "C14", Name: "declared-shapes-2", Body: declaredShapes, Quick: 0, Thorough: 1,
		Doc: "an object with a hand-written meta-object: properties declared \"(i)\", \"i\", \"(is)\" and a signal that shares a property's name; every sequence of <=2 writes of a 10-write alphabet (exact type, tolerated bare form, wrong types, unknown name): accepted writes are read back and reach the property's subscriber once, refused writes change nothing, the homonymous signal's subscriber receives nothing"})
}
