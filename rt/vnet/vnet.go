// Package vnet replaces package net in the instrumented bus/net package (and
// is used directly by harnesses): in-memory, scheduler-aware connections and
// listeners. Types that the untouched code needs for the real transports are
// aliases of the real ones so that the tls / fd-passing code keeps compiling.
package vnet

import (
	"context"
	"errors"
	"fmt"
	"io"
	"net"
	"strings"
	"time"

	"verif/rt/vrt"
)

type (
	Conn         = net.Conn
	Listener     = net.Listener
	Addr         = net.Addr
	UnixAddr     = net.UnixAddr
	UnixConn     = net.UnixConn
	UnixListener = net.UnixListener
	TCPAddr      = net.TCPAddr
	IP           = net.IP
	IPNet        = net.IPNet
	Interface    = net.Interface
	Error        = net.Error
	OpError      = net.OpError
)

var (
	ParseIP        = net.ParseIP
	ParseCIDR      = net.ParseCIDR
	Interfaces     = net.Interfaces
	InterfaceAddrs = net.InterfaceAddrs
	JoinHostPort   = net.JoinHostPort
	SplitHostPort  = net.SplitHostPort
	LookupHost     = net.LookupHost
	IPv4           = net.IPv4
)

// ErrClosed mirrors net.ErrClosed.
var ErrClosed = net.ErrClosed

func DialUnix(network string, laddr, raddr *UnixAddr) (*UnixConn, error) {
	return nil, errors.New("vnet: DialUnix is not modelled")
}

func ListenUnix(network string, laddr *UnixAddr) (*UnixListener, error) {
	return nil, errors.New("vnet: ListenUnix is not modelled")
}

// Fault is an injected I/O outcome.
type Fault struct {
	// Kind: "err" (operation fails, nothing transferred), "eof" (read returns
	// io.EOF now), "data+eof" (read returns the available data together with
	// io.EOF), "garbage" (read returns bytes that are not what the peer sent:
	// a protocol error on a live connection), "short" (write transfers half
	// the buffer, then fails),
	// "peerclose" (the peer end is closed just before the operation),
	// "localclose" (this end is closed just before the operation),
	// "timeout" (the operation and every later one fail with a net.Error whose
	// Timeout() and Temporary() are true: a dead peer, ETIMEDOUT / an expired
	// deadline - retrying never helps),
	// "werr" (write only: this and every later write fail, reads go on - the
	// peer shut down its reading side).
	Kind string
}

type half struct {
	data    []byte
	wclosed bool // writer side closed: reader sees EOF after draining
	rclosed bool // reader side closed: writer gets an error
}

// MemConn is one end of an in-memory duplex connection.
type MemConn struct {
	name   string
	rd, wr *half
	peer   *MemConn
	closed bool
	// sticky errors after an injected fault: a read-side failure (error, EOF,
	// corrupted data) leaves the write side usable until the local Close, as
	// on TCP; a write-side failure breaks both directions.
	rbroken error
	wbroken error
	// Cap > 0 bounds the bytes buffered towards the peer: Write blocks while
	// that many bytes are pending.
	Cap int
	// Sync makes Write behave like net.Pipe: it returns only when the peer
	// has read everything (or an end was closed).
	Sync bool
	// Frag enables read fragmentation choices.
	Frag bool
	// OnOp, when set, is asked before every Read/Write (idx counts the
	// operations of this end, from 0) and may inject a fault.
	OnOp func(kind string, idx int) *Fault
	// CloseErr, when set, is returned by the first Close, which closes the
	// connection all the same (as tls.Conn.Close does when the close-notify
	// alert cannot be sent).
	CloseErr error
	// Tap, when set, sees every buffer written by this end.
	Tap func(p []byte)
	ops int
	// OpLog records every completed Read/Write of this end.
	OpLog []OpRec
	// FaultAt is the index of the operation at which a fault was injected (-1: none).
	FaultAt       int
	inWrite       bool
	// wdeadline / rdeadline: a deadline was set (non-zero time) for writes /
	// reads of this end. Time is logical: a pending deadline may expire
	// whenever the operation it guards cannot complete at once - an explored
	// environment choice (default: it does not expire first).
	wdeadline, rdeadline bool
	str           string // String() override (ServerString)
	local, remote addr
}

// OpRec is one completed I/O operation of an end.
type OpRec struct {
	Kind string // "read" or "write"
	N    int
	Err  bool
}

type addr struct{ network, s string }

func (a addr) Network() string { return a.network }
func (a addr) String() string  { return a.s }

var pairSeq int

// NewPair returns two connected ends.
func NewPair(nameA, nameB string) (*MemConn, *MemConn) {
	pairSeq++
	ab, ba := &half{}, &half{}
	a := &MemConn{name: nameA, rd: ba, wr: ab, FaultAt: -1}
	b := &MemConn{name: nameB, rd: ab, wr: ba, FaultAt: -1}
	a.peer, b.peer = b, a
	a.local, a.remote = addr{"tcp", nameA}, addr{"tcp", nameB}
	b.local, b.remote = addr{"tcp", nameB}, addr{"tcp", nameA}
	return a, b
}

// Pipe replaces net.Pipe.
func Pipe() (Conn, Conn) {
	a, b := NewPair(fmt.Sprintf("pipe%d-a", pairSeq), fmt.Sprintf("pipe%d-b", pairSeq))
	return a, b
}

// Name returns the diagnostic name of this end.
func (c *MemConn) Name() string { return c.name }

// Peer returns the other end of the connection.
func (c *MemConn) Peer() *MemConn { return c.peer }

// Ops returns how many Read/Write calls this end has started.
func (c *MemConn) Ops() int { return c.ops }

// Closed reports whether this end was closed locally.
func (c *MemConn) Closed() bool { return c.closed }

// PendingOut returns the number of bytes written and not yet read by the peer.
func (c *MemConn) PendingOut() int { return len(c.wr.data) }

// TimeoutError is what a "timeout" fault returns: a net.Error of the timeout
// class (as *net.OpError{Err: syscall.ETIMEDOUT} or os.ErrDeadlineExceeded are).
type TimeoutError struct{}

func (TimeoutError) Error() string   { return "vnet: i/o timeout (injected)" }
func (TimeoutError) Timeout() bool   { return true }
func (TimeoutError) Temporary() bool { return true }

func (c *MemConn) fault(kind string) *Fault {
	idx := c.ops
	c.ops++
	if c.OnOp == nil {
		return nil
	}
	f := c.OnOp(kind, idx)
	if f != nil && c.FaultAt < 0 {
		c.FaultAt = idx
	}
	return f
}

func (c *MemConn) applyCloseFault(f *Fault) {
	if f == nil {
		return
	}
	switch f.Kind {
	case "peerclose":
		c.peer.closeNoSched()
	case "localclose":
		c.closeNoSched()
	}
}

func (c *MemConn) Read(p []byte) (int, error) {
	if vrt.Aborting() {
		return 0, io.ErrClosedPipe
	}
	f := c.fault("read")
	c.applyCloseFault(f)
	if f != nil && f.Kind == "err" {
		vrt.Yield()
		c.rbroken = errors.New("vnet: injected read error")
		return 0, c.rbroken
	}
	if f != nil && f.Kind == "eof" {
		vrt.Yield()
		c.rbroken = io.EOF
		return 0, io.EOF
	}
	if f != nil && f.Kind == "timeout" {
		vrt.Yield()
		c.rbroken = TimeoutError{}
		return 0, c.rbroken
	}
	if f != nil && f.Kind == "garbage" && len(p) != 28 {
		// only a frame header can be recognised as corrupted by the
		// protocol (payload bytes carry no checksum): not a header read, no fault
		if c.FaultAt == c.ops-1 {
			c.FaultAt = -1
		}
		f = nil
	}
	if f != nil && f.Kind == "garbage" {
		vrt.Yield()
		for i := range p {
			p[i] = 0xAB
		}
		c.OpLog = append(c.OpLog, OpRec{"read", len(p), true})
		return len(p), nil
	}
	vrt.Block(vrt.KIO, "read "+c.name, c, func() bool {
		return len(c.rd.data) > 0 || c.rd.wclosed || c.closed || c.rbroken != nil
	})
	if c.closed {
		return 0, io.ErrClosedPipe
	}
	if c.rbroken != nil {
		return 0, c.rbroken
	}
	if len(c.rd.data) == 0 {
		return 0, io.EOF
	}
	n := len(p)
	if n > len(c.rd.data) {
		n = len(c.rd.data)
	}
	if c.Frag && n > 1 && vrt.Exploring() {
		switch vrt.Choose(3, "frag") {
		case 1:
			n = 1
		case 2:
			n = n - 1
		}
	}
	copy(p, c.rd.data[:n])
	c.rd.data = c.rd.data[n:]
	if c.inWrite {
		vrt.Flag("io:read-completed-while-own-write-in-progress")
	}
	if f != nil && f.Kind == "data+eof" {
		c.rbroken = io.EOF
		c.OpLog = append(c.OpLog, OpRec{"read", n, true})
		return n, io.EOF
	}
	c.OpLog = append(c.OpLog, OpRec{"read", n, false})
	return n, nil
}

func (c *MemConn) Write(p []byte) (int, error) {
	if vrt.Aborting() {
		return 0, io.ErrClosedPipe
	}
	f := c.fault("write")
	c.applyCloseFault(f)
	if f != nil && f.Kind == "err" {
		vrt.Yield()
		c.wbroken = errors.New("vnet: injected write error")
		c.rbroken = c.wbroken
		return 0, c.wbroken
	}
	if f != nil && f.Kind == "timeout" {
		vrt.Yield()
		c.wbroken = TimeoutError{}
		c.rbroken = c.wbroken
		return 0, c.wbroken
	}
	if f != nil && f.Kind == "werr" {
		// the peer shut its reading side: writes fail from now on, reads go on
		vrt.Yield()
		c.wbroken = errors.New("vnet: injected write error (peer stopped reading)")
		return 0, c.wbroken
	}
	if c.wdeadline && c.Cap > 0 && len(c.wr.data)+len(p) > c.Cap && !c.closed && !c.wr.rclosed && c.wbroken == nil && vrt.Exploring() {
		// the peer does not take the data fast enough and a write deadline is
		// pending: it may expire with the buffer partly transferred (as a
		// socket write does), the connection stays usable
		if vrt.Choose(2, "write-deadline-expires") == 1 {
			room := c.Cap - len(c.wr.data)
			if room < 0 {
				room = 0
			}
			if room >= len(p) {
				room = len(p) - 1
			}
			c.wr.data = append(c.wr.data, p[:room]...)
			if c.Tap != nil && room > 0 {
				c.Tap(append([]byte(nil), p[:room]...))
			}
			c.OpLog = append(c.OpLog, OpRec{"write", room, true})
			vrt.Flag("io:write-deadline-expired-mid-buffer")
			return room, TimeoutError{}
		}
	}
	vrt.Block(vrt.KIO, "write "+c.name, c, func() bool {
		return c.Cap == 0 || len(c.wr.data) < c.Cap || c.closed || c.wr.rclosed || c.wbroken != nil
	})
	if c.closed || c.wr.rclosed {
		return 0, io.ErrClosedPipe
	}
	if c.wbroken != nil {
		return 0, c.wbroken
	}
	q := p
	var ferr error
	if f != nil && f.Kind == "short" {
		q = p[:len(p)/2]
		ferr = errors.New("vnet: injected short write")
		c.wbroken, c.rbroken = ferr, ferr
	}
	c.wr.data = append(c.wr.data, q...)
	if c.Tap != nil {
		c.Tap(append([]byte(nil), q...))
	}
	c.OpLog = append(c.OpLog, OpRec{"write", len(q), ferr != nil})
	// second point: the peer may react before Write has returned
	c.inWrite = true
	if c.Sync {
		vrt.Block(vrt.KIO, "write-sync "+c.name, c, func() bool {
			return len(c.wr.data) == 0 || c.closed || c.wr.rclosed
		})
		if len(c.wr.data) > 0 {
			c.inWrite = false
			return 0, io.ErrClosedPipe
		}
	} else {
		vrt.Yield()
	}
	c.inWrite = false
	return len(q), ferr
}

func (c *MemConn) closeNoSched() {
	if c.closed {
		return
	}
	c.closed = true
	c.wr.wclosed = true
	c.rd.rclosed = true
	openConns--
}

func (c *MemConn) Close() error {
	if vrt.Aborting() {
		return nil
	}
	vrt.Yield()
	if c.closed {
		return io.ErrClosedPipe
	}
	c.closeNoSched()
	return c.CloseErr
}

func (c *MemConn) LocalAddr() Addr                    { return c.local }
func (c *MemConn) RemoteAddr() Addr                   { return c.remote }
func (c *MemConn) SetDeadline(t time.Time) error {
	c.wdeadline, c.rdeadline = !t.IsZero(), !t.IsZero()
	return nil
}
func (c *MemConn) SetReadDeadline(t time.Time) error  { c.rdeadline = !t.IsZero(); return nil }
func (c *MemConn) SetWriteDeadline(t time.Time) error { c.wdeadline = !t.IsZero(); return nil }
func (c *MemConn) String() string {
	if c.str != "" {
		return c.str
	}
	return "mem://" + c.name
}
func (c *MemConn) Context() context.Context { return context.TODO() }

// ---------------------------------------------------------------------

// MemListener is an in-memory listener registered under its address.
type MemListener struct {
	network, address string
	queue            []*MemConn
	closed           bool
	Accepted         int
}

var (
	listeners = map[string]*MemListener{}
	// Dials counts Dial calls per address in this execution.
	Dials     = map[string]int{}
	openConns int
	connSeq   int
	// Established lists, per address, the client ends created by Dial.
	Established = map[string][]*MemConn{}
	// ServerString, when non-empty, is what String() of the server end of
	// the next dialled connections returns (the textual identity of a
	// transport is chosen by the peer for some transports: a unix socket
	// name, a pipe).
	ServerString string
)

func init() {
	vrt.OnReset(func() {
		listeners = map[string]*MemListener{}
		Dials = map[string]int{}
		Established = map[string][]*MemConn{}
		ServerString = ""
		openConns = 0
		connSeq = 0
		pairSeq = 0
	})
}

// Listen replaces net.Listen.
func Listen(network, address string) (Listener, error) {
	key := network + "://" + address
	if l, ok := listeners[key]; ok && !l.closed {
		return nil, fmt.Errorf("listen %s: address already in use", key)
	}
	l := &MemListener{network: network, address: address}
	listeners[key] = l
	return l, nil
}

func (l *MemListener) Accept() (Conn, error) {
	if vrt.Aborting() {
		return nil, ErrClosed
	}
	vrt.Block(vrt.KIO, "accept "+l.address, l, func() bool { return len(l.queue) > 0 || l.closed })
	if l.closed {
		return nil, ErrClosed
	}
	c := l.queue[0]
	l.queue = l.queue[1:]
	l.Accepted++
	return c, nil
}

func (l *MemListener) Close() error {
	if vrt.Aborting() {
		return nil
	}
	vrt.Yield()
	if l.closed {
		return ErrClosed
	}
	l.closed = true
	return nil
}

func (l *MemListener) Addr() Addr { return addr{l.network, l.address} }

// DialMem connects to a MemListener and returns the client end.
func DialMem(network, address string) (*MemConn, error) {
	if vrt.Aborting() {
		return nil, ErrClosed
	}
	key := network + "://" + address
	vrt.Yield()
	Dials[key]++
	l, ok := listeners[key]
	if !ok || l.closed {
		return nil, fmt.Errorf("dial %s: connection refused", key)
	}
	connSeq++
	cl, srv := NewPair(fmt.Sprintf("%s/c%d", address, connSeq), fmt.Sprintf("%s/s%d", address, connSeq))
	openConns += 2
	if i := strings.Index(ServerString, "://"); i > 0 {
		// the identity the server reads from RemoteAddr() and String()
		srv.str = ServerString
		srv.remote = addr{ServerString[:i], ServerString[i+3:]}
	}
	l.queue = append(l.queue, srv)
	Established[key] = append(Established[key], cl)
	return cl, nil
}

// Dial replaces net.Dial.
func Dial(network, address string) (Conn, error) {
	c, err := DialMem(network, address)
	if err != nil {
		return nil, err
	}
	return c, nil
}

// OpenClientConns returns how many client ends dialled to key ("tcp://host")
// are still open on both sides.
func OpenClientConns(key string) int {
	n := 0
	for _, c := range Established[key] {
		if !c.closed && !c.peer.closed {
			n++
		}
	}
	return n
}
