// Package vrt is the controlled-scheduler runtime of engine B.
//
// Threads are real goroutines, but exactly one of them holds the token at any
// time; every other thread is parked on a private native channel. Each
// instrumented synchronisation operation calls point() first: the thread
// publishes its pending operation, the scheduler picks the next thread among
// those whose pending operation is enabled, and the token moves. Blocking is
// modelled (a disabled pending operation), never real.
//
// One execution at a time per process: the state is a package-level
// singleton because the instrumented code calls package-level functions.
package vrt

import (
	"fmt"
	"hash/fnv"
	"runtime"
	"runtime/debug"
	"sort"
	"strings"
	"time"
)

// Kinds of pending operations.
const (
	KStart   = "start"
	KLock    = "lock"
	KRLock   = "rlock"
	KWait    = "wgwait"
	KChan    = "chan"
	KClose   = "close"
	KYield   = "yield"
	KQuiesce = "quiesce"
	KIO      = "io"
	KOnce    = "once"
)

// Op is a pending operation of a parked thread.
type Op struct {
	Kind    string
	Label   string
	Obj     interface{}
	Enabled func() bool
	// channel operations
	cases      []*selCase
	hasDefault bool
	completed  int
}

// Thread is one controlled goroutine.
type Thread struct {
	ID     int
	Name   string
	Worker bool
	wake   chan struct{}
	op     *Op
	done   bool
	// started is false until the thread got the token for the first time.
	started bool
}

// Point is one recorded choice point of an execution.
type Point struct {
	N      int    // number of alternatives
	Chosen int    // alternative taken
	Label  string // "sched" or the Choose label
	Free   bool   // alternatives do not count as deviations (outer loops: fault position, parameter)
}

// Crash describes a panic (or modelled fatal error) that escaped a thread.
type Crash struct {
	Thread string
	Value  string
	Stack  string
	Fatal  bool
}

// Blocked describes a thread that was still blocked when a snapshot was taken.
type Blocked struct {
	Thread string
	Worker bool
	Kind   string
	Label  string
}

// Result is what one execution produced.
type Result struct {
	Points     []Point
	Hash       uint64 // hash of every scheduling step (determinism validation)
	Steps      int
	Threads    int
	End        string // "main-returned", "deadlock", "crash", "step-limit", "diverged"
	Crash      *Crash
	Blocked    []Blocked // threads not finished at the end
	Divergence string
	Failures   []Failure
	Outcome    string
	Flags      map[string]bool
	Log        []string
}

// Failure is an oracle violation reported by a scenario.
type Failure struct {
	Clause string
	Detail string
}

type abortT struct{}

var abortSentinel = &abortT{}

// FatalError models a Go runtime "fatal error" (not recoverable in real Go).
type FatalError struct{ Msg string }

func (f *FatalError) Error() string { return "fatal error: " + f.Msg }

type vtimer struct {
	at    int64
	seq   int
	fire  func()
	dead  bool
	fired bool
}

type rt struct {
	threads   []*Thread
	cur       *Thread
	prefix    []int
	pos       int
	points    []Point
	exploring bool
	aborting  bool
	end       string
	crash     *Crash
	diverge   string
	steps     int
	maxSteps  int
	hash      uint64
	finished  chan struct{}
	unwound   chan struct{}
	sigDone   bool
	now       int64
	timers    []*vtimer
	timerSeq  int
	failures  []Failure
	outcome   []string
	flags     map[string]bool
	log       []string
	trace     bool
	nextObj   int
	lastID    int
	policy    int
	resetters []func()
	doneWatch []*doneWatch
}

// memLimit ends an execution whose live heap exceeds it (treated like the
// step limit).
var memLimit uint64 = 1 << 30

// R is the current execution (nil outside executions).
var R *rt

// Active reports whether a controlled execution is running.
func Active() bool { return R != nil && !R.aborting }

// Options of one execution.
type Options struct {
	MaxSteps int
	Trace    bool
}

var globalResetters []func()

// OnReset registers a function run before every execution (used by shims
// with package-level state, e.g. the vnet listener registry).
func OnReset(f func()) { globalResetters = append(globalResetters, f) }

// Run executes body as thread 0 under the controlled scheduler, answering the
// first len(prefix) recorded choice points from prefix and every later one
// with 0.
func Run(prefix []int, opt Options, body func()) *Result {
	if R != nil {
		panic("vrt: nested Run")
	}
	for _, f := range globalResetters {
		f()
	}
	r := &rt{
		prefix:   prefix,
		maxSteps: opt.MaxSteps,
		finished: make(chan struct{}, 1),
		unwound:  make(chan struct{}, 1),
		flags:    map[string]bool{},
		hash:     14695981039346656037,
		trace:    opt.Trace,
	}
	if r.maxSteps == 0 {
		r.maxSteps = 400000
	}
	R = r
	main := r.newThread("main", body)
	main.Worker = true
	r.cur = main
	main.started = true
	main.wake <- struct{}{}
	<-r.finished
	// unwind every thread that is still parked, one at a time
	for _, t := range r.threads {
		if t.done {
			continue
		}
		t.wake <- struct{}{}
		select {
		case <-r.unwound:
		case <-time.After(20 * time.Second):
			panic(fmt.Sprintf("vrt: thread %s did not unwind", t.Name))
		}
	}
	res := &Result{
		Points:     r.points,
		Hash:       r.hash,
		Steps:      r.steps,
		Threads:    len(r.threads),
		End:        r.end,
		Crash:      r.crash,
		Divergence: r.diverge,
		Failures:   r.failures,
		Outcome:    strings.Join(r.outcome, ";"),
		Flags:      r.flags,
		Log:        r.log,
	}
	for _, t := range r.threads {
		if t.op != nil && t.op.Kind != KQuiesce {
			res.Blocked = append(res.Blocked, Blocked{t.Name, t.Worker, t.op.Kind, t.op.Label})
		}
	}
	R = nil
	return res
}

func (r *rt) newThread(name string, f func()) *Thread {
	t := &Thread{ID: len(r.threads), Name: name, wake: make(chan struct{}, 1)}
	t.op = &Op{Kind: KStart, Enabled: func() bool { return true }}
	r.threads = append(r.threads, t)
	go r.threadMain(t, f)
	return t
}

func (r *rt) threadMain(t *Thread, f func()) {
	defer func() {
		v := recover()
		if v != nil {
			if _, ok := v.(*abortT); !ok && r.crash == nil {
				c := &Crash{Thread: t.Name, Value: fmt.Sprint(v), Stack: string(debug.Stack())}
				if _, ok := v.(*FatalError); ok {
					c.Fatal = true
				}
				r.crash = c
				if !r.aborting {
					r.aborting = true
					r.end = "crash"
				}
			}
		}
		t.done = true
		if t.op != nil && (v == nil) {
			t.op = nil
		}
		if r.aborting {
			if !r.sigDone {
				r.sigDone = true
				r.finished <- struct{}{}
			} else {
				r.unwound <- struct{}{}
			}
			return
		}
		if t.ID == 0 {
			r.aborting = true
			r.end = "main-returned"
			r.sigDone = true
			r.finished <- struct{}{}
			return
		}
		// normal completion: pass the token on
		next := r.pick(nil)
		if next == nil {
			// pick ended the execution
			r.sigDone = true
			r.finished <- struct{}{}
			return
		}
		r.note(next)
		r.cur = next
		next.wake <- struct{}{}
	}()
	<-t.wake
	if r.aborting {
		panic(abortSentinel)
	}
	t.op = nil
	f()
}

func (r *rt) note(next *Thread) {
	r.mix(uint64(next.ID), hashString(next.op.Kind))
	if r.trace {
		r.log = append(r.log, fmt.Sprintf("step %d: run %s [%s %s]", r.steps, next.Name, next.op.Kind, next.op.Label))
	}
}

func (r *rt) mix(vals ...uint64) {
	for _, v := range vals {
		r.hash ^= v
		r.hash *= 1099511628211
	}
}

func hashString(s string) uint64 {
	h := fnv.New64a()
	h.Write([]byte(s))
	return h.Sum64()
}

// point publishes op as the pending operation of the running thread and
// returns when the thread has been given the token with op enabled.
func (r *rt) point(op *Op) {
	if r.aborting {
		panic(abortSentinel)
	}
	t := r.cur
	t.op = op
	r.steps++
	if r.steps > r.maxSteps {
		r.aborting = true
		r.end = "step-limit"
		panic(abortSentinel)
	}
	if r.steps&1023 == 0 {
		// runaway allocation of the code under test (unbounded recursion,
		// quadratic buffers): end the execution before the process is killed
		var ms runtime.MemStats
		runtime.ReadMemStats(&ms)
		if ms.HeapAlloc > memLimit {
			r.aborting = true
			r.end = "step-limit"
			r.diverge = fmt.Sprintf("heap grew to %d MiB", ms.HeapAlloc>>20)
			panic(abortSentinel)
		}
	}
	next := r.pick(t)
	if next == nil {
		panic(abortSentinel)
	}
	r.note(next)
	if next != t {
		r.cur = next
		next.wake <- struct{}{}
		<-t.wake
		if r.aborting {
			panic(abortSentinel)
		}
	}
	t.started = true
	t.op = nil
}

func (op *Op) isEnabled() bool {
	if op.Kind == KQuiesce {
		return false
	}
	if op.Kind == KChan {
		return chanOpEnabled(op)
	}
	if op.Enabled == nil {
		return true
	}
	return op.Enabled()
}

// pick chooses the next thread to run; cur is the thread that just published
// its operation (nil when a thread finished). Returns nil when the execution
// ended (deadlock, divergence).
func (r *rt) pick(cur *Thread) *Thread {
	for {
		if len(r.doneWatch) > 0 {
			r.pollDone()
		}
		// canonical order of the alternatives: the running thread first if it
		// is still enabled, then - policy 0 - ascending thread numbers
		// (early threads have priority: a worker runs a whole remote
		// operation before a later worker starts) or - policy 1 - round
		// robin from the running thread's number (a thread created late is
		// not starved while lower-numbered threads stay runnable). Both base
		// schedules are explored: the policy is a free choice made at
		// Explore().
		var enabled []*Thread
		pivot := r.lastID
		if cur != nil {
			pivot = cur.ID
			r.lastID = cur.ID
		}
		if r.policy == 0 {
			pivot = -1
		}
		if cur != nil && !cur.done && cur.op != nil && cur.op.isEnabled() {
			enabled = append(enabled, cur)
		}
		for k := 1; k <= len(r.threads); k++ {
			u := r.threads[(pivot+k+len(r.threads))%len(r.threads)]
			if u == cur || u.done || u.op == nil {
				continue
			}
			if u.op.isEnabled() {
				enabled = append(enabled, u)
			}
		}
		if len(enabled) == 0 {
			if r.fireTimer() {
				continue
			}
			for _, u := range r.threads {
				if !u.done && u.op != nil && u.op.Kind == KQuiesce {
					return u
				}
			}
			r.aborting = true
			r.end = "deadlock"
			return nil
		}
		if len(enabled) == 1 {
			return enabled[0]
		}
		if r.trace && r.exploring {
			names := ""
			for i, u := range enabled {
				names += fmt.Sprintf(" %d:%s[%s]", i, u.Name, u.op.Kind)
			}
			r.log = append(r.log, fmt.Sprintf("choice pos=%d alternatives:%s", r.pos, names))
		}
		c, ok := r.choose(len(enabled), "sched", false)
		if !ok {
			return nil
		}
		return enabled[c]
	}
}

// choose answers one choice point with n alternatives.
func (r *rt) choose(n int, label string, free bool) (int, bool) {
	if !r.exploring {
		return 0, true
	}
	c := 0
	if r.pos < len(r.prefix) {
		c = r.prefix[r.pos]
		if c >= n || c < 0 {
			r.aborting = true
			r.end = "diverged"
			r.diverge = fmt.Sprintf("choice %d: replay asks for alternative %d of %d (%s)", r.pos, c, n, label)
			return 0, false
		}
	}
	r.pos++
	r.points = append(r.points, Point{N: n, Chosen: c, Label: label, Free: free})
	r.mix(uint64(n), uint64(c), hashString(label))
	return c, true
}

func (r *rt) fireTimer() bool {
	var best *vtimer
	for _, tm := range r.timers {
		if tm.dead || tm.fired {
			continue
		}
		if best == nil || tm.at < best.at || (tm.at == best.at && tm.seq < best.seq) {
			best = tm
		}
	}
	if best == nil {
		return false
	}
	best.fired = true
	if best.at > r.now {
		r.now = best.at
	}
	best.fire()
	return true
}

// ---------------------------------------------------------------------
// API for instrumented code and harnesses
// ---------------------------------------------------------------------

// Go starts f as a new controlled thread.
func Go(f func()) { GoNamed("", f) }

// GoNamed starts f as a new controlled thread with a diagnostic name.
func GoNamed(name string, f func()) *Thread {
	r := R
	if r == nil {
		go f()
		return nil
	}
	if r.aborting {
		return nil
	}
	if name == "" {
		name = fmt.Sprintf("t%d", len(r.threads))
	}
	return r.newThread(name, f)
}

// GoWorker starts a harness worker thread: one that the scenario expects to
// finish (still blocked at the end = hang).
func GoWorker(name string, f func()) *Thread {
	t := GoNamed(name, f)
	if t != nil {
		t.Worker = true
	}
	return t
}

// Done reports whether the thread function returned.
func (t *Thread) Done() bool { return t == nil || t.done }

// BlockedOn describes what the thread is blocked on ("" if running/done).
func (t *Thread) BlockedOn() string {
	if t == nil || t.done || t.op == nil {
		return ""
	}
	return t.op.Kind + " " + t.op.Label
}

// Yield is a scheduling point that is always enabled.
func Yield() {
	r := R
	if r == nil {
		return
	}
	if r.aborting {
		return
	}
	r.point(&Op{Kind: KYield})
}

// Quiesce parks the caller until no other thread is enabled and no timer is
// pending.
func Quiesce() {
	r := R
	if r == nil {
		return
	}
	r.point(&Op{Kind: KQuiesce})
}

// Explore marks the end of the deterministic set-up phase: choice points are
// recorded (and may deviate) only from here on.
func Explore() {
	if R != nil && !R.exploring {
		R.exploring = true
		R.policy = ChooseFree(2, "base-schedule")
	}
}

// Freeze ends the explored part of an execution: from here on every choice
// point takes its default answer and is not recorded (a scenario's final
// probing phase, whose own schedule is not the subject, runs on the default
// schedule only - this keeps the deviations for the part under test).
func Freeze() {
	if R != nil {
		R.exploring = false
	}
}

// Exploring reports whether Explore was called in this execution.
func Exploring() bool { return R != nil && R.exploring }

// Choose is an environment choice point with n alternatives (default 0).
func Choose(n int, label string) int {
	r := R
	if r == nil || r.aborting || n <= 1 {
		return 0
	}
	c, ok := r.choose(n, label, false)
	if !ok {
		panic(abortSentinel)
	}
	return c
}

// ChooseFree is a choice point whose alternatives are all explored without
// counting as deviations (exhaustive outer loops such as the position and the
// kind of an injected fault). It is recorded even before Explore().
func ChooseFree(n int, label string) int {
	r := R
	if r == nil || r.aborting || n <= 1 {
		return 0
	}
	was := r.exploring
	r.exploring = true
	c, ok := r.choose(n, label, true)
	r.exploring = was
	if !ok {
		panic(abortSentinel)
	}
	return c
}

// Block parks the caller until cond() holds. kind is one of the K constants.
func Block(kind, label string, obj interface{}, cond func() bool) {
	r := R
	if r == nil {
		if cond != nil && !cond() {
			panic("vrt: blocking operation outside an execution: " + kind + " " + label)
		}
		return
	}
	r.point(&Op{Kind: kind, Label: label, Obj: obj, Enabled: cond})
}

// Aborting reports whether the execution is being torn down; shim operations
// must not touch scheduler state then.
func Aborting() bool { return R != nil && R.aborting }

// Fatal models a Go runtime fatal error.
func Fatal(msg string) {
	panic(&FatalError{Msg: msg})
}

// Failf records an oracle violation for this execution.
func Failf(clause, format string, args ...interface{}) {
	if R == nil {
		panic(fmt.Sprintf("FAIL "+clause+": "+format, args...))
	}
	R.failures = append(R.failures, Failure{Clause: clause, Detail: fmt.Sprintf(format, args...)})
}

// Observe appends to the canonical observable outcome of this execution.
func Observe(format string, args ...interface{}) {
	if R == nil {
		return
	}
	R.outcome = append(R.outcome, fmt.Sprintf(format, args...))
}

// Flag marks a collision predicate as satisfied in this execution.
func Flag(name string) {
	if R != nil {
		R.flags[name] = true
	}
}

// Logf adds a line to the step trace (only kept in trace mode).
func Logf(format string, args ...interface{}) {
	if R != nil && R.trace {
		R.log = append(R.log, fmt.Sprintf(format, args...))
	}
}

// Step returns the logical step counter (usable as a timestamp).
func Step() int {
	if R == nil {
		return 0
	}
	return R.steps
}

// LockWaiters lists the threads currently blocked on a mutex.
// BlockedThreads lists every thread that is blocked right now (any kind of
// operation); meant to be called at quiescence.
func BlockedThreads() []Blocked {
	var out []Blocked
	if R == nil {
		return nil
	}
	for _, t := range R.threads {
		if !t.done && t.op != nil && !t.op.isEnabled() {
			out = append(out, Blocked{t.Name, t.Worker, t.op.Kind, t.op.Label})
		}
	}
	return out
}

func LockWaiters() []Blocked {
	var out []Blocked
	if R == nil {
		return nil
	}
	for _, t := range R.threads {
		if !t.done && t.op != nil && (t.op.Kind == KLock || t.op.Kind == KRLock) && !t.op.isEnabled() {
			out = append(out, Blocked{t.Name, t.Worker, t.op.Kind, t.op.Label})
		}
	}
	return out
}

// Snapshot lists every unfinished thread and what it is blocked on.
func Snapshot() []Blocked {
	var out []Blocked
	if R == nil {
		return nil
	}
	for _, t := range R.threads {
		if !t.done && t.op != nil && t != R.cur {
			out = append(out, Blocked{t.Name, t.Worker, t.op.Kind, t.op.Label})
		}
	}
	sort.Slice(out, func(i, j int) bool { return out[i].Thread < out[j].Thread })
	return out
}

// NewID returns a per-execution object number (for labels).
func NewID() int {
	if R == nil {
		return 0
	}
	R.nextObj++
	return R.nextObj
}

// Now returns the logical clock in nanoseconds.
func Now() int64 {
	if R == nil {
		return 0
	}
	return R.now
}

// Advance moves the logical clock forward.
func Advance(d int64) {
	if R != nil {
		R.now += d
	}
}

// AddTimer registers fire to be called (on the scheduler's stack, must not
// block) after d logical nanoseconds, when the system is otherwise quiescent.
// The returned function stops the timer and reports whether it was pending.
func AddTimer(d int64, fire func()) (stop func() bool) {
	r := R
	if r == nil {
		return func() bool { return false }
	}
	r.timerSeq++
	tm := &vtimer{at: r.now + d, seq: r.timerSeq, fire: fire}
	r.timers = append(r.timers, tm)
	return func() bool {
		was := !tm.dead && !tm.fired
		tm.dead = true
		return was
	}
}
