package vrt

import (
	"cmp"
	"fmt"
	"os"
	"reflect"
	"sort"
)

// SortedKeys returns the keys of m in increasing order (replaces Go's
// randomised map iteration order in instrumented code).
func SortedKeys[M ~map[K]V, K cmp.Ordered, V any](m M) []K {
	keys := make([]K, 0, len(m))
	for k := range m {
		keys = append(keys, k)
	}
	sort.Slice(keys, func(i, j int) bool { return cmp.Less(keys[i], keys[j]) })
	return keys
}

// Keys without an order (pointers, interfaces, structs): the rewriter notes
// every key at insertion (m[NoteKey(k)] = v) and ranges over StableKeys(m),
// i.e. in insertion order - one canonical order instead of Go's random one,
// and the same one in every execution of a schedule. A key that reached the
// map some other way is numbered when a range first meets it.
var keyIDs = map[interface{}]int{}

func init() { OnReset(func() { keyIDs = map[interface{}]int{} }) }

// NoteKey numbers k (first come, first numbered) and returns it.
// ZeroKV returns the zero values of the key and element types of m: a rewritten
// `for k, v := range m` declares its (shared) loop variables with them.
func ZeroKV[M ~map[K]V, K comparable, V any](m M) (k K, v V) { return }

func NoteKey[K comparable](k K) K {
	if _, ok := keyIDs[k]; !ok {
		keyIDs[k] = len(keyIDs) + 1
	}
	return k
}

// StableKeys returns the keys of m in the order in which they were noted.
func StableKeys[M ~map[K]V, K comparable, V any](m M) []K {
	keys := make([]K, 0, len(m))
	for k := range m {
		keys = append(keys, k)
	}
	if len(keys) > 1 {
		for _, k := range keys {
			NoteKey(k)
		}
		sort.Slice(keys, func(i, j int) bool { return keyIDs[keys[i]] < keyIDs[keys[j]] })
	}
	return keys
}

var fine bool

func init() { OnReset(func() { fine = false }) }

// SetFine switches statement-level scheduling points on or off.
func SetFine(on bool) { fine = on }

// FG is the statement-level scheduling point inserted in fine-grained files.
func FG() {
	r := R
	if r == nil || !fine || r.aborting || !r.exploring {
		return
	}
	r.point(&Op{Kind: KYield, Label: "fg"})
}

// Map access announcements (statement-level files only): the Go runtime aborts
// the process when a map is written while another goroutine reads or writes
// it. The announcing thread marks the map, yields once (so that an
// unsynchronised access of another thread can overlap) and unmarks it.
var (
	mapWriter  = map[uintptr]*Thread{}
	mapReaders = map[uintptr]map[*Thread]int{}
)

func init() {
	OnReset(func() {
		mapWriter = map[uintptr]*Thread{}
		mapReaders = map[uintptr]map[*Thread]int{}
	})
}

func mapKey(m interface{}) uintptr {
	v := reflect.ValueOf(m)
	if v.Kind() != reflect.Map || v.IsNil() {
		return 0
	}
	return v.Pointer()
}

// MapWrite announces a write access to m.
func MapWrite(m interface{}) {
	r := R
	if r == nil || !fine || r.aborting || !r.exploring {
		return
	}
	k := mapKey(m)
	if k == 0 {
		return
	}
	t := r.cur
	if w := mapWriter[k]; w != nil && w != t {
		Fatal("concurrent map writes")
	}
	for u, n := range mapReaders[k] {
		if u != t && n > 0 {
			Fatal("concurrent map read and map write")
		}
	}
	mapWriter[k] = t
	r.point(&Op{Kind: KYield, Label: "map-write"})
	delete(mapWriter, k)
}

// MapRead announces a read access to m.
func MapRead(m interface{}) {
	r := R
	if r == nil || !fine || r.aborting || !r.exploring {
		return
	}
	k := mapKey(m)
	if k == 0 {
		return
	}
	t := r.cur
	if w := mapWriter[k]; w != nil && w != t {
		Fatal("concurrent map read and map write")
	}
	if mapReaders[k] == nil {
		mapReaders[k] = map[*Thread]int{}
	}
	mapReaders[k][t]++
	r.point(&Op{Kind: KYield, Label: "map-read"})
	mapReaders[k][t]--
}

// hits counts block executions in coverage builds (vinstr -cov, a
// development aid: tools/coverage.sh).
var hits = map[string]int{}

// Hit records one execution of an instrumented block.
func Hit(id string) { hits[id]++ }

// DumpHits writes the counters to dir/hits-<pid>.txt.
func DumpHits(dir string) {
	if dir == "" || len(hits) == 0 {
		return
	}
	var b []byte
	for id, n := range hits {
		b = append(b, fmt.Sprintf("%d\t%s\n", n, id)...)
	}
	os.WriteFile(fmt.Sprintf("%s/hits-%d.txt", dir, os.Getpid()), b, 0o644)
}
