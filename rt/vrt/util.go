package vrt

import (
	"cmp"
	"sort"
)

// SortedKeys returns the keys of m in increasing order (replaces Go's
// randomised map iteration order in instrumented code).
func SortedKeys[M ~map[K]V, K cmp.Ordered, V any](m M) []K {
	keys := make([]K, 0, len(m))
	for k := range m {
		keys = append(keys, k)
	}
	sort.Slice(keys, func(i, j int) bool { return cmp.Less(keys[i], keys[j]) })
	return keys
}

var fine bool

func init() { OnReset(func() { fine = false }) }

// SetFine switches statement-level scheduling points on or off.
func SetFine(on bool) { fine = on }

// FG is the statement-level scheduling point inserted in fine-grained files.
func FG() {
	r := R
	if r == nil || !fine || r.aborting || !r.exploring {
		return
	}
	r.point(&Op{Kind: KYield, Label: "fg"})
}
