package vrt

import "fmt"

// chanCore is the untyped model of a Go channel.
type chanCore struct {
	id     int
	cap    int
	buf    []interface{}
	closed bool
}

// Chan is the modelled replacement of `chan T`. A nil *Chan[T] behaves like a
// nil channel.
type Chan[T any] struct {
	core chanCore
}

type selCase struct {
	send bool
	ch   *chanCore // nil for a nil channel
	val  interface{}
	ok   bool
}

// MakeChan replaces make(chan T) / make(chan T, n).
func MakeChan[T any](n ...int) *Chan[T] {
	c := &Chan[T]{}
	if len(n) > 0 {
		if n[0] < 0 {
			panic("makechan: size out of range")
		}
		c.core.cap = n[0]
	}
	c.core.id = NewID()
	return c
}

func coreOf[T any](c *Chan[T]) *chanCore {
	if c == nil {
		return nil
	}
	return &c.core
}

func (c *chanCore) label() string {
	if c == nil {
		return "nil-chan"
	}
	return fmt.Sprintf("chan#%d", c.id)
}

// partners returns the threads parked on ch with a case of direction send.
func (r *rt) partners(self *Op, ch *chanCore, send bool) (ths []*Thread, idx []int) {
	for _, u := range r.threads {
		if u.done || u.op == nil || u.op == self || u.op.Kind != KChan || u.op.completed >= 0 {
			continue
		}
		for i, cs := range u.op.cases {
			if cs.ch == ch && cs.send == send {
				ths = append(ths, u)
				idx = append(idx, i)
				break
			}
		}
	}
	return
}

func (r *rt) caseReady(op *Op, cs *selCase) bool {
	ch := cs.ch
	if ch == nil {
		return false
	}
	if cs.send {
		if ch.closed {
			return true // will panic
		}
		if ch.cap > 0 {
			return len(ch.buf) < ch.cap
		}
		ths, _ := r.partners(op, ch, false)
		return len(ths) > 0
	}
	if len(ch.buf) > 0 || ch.closed {
		return true
	}
	if ch.cap == 0 {
		ths, _ := r.partners(op, ch, true)
		return len(ths) > 0
	}
	return false
}

func chanOpEnabled(op *Op) bool {
	if op.completed >= 0 || op.hasDefault {
		return true
	}
	r := R
	for _, cs := range op.cases {
		if r.caseReady(op, cs) {
			return true
		}
	}
	return false
}

// doSelect runs a (possibly single-case) channel operation and returns the
// index of the case that fired, -1 for default.
func doSelect(hasDefault bool, cases []*selCase) int {
	r := R
	if r == nil {
		return nativeSelect(hasDefault, cases)
	}
	label := ""
	for i, cs := range cases {
		if i > 0 {
			label += ","
		}
		if cs.send {
			label += "send:" + cs.ch.label()
		} else {
			label += "recv:" + cs.ch.label()
		}
	}
	op := &Op{Kind: KChan, Label: label, cases: cases, hasDefault: hasDefault, completed: -1}
	r.point(op)
	if op.completed >= 0 {
		return op.completed
	}
	var ready []int
	for i, cs := range cases {
		if r.caseReady(op, cs) {
			ready = append(ready, i)
		}
	}
	if len(ready) == 0 {
		if !hasDefault {
			panic("vrt: channel operation scheduled while not enabled")
		}
		return -1
	}
	pickIdx := ready[0]
	if len(ready) > 1 {
		pickIdx = ready[Choose(len(ready), "select")]
	}
	cs := cases[pickIdx]
	ch := cs.ch
	if cs.send {
		if ch.closed {
			panic("send on closed channel")
		}
		if ch.cap > 0 {
			ch.buf = append(ch.buf, cs.val)
			return pickIdx
		}
		ths, idx := r.partners(op, ch, false)
		k := 0
		if len(ths) > 1 {
			k = Choose(len(ths), "rendezvous")
		}
		pc := ths[k].op.cases[idx[k]]
		pc.val, pc.ok = cs.val, true
		ths[k].op.completed = idx[k]
		return pickIdx
	}
	if len(ch.buf) > 0 {
		cs.val, cs.ok = ch.buf[0], true
		ch.buf = ch.buf[1:]
		return pickIdx
	}
	if ch.cap == 0 {
		ths, idx := r.partners(op, ch, true)
		if len(ths) > 0 {
			k := 0
			if len(ths) > 1 {
				k = Choose(len(ths), "rendezvous")
			}
			pc := ths[k].op.cases[idx[k]]
			cs.val, cs.ok = pc.val, true
			ths[k].op.completed = idx[k]
			return pickIdx
		}
	}
	if ch.closed {
		cs.val, cs.ok = nil, false
		return pickIdx
	}
	panic("vrt: receive scheduled while not ready")
}

// nativeSelect is used outside executions (package init, sequential use):
// only non-blocking behaviour is supported.
func nativeSelect(hasDefault bool, cases []*selCase) int {
	for i, cs := range cases {
		ch := cs.ch
		if ch == nil {
			continue
		}
		if cs.send {
			if ch.closed {
				panic("send on closed channel")
			}
			if len(ch.buf) < ch.cap {
				ch.buf = append(ch.buf, cs.val)
				return i
			}
		} else {
			if len(ch.buf) > 0 {
				cs.val, cs.ok = ch.buf[0], true
				ch.buf = ch.buf[1:]
				return i
			}
			if ch.closed {
				return i
			}
		}
	}
	if hasDefault {
		return -1
	}
	panic("vrt: blocking channel operation outside an execution")
}

// Send replaces `c <- v`.
func Send[T any](c *Chan[T], v T) {
	if Aborting() {
		panic(abortSentinel)
	}
	doSelect(false, []*selCase{{send: true, ch: coreOf(c), val: v}})
}

// Recv replaces `<-c`.
func Recv[T any](c *Chan[T]) T {
	v, _ := Recv2(c)
	return v
}

// Recv2 replaces `v, ok := <-c`.
func Recv2[T any](c *Chan[T]) (T, bool) {
	if Aborting() {
		panic(abortSentinel)
	}
	cs := &selCase{ch: coreOf(c)}
	doSelect(false, []*selCase{cs})
	var zero T
	if !cs.ok || cs.val == nil {
		if cs.ok {
			// a nil interface / nil pointer value was sent
			return zero, true
		}
		return zero, false
	}
	return cs.val.(T), true
}

// Close replaces close(c).
func Close[T any](c *Chan[T]) {
	if c == nil {
		panic("close of nil channel")
	}
	r := R
	if r != nil {
		if r.aborting {
			return
		}
		r.point(&Op{Kind: KClose, Label: c.core.label()})
	}
	if c.core.closed {
		panic("close of closed channel")
	}
	c.core.closed = true
}

// Len replaces len(c).
func Len[T any](c *Chan[T]) int {
	if c == nil {
		return 0
	}
	return len(c.core.buf)
}

// Cap replaces cap(c).
func Cap[T any](c *Chan[T]) int {
	if c == nil {
		return 0
	}
	return c.core.cap
}

// Closed reports whether the channel has been closed (harness monitors only).
func Closed[T any](c *Chan[T]) bool { return c != nil && c.core.closed }

// TrySendNoSched appends to the buffer without scheduling (timers).
func TrySendNoSched[T any](c *Chan[T], v T) bool {
	if c == nil || c.core.closed || len(c.core.buf) >= c.core.cap {
		return false
	}
	c.core.buf = append(c.core.buf, v)
	return true
}

// SelCase is one case of a rewritten select statement.
type SelCase interface {
	sel() *selCase
}

// RCase is a receive case; after Select returned its index, V and Ok hold the
// received value.
type RCase[T any] struct {
	cs selCase
	V  T
	Ok bool
}

func (c *RCase[T]) sel() *selCase { return &c.cs }

// SCase is a send case.
type SCase[T any] struct {
	cs selCase
}

func (c *SCase[T]) sel() *selCase { return &c.cs }

// RecvCase builds a receive case.
func RecvCase[T any](c *Chan[T]) *RCase[T] {
	return &RCase[T]{cs: selCase{ch: coreOf(c)}}
}

// SendCase builds a send case.
func SendCase[T any](c *Chan[T], v T) *SCase[T] {
	return &SCase[T]{cs: selCase{send: true, ch: coreOf(c), val: v}}
}

type filler interface{ fill() }

func (c *RCase[T]) fill() {
	c.Ok = c.cs.ok
	if c.cs.ok && c.cs.val != nil {
		c.V = c.cs.val.(T)
	}
}

// Select replaces a select statement: it returns the index of the case that
// fired, or -1 when the default branch was taken.
func Select(hasDefault bool, cases ...SelCase) int {
	if Aborting() {
		panic(abortSentinel)
	}
	cs := make([]*selCase, len(cases))
	for i, c := range cases {
		cs[i] = c.sel()
	}
	i := doSelect(hasDefault, cs)
	if i >= 0 {
		if f, ok := cases[i].(filler); ok {
			f.fill()
		}
	}
	return i
}

// Method forms (used by the rewriter: the element type is bound by the
// receiver, so ordinary assignability applies to the operands).

func (c *Chan[T]) Send(v T)               { Send(c, v) }
func (c *Chan[T]) Recv() T                { return Recv(c) }
func (c *Chan[T]) Recv2() (T, bool)       { return Recv2(c) }
func (c *Chan[T]) Close()                 { Close(c) }
func (c *Chan[T]) RecvCase() *RCase[T]    { return RecvCase(c) }
func (c *Chan[T]) SendCase(v T) *SCase[T] { return SendCase(c, v) }

// FromDone adapts ctx.Done(): the nil channel of context.Background() /
// context.TODO() stays nil; the channel of a cancellable context is mirrored
// by a modelled channel that is closed at the first scheduling point after
// the real one was closed (cancel functions are called by scheduled threads,
// so this is deterministic; deadlines of the real clock are not modelled).
func FromDone(c <-chan struct{}) *Chan[struct{}] {
	if c == nil {
		return nil
	}
	r := R
	if r == nil {
		panic("vrt: FromDone outside a controlled execution")
	}
	for _, w := range r.doneWatch {
		if w.real == c {
			return w.ch
		}
	}
	w := &doneWatch{real: c, ch: MakeChan[struct{}]()}
	r.doneWatch = append(r.doneWatch, w)
	r.pollDone()
	return w.ch
}

type doneWatch struct {
	real <-chan struct{}
	ch   *Chan[struct{}]
}

// pollDone mirrors closed context channels (no scheduling point).
func (r *rt) pollDone() {
	for _, w := range r.doneWatch {
		if w.ch.core.closed {
			continue
		}
		select {
		case <-w.real:
			w.ch.core.closed = true
		default:
		}
	}
}
