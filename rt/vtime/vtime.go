// Package vtime replaces package time in instrumented code: a logical clock
// and timers that fire only when the system is otherwise quiescent.
package vtime

import (
	"time"

	"verif/rt/vrt"
)

type (
	Duration = time.Duration
	Time     = time.Time
	Month    = time.Month
	Weekday  = time.Weekday
	Location = time.Location
)

const (
	Nanosecond  = time.Nanosecond
	Microsecond = time.Microsecond
	Millisecond = time.Millisecond
	Second      = time.Second
	Minute      = time.Minute
	Hour        = time.Hour
	RFC3339     = time.RFC3339
)

var UTC = time.UTC

var epoch = time.Unix(1700000000, 0)

// Now returns the logical time; every call advances the clock by 1µs so that
// durations are positive and deterministic.
func Now() Time {
	if !vrt.Active() {
		return time.Now()
	}
	vrt.Advance(1000)
	return epoch.Add(time.Duration(vrt.Now()))
}

func Since(t Time) Duration { return Now().Sub(t) }
func Unix(s, n int64) Time  { return time.Unix(s, n) }

// Timer replaces time.Timer.
type Timer struct {
	C    *vrt.Chan[Time]
	stop func() bool
}

func NewTimer(d Duration) *Timer {
	t := &Timer{C: vrt.MakeChan[Time](1)}
	t.stop = vrt.AddTimer(int64(d), func() {
		vrt.TrySendNoSched(t.C, epoch.Add(time.Duration(vrt.Now())))
	})
	return t
}

func (t *Timer) Stop() bool { return t.stop() }

func After(d Duration) *vrt.Chan[Time] { return NewTimer(d).C }

// Sleep is modelled as waiting for a timer.
func Sleep(d Duration) {
	if !vrt.Active() {
		return
	}
	vrt.Recv(NewTimer(d).C)
}

// Reset re-arms the timer (as time.Timer.Reset).
func (t *Timer) Reset(d Duration) bool {
	active := t.stop()
	t.stop = vrt.AddTimer(int64(d), func() {
		vrt.TrySendNoSched(t.C, epoch.Add(time.Duration(vrt.Now())))
	})
	return active
}

// AfterFunc runs f in its own modelled goroutine when the timer fires.
func AfterFunc(d Duration, f func()) *Timer {
	t := &Timer{C: vrt.MakeChan[Time](1)}
	t.stop = vrt.AddTimer(int64(d), func() { vrt.GoNamed("afterfunc", f) })
	return t
}

// Ticker replaces time.Ticker: it re-arms itself each time it fires (timers
// fire only at quiescence, so a ticker never starves the scenario).
type Ticker struct {
	C       *vrt.Chan[Time]
	d       Duration
	stop    func() bool
	stopped bool
}

func (t *Ticker) arm() {
	t.stop = vrt.AddTimer(int64(t.d), func() {
		if t.stopped {
			return
		}
		vrt.TrySendNoSched(t.C, epoch.Add(time.Duration(vrt.Now())))
		t.arm()
	})
}

// NewTicker returns a modelled ticker.
func NewTicker(d Duration) *Ticker {
	if d <= 0 {
		panic("non-positive interval for NewTicker")
	}
	t := &Ticker{C: vrt.MakeChan[Time](1), d: d}
	t.arm()
	return t
}

// Stop turns the ticker off.
func (t *Ticker) Stop() { t.stopped = true; t.stop() }

// Reset changes the period.
func (t *Ticker) Reset(d Duration) { t.stop(); t.d = d; t.arm() }

// Tick mirrors time.Tick.
func Tick(d Duration) *vrt.Chan[Time] { return NewTicker(d).C }

// Until mirrors time.Until.
func Until(t Time) Duration { return t.Sub(Now()) }
