// Package vsync replaces package sync in instrumented code: same method
// sets, but blocking is modelled by the vrt scheduler.
package vsync

import (
	"fmt"

	"verif/rt/vrt"
)

// Locker mirrors sync.Locker.
type Locker interface {
	Lock()
	Unlock()
}

// Mutex replaces sync.Mutex.
type Mutex struct {
	locked bool
	id     int
}

func (m *Mutex) label() string {
	if m.id == 0 {
		m.id = vrt.NewID()
	}
	return fmt.Sprintf("mutex#%d", m.id)
}

// Lock acquires the mutex (scheduling point).
func (m *Mutex) Lock() {
	vrt.Block(vrt.KLock, m.label(), m, func() bool { return !m.locked })
	m.locked = true
}

// TryLock mirrors (*sync.Mutex).TryLock: a scheduling point (the outcome
// depends on who runs first), never blocks.
func (m *Mutex) TryLock() bool {
	m.label()
	vrt.Yield()
	if m.locked {
		return false
	}
	m.locked = true
	return true
}

// Unlock releases the mutex (not a scheduling point).
func (m *Mutex) Unlock() {
	if vrt.Aborting() {
		m.locked = false
		return
	}
	if !m.locked {
		vrt.Fatal("sync: unlock of unlocked mutex")
	}
	m.locked = false
}

// RWMutex replaces sync.RWMutex.
type RWMutex struct {
	writer  bool
	readers int
	wwait   int
	id      int
}

func (m *RWMutex) label() string {
	if m.id == 0 {
		m.id = vrt.NewID()
	}
	return fmt.Sprintf("rwmutex#%d", m.id)
}

// Lock acquires the write lock.
func (m *RWMutex) Lock() {
	m.wwait++
	defer func() { m.wwait-- }()
	vrt.Block(vrt.KLock, m.label(), m, func() bool { return !m.writer && m.readers == 0 })
	m.writer = true
}

// TryLock mirrors (*sync.RWMutex).TryLock.
func (m *RWMutex) TryLock() bool {
	m.label()
	vrt.Yield()
	if m.writer || m.readers > 0 {
		return false
	}
	m.writer = true
	return true
}

// TryRLock mirrors (*sync.RWMutex).TryRLock.
func (m *RWMutex) TryRLock() bool {
	m.label()
	vrt.Yield()
	if m.writer || (m.readers > 0 && m.wwait > 0) {
		return false
	}
	m.readers++
	return true
}

// Unlock releases the write lock.
func (m *RWMutex) Unlock() {
	if vrt.Aborting() {
		m.writer = false
		return
	}
	if !m.writer {
		vrt.Fatal("sync: Unlock of unlocked RWMutex")
	}
	m.writer = false
}

// RLock acquires a read lock. As in Go, a writer that is blocked behind
// readers excludes new readers.
func (m *RWMutex) RLock() {
	vrt.Block(vrt.KRLock, m.label(), m, func() bool {
		return !m.writer && !(m.readers > 0 && m.wwait > 0)
	})
	m.readers++
}

// RUnlock releases a read lock.
func (m *RWMutex) RUnlock() {
	if vrt.Aborting() {
		if m.readers > 0 {
			m.readers--
		}
		return
	}
	if m.readers <= 0 {
		vrt.Fatal("sync: RUnlock of unlocked RWMutex")
	}
	m.readers--
}

// RLocker mirrors (*sync.RWMutex).RLocker.
func (m *RWMutex) RLocker() Locker { return (*rlocker)(m) }

type rlocker RWMutex

func (r *rlocker) Lock()   { (*RWMutex)(r).RLock() }
func (r *rlocker) Unlock() { (*RWMutex)(r).RUnlock() }

// WaitGroup replaces sync.WaitGroup.
type WaitGroup struct {
	n  int
	id int
}

// Add adds delta to the counter.
func (w *WaitGroup) Add(delta int) {
	w.n += delta
	if w.n < 0 && !vrt.Aborting() {
		panic("sync: negative WaitGroup counter")
	}
}

// Done decrements the counter.
func (w *WaitGroup) Done() { w.Add(-1) }

// Wait blocks until the counter is zero.
func (w *WaitGroup) Wait() {
	if w.id == 0 {
		w.id = vrt.NewID()
	}
	vrt.Block(vrt.KWait, fmt.Sprintf("waitgroup#%d", w.id), w, func() bool { return w.n == 0 })
}

// Once replaces sync.Once.
type Once struct {
	done bool
	m    Mutex
}

// Do runs f exactly once.
func (o *Once) Do(f func()) {
	if o.done {
		return
	}
	o.m.Lock()
	defer o.m.Unlock()
	if !o.done {
		defer func() { o.done = true }()
		f()
	}
}

// Pool replaces sync.Pool. Get hands back the most recently Put value (the
// real pool may also drop values or call New: every behaviour of this model
// is a behaviour of the real one). A value put twice is handed out twice,
// as the real pool would.
type Pool struct {
	New   func() any
	items []any
}

// Get takes a value from the pool (scheduling point).
func (p *Pool) Get() any {
	vrt.Yield()
	if n := len(p.items); n > 0 {
		x := p.items[n-1]
		p.items = p.items[:n-1]
		return x
	}
	if p.New != nil {
		return p.New()
	}
	return nil
}

// Put returns a value to the pool (scheduling point).
func (p *Pool) Put(x any) {
	vrt.Yield()
	if x == nil {
		return
	}
	p.items = append(p.items, x)
}

// Map replaces sync.Map: every operation is atomic and a scheduling point.
type Map struct {
	m    map[any]any
	keys []any // insertion order, for a deterministic Range
}

func (m *Map) init() {
	if m.m == nil {
		m.m = map[any]any{}
	}
}

func (m *Map) dropKey(key any) {
	for i, k := range m.keys {
		if k == key {
			m.keys = append(m.keys[:i:i], m.keys[i+1:]...)
			return
		}
	}
}

// Load returns the value stored for key.
func (m *Map) Load(key any) (any, bool) {
	vrt.Yield()
	m.init()
	v, ok := m.m[key]
	return v, ok
}

// Store sets the value for key.
func (m *Map) Store(key, value any) {
	vrt.Yield()
	m.init()
	if _, ok := m.m[key]; !ok {
		m.keys = append(m.keys, key)
	}
	m.m[key] = value
}

// LoadOrStore returns the existing value for key or stores value.
func (m *Map) LoadOrStore(key, value any) (any, bool) {
	vrt.Yield()
	m.init()
	if v, ok := m.m[key]; ok {
		return v, true
	}
	m.keys = append(m.keys, key)
	m.m[key] = value
	return value, false
}

// LoadAndDelete deletes key and returns its previous value.
func (m *Map) LoadAndDelete(key any) (any, bool) {
	vrt.Yield()
	m.init()
	v, ok := m.m[key]
	if ok {
		delete(m.m, key)
		m.dropKey(key)
	}
	return v, ok
}

// Delete deletes key.
func (m *Map) Delete(key any) { m.LoadAndDelete(key) }

// Swap stores value and returns the previous one.
func (m *Map) Swap(key, value any) (any, bool) {
	vrt.Yield()
	m.init()
	v, ok := m.m[key]
	if !ok {
		m.keys = append(m.keys, key)
	}
	m.m[key] = value
	return v, ok
}

// CompareAndSwap swaps old for new if the stored value equals old.
func (m *Map) CompareAndSwap(key, old, new any) bool {
	vrt.Yield()
	m.init()
	if v, ok := m.m[key]; ok && v == old {
		m.m[key] = new
		return true
	}
	return false
}

// CompareAndDelete deletes key if its value equals old.
func (m *Map) CompareAndDelete(key, old any) bool {
	vrt.Yield()
	m.init()
	if v, ok := m.m[key]; ok && v == old {
		delete(m.m, key)
		m.dropKey(key)
		return true
	}
	return false
}

// Range calls f for every entry (insertion order; a scheduling point per entry).
func (m *Map) Range(f func(key, value any) bool) {
	vrt.Yield()
	m.init()
	for _, k := range append([]any(nil), m.keys...) {
		v, ok := m.m[k]
		if !ok {
			continue
		}
		if !f(k, v) {
			return
		}
		vrt.Yield()
	}
}

// Cond replaces sync.Cond.
type Cond struct {
	L       Locker
	waiters []*condWaiter
	id      int
}

type condWaiter struct{ woken bool }

// NewCond returns a condition variable using l.
func NewCond(l Locker) *Cond { return &Cond{L: l} }

// Wait releases the lock, waits to be woken and takes the lock again.
func (c *Cond) Wait() {
	if c.id == 0 {
		c.id = vrt.NewID()
	}
	w := &condWaiter{}
	c.waiters = append(c.waiters, w)
	c.L.Unlock()
	vrt.Block(vrt.KWait, fmt.Sprintf("cond#%d", c.id), c, func() bool { return w.woken })
	c.L.Lock()
}

// Signal wakes one waiter.
func (c *Cond) Signal() {
	if len(c.waiters) > 0 {
		c.waiters[0].woken = true
		c.waiters = c.waiters[1:]
	}
}

// Broadcast wakes every waiter.
func (c *Cond) Broadcast() {
	for _, w := range c.waiters {
		w.woken = true
	}
	c.waiters = nil
}

// OnceFunc mirrors sync.OnceFunc.
func OnceFunc(f func()) func() {
	var o Once
	return func() { o.Do(f) }
}

// OnceValue mirrors sync.OnceValue.
func OnceValue[T any](f func() T) func() T {
	var o Once
	var v T
	return func() T {
		o.Do(func() { v = f() })
		return v
	}
}

// OnceValues mirrors sync.OnceValues.
func OnceValues[T1, T2 any](f func() (T1, T2)) func() (T1, T2) {
	var o Once
	var v1 T1
	var v2 T2
	return func() (T1, T2) {
		o.Do(func() { v1, v2 = f() })
		return v1, v2
	}
}
