// Package vsync replaces package sync in instrumented code: same method
// sets, but blocking is modelled by the vrt scheduler.
package vsync

import (
	"fmt"

	"verif/rt/vrt"
)

// Locker mirrors sync.Locker.
type Locker interface {
	Lock()
	Unlock()
}

// Mutex replaces sync.Mutex.
type Mutex struct {
	locked bool
	id     int
}

func (m *Mutex) label() string {
	if m.id == 0 {
		m.id = vrt.NewID()
	}
	return fmt.Sprintf("mutex#%d", m.id)
}

// Lock acquires the mutex (scheduling point).
func (m *Mutex) Lock() {
	vrt.Block(vrt.KLock, m.label(), m, func() bool { return !m.locked })
	m.locked = true
}

// Unlock releases the mutex (not a scheduling point).
func (m *Mutex) Unlock() {
	if vrt.Aborting() {
		m.locked = false
		return
	}
	if !m.locked {
		vrt.Fatal("sync: unlock of unlocked mutex")
	}
	m.locked = false
}

// RWMutex replaces sync.RWMutex.
type RWMutex struct {
	writer  bool
	readers int
	wwait   int
	id      int
}

func (m *RWMutex) label() string {
	if m.id == 0 {
		m.id = vrt.NewID()
	}
	return fmt.Sprintf("rwmutex#%d", m.id)
}

// Lock acquires the write lock.
func (m *RWMutex) Lock() {
	m.wwait++
	defer func() { m.wwait-- }()
	vrt.Block(vrt.KLock, m.label(), m, func() bool { return !m.writer && m.readers == 0 })
	m.writer = true
}

// Unlock releases the write lock.
func (m *RWMutex) Unlock() {
	if vrt.Aborting() {
		m.writer = false
		return
	}
	if !m.writer {
		vrt.Fatal("sync: Unlock of unlocked RWMutex")
	}
	m.writer = false
}

// RLock acquires a read lock. As in Go, a writer that is blocked behind
// readers excludes new readers.
func (m *RWMutex) RLock() {
	vrt.Block(vrt.KRLock, m.label(), m, func() bool {
		return !m.writer && !(m.readers > 0 && m.wwait > 0)
	})
	m.readers++
}

// RUnlock releases a read lock.
func (m *RWMutex) RUnlock() {
	if vrt.Aborting() {
		if m.readers > 0 {
			m.readers--
		}
		return
	}
	if m.readers <= 0 {
		vrt.Fatal("sync: RUnlock of unlocked RWMutex")
	}
	m.readers--
}

// RLocker mirrors (*sync.RWMutex).RLocker.
func (m *RWMutex) RLocker() Locker { return (*rlocker)(m) }

type rlocker RWMutex

func (r *rlocker) Lock()   { (*RWMutex)(r).RLock() }
func (r *rlocker) Unlock() { (*RWMutex)(r).RUnlock() }

// WaitGroup replaces sync.WaitGroup.
type WaitGroup struct {
	n  int
	id int
}

// Add adds delta to the counter.
func (w *WaitGroup) Add(delta int) {
	w.n += delta
	if w.n < 0 && !vrt.Aborting() {
		panic("sync: negative WaitGroup counter")
	}
}

// Done decrements the counter.
func (w *WaitGroup) Done() { w.Add(-1) }

// Wait blocks until the counter is zero.
func (w *WaitGroup) Wait() {
	if w.id == 0 {
		w.id = vrt.NewID()
	}
	vrt.Block(vrt.KWait, fmt.Sprintf("waitgroup#%d", w.id), w, func() bool { return w.n == 0 })
}

// Once replaces sync.Once.
type Once struct {
	done bool
	m    Mutex
}

// Do runs f exactly once.
func (o *Once) Do(f func()) {
	if o.done {
		return
	}
	o.m.Lock()
	defer o.m.Unlock()
	if !o.done {
		defer func() { o.done = true }()
		f()
	}
}
