// Package vrand replaces math/rand in instrumented code: each draw is an
// environment choice — default a fresh value, deviation: repeat an earlier
// draw (forces the id-collision paths).
package vrand

import "verif/rt/vrt"

var drawn []uint64
var counter uint64

func init() {
	vrt.OnReset(func() { drawn = nil; counter = 0; Forced = nil })
}

// Forced, when non-nil, supplies the next draws (used by scenarios that need a
// specific value without spending a deviation).
var Forced []uint64 // cleared on reset

func draw() uint64 { return drawN(true) }

// fresh never repeats an earlier value: used for 63-bit draws, whose
// collisions are not a realistic event (2^-63), unlike 31-bit object ids.
func fresh() uint64 { return drawN(false) }

func drawN(mayRepeat bool) uint64 {
	if len(Forced) > 0 {
		v := Forced[0]
		Forced = Forced[1:]
		drawn = append(drawn, v)
		return v
	}
	n := len(drawn)
	if n > 3 {
		n = 3
	}
	c := 0
	if mayRepeat && vrt.Exploring() && n > 0 {
		c = vrt.Choose(1+n, "rand")
	}
	if c > 0 {
		return drawn[len(drawn)-c]
	}
	counter++
	v := 0x1000 + counter*0x111
	drawn = append(drawn, v)
	return v
}

func Int() int       { return int(fresh() & 0x7fffffffffff) }
func Uint32() uint32 { return uint32(draw()) }
func Int63() int64   { return int64(fresh() & 0x7fffffffffffffff) }
func Intn(n int) int { return int(draw() % uint64(n)) }
func Seed(int64)     {}

func Uint64() uint64       { return fresh() }
func Int31() int32         { return int32(draw() & 0x7fffffff) }
func Int63n(n int64) int64 { return int64(draw() % uint64(n)) }
func Int31n(n int32) int32 { return int32(draw() % uint64(n)) }
func Float64() float64     { return float64(draw()%1000) / 1000 }
func Float32() float32     { return float32(draw()%1000) / 1000 }

// Perm returns the identity permutation (a deterministic member of the set).
func Perm(n int) []int {
	p := make([]int, n)
	for i := range p {
		p[i] = i
	}
	return p
}

// Shuffle leaves the order unchanged (a deterministic member of the set).
func Shuffle(n int, swap func(i, j int)) {}

// Read fills p with drawn bytes.
func Read(p []byte) (int, error) {
	for i := range p {
		p[i] = byte(draw())
	}
	return len(p), nil
}
