// Package vtls replaces crypto/tls in the instrumented qiloop packages: the
// real TLS implementation runs over the in-memory, scheduler-aware
// connections of vnet. Only the operations through which goroutines can block
// each other (handshake, Read, Write) are wrapped: they take modelled mutexes
// before the real ones, so that contention is a scheduling decision and never
// a real block inside crypto/tls (which would freeze the cooperative
// scheduler). Everything else is the real package (type aliases here, the
// rewriter's per-name fallback for the rest).
package vtls

import (
	"context"
	"crypto/tls"
	"net"
	"time"

	"verif/rt/vnet"
	"verif/rt/vsync"
)

type (
	Config          = tls.Config
	Certificate     = tls.Certificate
	ConnectionState = tls.ConnectionState
)

// Conn wraps a real *tls.Conn.
type Conn struct {
	real     *tls.Conn
	hmu      vsync.Mutex
	rmu, wmu vsync.Mutex
	done     bool
}

// Real returns the wrapped connection.
func (c *Conn) Real() *tls.Conn { return c.real }

// Handshake runs the handshake (once) under a modelled mutex.
func (c *Conn) Handshake() error {
	if c.done {
		return nil
	}
	c.hmu.Lock()
	defer c.hmu.Unlock()
	if c.done {
		return nil
	}
	err := c.real.Handshake()
	if err == nil {
		c.done = true
	}
	return err
}

// HandshakeContext ignores the context's cancellation (contexts of the real
// package would need a watcher goroutine outside the scheduler).
func (c *Conn) HandshakeContext(ctx context.Context) error { return c.Handshake() }

func (c *Conn) Read(p []byte) (int, error) {
	if err := c.Handshake(); err != nil {
		return 0, err
	}
	c.rmu.Lock()
	defer c.rmu.Unlock()
	return c.real.Read(p)
}

func (c *Conn) Write(p []byte) (int, error) {
	if err := c.Handshake(); err != nil {
		return 0, err
	}
	c.wmu.Lock()
	defer c.wmu.Unlock()
	return c.real.Write(p)
}

func (c *Conn) Close() error                       { return c.real.Close() }
func (c *Conn) CloseWrite() error                  { return c.real.CloseWrite() }
func (c *Conn) LocalAddr() net.Addr                { return c.real.LocalAddr() }
func (c *Conn) RemoteAddr() net.Addr               { return c.real.RemoteAddr() }
func (c *Conn) SetDeadline(t time.Time) error      { return c.real.SetDeadline(t) }
func (c *Conn) SetReadDeadline(t time.Time) error  { return c.real.SetReadDeadline(t) }
func (c *Conn) SetWriteDeadline(t time.Time) error { return c.real.SetWriteDeadline(t) }
func (c *Conn) ConnectionState() ConnectionState   { return c.real.ConnectionState() }
func (c *Conn) NetConn() net.Conn                  { return c.real.NetConn() }
func (c *Conn) VerifyHostname(host string) error   { return c.real.VerifyHostname(host) }
func (c *Conn) OCSPResponse() []byte               { return c.real.OCSPResponse() }

// Client replaces tls.Client.
func Client(conn net.Conn, config *Config) *Conn { return &Conn{real: tls.Client(conn, config)} }

// Server replaces tls.Server.
func Server(conn net.Conn, config *Config) *Conn { return &Conn{real: tls.Server(conn, config)} }

// Dial replaces tls.Dial: an in-memory connection and a complete handshake.
func Dial(network, addr string, config *Config) (*Conn, error) {
	raw, err := vnet.Dial(network, addr)
	if err != nil {
		return nil, err
	}
	if config == nil {
		config = &Config{}
	}
	c := Client(raw, config)
	if err := c.Handshake(); err != nil {
		raw.Close()
		return nil, err
	}
	return c, nil
}

type listener struct {
	net.Listener
	config *Config
}

func (l *listener) Accept() (net.Conn, error) {
	c, err := l.Listener.Accept()
	if err != nil {
		return nil, err
	}
	return Server(c, l.config), nil
}

// NewListener replaces tls.NewListener.
func NewListener(inner net.Listener, config *Config) net.Listener {
	return &listener{Listener: inner, config: config}
}

// Listen replaces tls.Listen: like the real one, Accept hands out a
// connection whose handshake has not started.
func Listen(network, laddr string, config *Config) (net.Listener, error) {
	l, err := vnet.Listen(network, laddr)
	if err != nil {
		return nil, err
	}
	return NewListener(l, config), nil
}
