// vcheck is the single entry point of every check: `vcheck <property>` with
// VERIF_TIER=quick|thorough. Engine-A properties are delegated to their
// driver under checks/<id>; engine-B properties go through the pipeline
// rewrite (vinstr) -> overlay build (vrunner) -> sharded exploration -> merge.
package main

import (
	"bytes"
	"encoding/json"
	"fmt"
	"io"
	"os"
	"os/exec"
	"path/filepath"
	"sort"
	"strings"
	"sync"
	"time"

	"verif/internal/explore"
	"verif/internal/report"
)

var busPkgs = []string{
	"github.com/lugu/qiloop/bus",
	"github.com/lugu/qiloop/bus/net",
	"github.com/lugu/qiloop/bus/directory",
	"github.com/lugu/qiloop/bus/session",
	"github.com/lugu/qiloop/bus/services",
}

type engineB struct {
	fine     []string // files instrumented at statement level
	probe    bool     // needs the generated probe service
	budget   map[string]float64
	design   string
	assume   []string
	scenPkgs []string
}

var engineBProps = map[string]*engineB{
	"C04": {design: "4/C04", fine: []string{"bus/client.go", "bus/proxy.go"}},
	"C06": {design: "4/C06"},
	"C10": {design: "4/C10"},
	"C11": {design: "4/C11"},
	"C12": {design: "4/C12", budget: map[string]float64{"quick": 110, "thorough": 900}},
	"C13": {design: "4/C13", fine: []string{"bus/signal.go", "bus/proxy.go", "bus/client.go"}},
	"C14": {design: "4/C14", fine: []string{"bus/object.go"}},
	"C15": {design: "4/C15", budget: map[string]float64{"quick": 120, "thorough": 900}, fine: []string{"bus/directory/directory.go"}},
	"C16": {design: "4/C16", fine: []string{"bus/service.go", "bus/service_reference.go"}},
	"C17": {design: "4/C17"},
	"C19": {design: "4/C19", budget: map[string]float64{"quick": 100, "thorough": 900}, fine: []string{"bus/session/session.go", "bus/auth.go", "bus/client.go", "bus/proxy.go"}},
}

func env() []string {
	e := append(os.Environ(), "GOPROXY=off", "GOSUMDB=off", "GOTOOLCHAIN=local")
	if !strings.Contains(os.Getenv("GOFLAGS"), "-modfile") {
		e = append(e, "GOFLAGS=-mod=mod")
	}
	return e
}

// repoDir is the checkout under test (/repo unless VERIF_REPO redirects a
// development run to a scratch copy).
func repoDir() string {
	if r := os.Getenv("VERIF_REPO"); r != "" {
		return r
	}
	return "/repo"
}

func run(dir string, out *bytes.Buffer, name string, args ...string) error {
	cmd := exec.Command(name, args...)
	cmd.Dir = dir
	cmd.Env = env()
	if out != nil {
		cmd.Stdout = out
		cmd.Stderr = out
	} else {
		cmd.Stdout = os.Stdout
		cmd.Stderr = os.Stderr
	}
	return cmd.Run()
}

// workDir is the build directory of a check. A development run against another
// checkout (VERIF_REPO) gets a private one, removed at the end, so that it can
// run next to a check of the same property against /repo.
func workDir(root, id string) string {
	if os.Getenv("VERIF_REPO") != "" {
		return filepath.Join(root, ".work", fmt.Sprintf("%s-alt%d", strings.ToLower(id), os.Getpid()))
	}
	return filepath.Join(root, ".work", strings.ToLower(id))
}

func repoStatus() string {
	var b bytes.Buffer
	run(repoDir(), &b, "git", "status", "--porcelain")
	return b.String()
}

func main() {
	if len(os.Args) < 2 {
		fmt.Fprintln(os.Stderr, "usage: vcheck <property> [--replay file]")
		os.Exit(2)
	}
	id := os.Args[1]
	root := report.Root()
	before := repoStatus()
	code := 2
	if eb, ok := engineBProps[id]; ok {
		if len(os.Args) >= 4 && os.Args[2] == "--replay" {
			code = replayB(root, id, eb, os.Args[3])
		} else {
			code = runB(root, id, eb)
		}
	} else {
		code = runA(root, id, os.Args[2:])
	}
	if os.Getenv("VERIF_REPO") != "" {
		os.RemoveAll(workDir(root, id))
	}
	if after := repoStatus(); after != before {
		fmt.Printf("ENGINE-ERROR property=%s the check changed /repo: before=%q after=%q\n", id, before, after)
		code = 2
	}
	os.Exit(code)
}

// runA builds and runs the engine-A driver of a property from /repo's
// current tree.
func runA(root, id string, args []string) int {
	dir := filepath.Join(root, "checks", strings.ToLower(id))
	if _, err := os.Stat(dir); err != nil {
		fmt.Fprintf(os.Stderr, "vcheck: no check for %s\n", id)
		return 2
	}
	work := workDir(root, id)
	os.MkdirAll(work, 0o755)
	bin := filepath.Join(work, "check")
	var out bytes.Buffer
	buildArgs := []string{"build", "-o", bin}
	if ov := os.Getenv("VERIF_OVERLAY"); ov != "" {
		// development aid: run an engine-A check against mutated sources
		// without touching /repo
		buildArgs = append(buildArgs, "-overlay", ov)
	}
	buildArgs = append(buildArgs, "./checks/"+strings.ToLower(id))
	if err := run(root, &out, "go", buildArgs...); err != nil {
		fmt.Printf("ENGINE-ERROR property=%s build failed:\n%s\n", id, out.String())
		return 2
	}
	cmd := exec.Command(bin, args...)
	cmd.Dir = root
	cmd.Env = env()
	cmd.Stdout = os.Stdout
	var errBuf tailBuffer
	cmd.Stderr = io.MultiWriter(os.Stderr, &errBuf)
	err := cmd.Run()
	if err == nil {
		return 0
	}
	code := 2
	if ee, ok := err.(*exec.ExitError); ok {
		code = ee.ExitCode()
	}
	if code == 1 {
		return 1
	}
	// The check process itself was aborted by the Go runtime (e.g. "fatal
	// error: concurrent map read and map write") inside the code under
	// test: engine-A checks call that code from several goroutines, which
	// the unchanged tree supports. That is a finding about the repository,
	// not a failure of the machinery.
	if msg, site := runtimeAbort(errBuf.String()); msg != "" {
		chk := report.New(id, "other")
		fp := report.FPEscape("process-abort/" + msg + "@" + site)
		chk.Report(fp, "the check process was aborted by the Go runtime inside the code under test ("+msg+" at "+site+") while its worker goroutines exercised it concurrently",
			map[string]interface{}{"stderr_tail": errBuf.String()})
		return chk.Finish(map[string]interface{}{
			"explanation": "this run did not complete: the Go runtime aborted the check process inside repository code (" + msg + "); no coverage figures are available for it",
		}, nil)
	}
	return code
}

// buildB rewrites the bus packages and the scenario packages from /repo's
// current tree and builds the runner with the overlay.
func buildB(root, id string, eb *engineB) (string, error) {
	work := workDir(root, id)
	os.RemoveAll(work)
	ov := filepath.Join(work, "ov")
	os.MkdirAll(ov, 0o755)
	var out bytes.Buffer
	vinstr := filepath.Join(work, "vinstr")
	if err := run(root, &out, "go", "build", "-o", vinstr, "./cmd/vinstr"); err != nil {
		return "", fmt.Errorf("build vinstr: %v\n%s", err, out.String())
	}
	// the runner links every scenario package, so the generated probe
	// service is always (re)produced from the current tree
	if err := genProbe(root, work); err != nil {
		return "", err
	}
	args := []string{"-out", ov}
	if os.Getenv("VERIF_COVDIR") != "" {
		// development aid (tools/coverage.sh): which blocks of the bus
		// packages do the scenarios of this property execute at all
		args = append(args, "-cov")
	}
	if len(eb.fine) > 0 {
		args = append(args, "-fine", strings.Join(eb.fine, ","))
	}
	args = append(args, busPkgs...)
	args = append(args, "verif/scenarios/...")
	out.Reset()
	if err := run(root, &out, vinstr, args...); err != nil {
		return "", fmt.Errorf("vinstr: %v\n%s", err, out.String())
	}
	runner := filepath.Join(work, "vrunner")
	out.Reset()
	if cd := os.Getenv("VERIF_COVDIR"); cd != "" {
		if b, err := os.ReadFile(filepath.Join(ov, "cov-sites.txt")); err == nil {
			os.WriteFile(filepath.Join(cd, "sites.txt"), b, 0o644)
		}
	}
	if err := run(root, &out, "go", "build", "-overlay", filepath.Join(ov, "overlay.json"), "-o", runner, "./cmd/vrunner"); err != nil {
		return "", fmt.Errorf("overlay build: %v\n%s", err, out.String())
	}
	return runner, nil
}

// genProbe generates the stub and proxy of the probe service with the
// repository's own generator, built from the current tree.
func genProbe(root, work string) error {
	var out bytes.Buffer
	gen := filepath.Join(work, "probegen")
	if err := run(root, &out, "go", "build", "-o", gen, "./cmd/probegen"); err != nil {
		return fmt.Errorf("build probegen: %v\n%s", err, out.String())
	}
	out.Reset()
	gdir := filepath.Join(work, "gen")
	os.MkdirAll(gdir, 0o755)
	if err := run(root, &out, gen, filepath.Join(root, "scenarios/probe/probe.idl"), gdir); err != nil {
		return fmt.Errorf("probegen: %v\n%s", err, out.String())
	}
	// install atomically (several checks may run at the same time)
	return os.Rename(filepath.Join(gdir, "probe_stub_gen.go"), filepath.Join(root, "scenarios/probe/probe_stub_gen.go"))
}

// minimalOnly implements subsumption for fingerprints of the form
// prefix{a+b+c}: among violations with the same prefix only those whose
// multiset of elements is minimal are kept (a longer hostile sequence that
// contains a failing shorter one is the same finding).
func minimalOnly(vs []*explore.Violation) []*explore.Violation {
	type parsed struct {
		v      *explore.Violation
		prefix string
		elems  map[string]int
		n      int
	}
	var ps []parsed
	for _, v := range vs {
		i := strings.Index(v.Fingerprint, "{")
		if i < 0 || !strings.HasSuffix(v.Fingerprint, "}") {
			ps = append(ps, parsed{v: v})
			continue
		}
		p := parsed{v: v, prefix: v.Fingerprint[:i], elems: map[string]int{}}
		body := v.Fingerprint[i+1 : len(v.Fingerprint)-1]
		if body != "" {
			for _, e := range strings.Split(body, "+") {
				p.elems[e]++
				p.n++
			}
		}
		ps = append(ps, p)
	}
	sub := func(a, b parsed) bool { // a strictly included in b
		if a.n >= b.n {
			return false
		}
		for e, n := range a.elems {
			if b.elems[e] < n {
				return false
			}
		}
		return true
	}
	var out []*explore.Violation
	for i, p := range ps {
		keep := true
		if p.elems != nil {
			for j, q := range ps {
				if i != j && q.elems != nil && sub(q, p) {
					// any failing sub-multiset subsumes it, whatever the symptom
					keep = false
					break
				}
			}
		}
		if keep {
			out = append(out, p.v)
		}
	}
	return out
}

// tailBuffer keeps the last 64 KiB written to it.
type tailBuffer struct{ b []byte }

func (t *tailBuffer) Write(p []byte) (int, error) {
	t.b = append(t.b, p...)
	if len(t.b) > 1<<16 {
		t.b = t.b[len(t.b)-1<<16:]
	}
	return len(p), nil
}

func (t *tailBuffer) String() string { return string(t.b) }

// runtimeAbort recognises a Go runtime fatal error whose running goroutine is
// inside the repository and returns the message and the first repository frame.
func runtimeAbort(stderr string) (string, string) {
	i := strings.Index(stderr, "fatal error: ")
	if i < 0 {
		return "", ""
	}
	rest := stderr[i+len("fatal error: "):]
	msg := rest
	if j := strings.Index(rest, "\n"); j >= 0 {
		msg = rest[:j]
	}
	// the first goroutine printed is the one that hit the error
	for _, line := range strings.Split(rest, "\n") {
		if strings.HasPrefix(line, "github.com/lugu/qiloop/") {
			site := line
			if k := strings.LastIndex(site, "("); k > 0 {
				site = site[:k]
			}
			return strings.TrimSpace(msg), site
		}
		if strings.HasPrefix(line, "goroutine ") && strings.Contains(line, "[") && !strings.Contains(line, "running") && strings.Contains(rest[:strings.Index(rest, line)], "goroutine ") {
			break
		}
	}
	return "", ""
}

type scenInfo struct {
	Name            string
	Quick, Thorough int
	Doc             string
	MustFlag        []string
}

func replayB(root, id string, eb *engineB, file string) int {
	runner, err := buildB(root, id, eb)
	if err != nil {
		fmt.Println("ENGINE-ERROR", err)
		return 2
	}
	// accept both a raw replay (schedule at top level) and the violation file
	// written by report (schedule under "replay")
	data, err := os.ReadFile(file)
	if err != nil {
		fmt.Println(err)
		return 2
	}
	var wrap struct {
		Replay json.RawMessage `json:"replay"`
	}
	if json.Unmarshal(data, &wrap) == nil && len(wrap.Replay) > 0 {
		tmp := filepath.Join(workDir(root, id), "replay.json")
		os.WriteFile(tmp, wrap.Replay, 0o644)
		file = tmp
	}
	cmd := exec.Command(runner, "-replay", file)
	cmd.Stdout, cmd.Stderr = os.Stdout, os.Stderr
	if err := cmd.Run(); err != nil {
		if ee, ok := err.(*exec.ExitError); ok {
			return ee.ExitCode()
		}
		return 2
	}
	return 0
}

func runB(root, id string, eb *engineB) int {
	chk := report.New(id, "model_checking")
	tier := report.Tier()
	t0 := time.Now()
	runner, err := buildB(root, id, eb)
	if err != nil {
		chk.EngineError("%v", err)
		return chk.Finish(map[string]interface{}{"evaluations": 0}, nil)
	}
	buildS := time.Since(t0).Seconds()
	var lst bytes.Buffer
	if err := run(root, &lst, runner, "-property", id, "-list"); err != nil {
		chk.EngineError("list scenarios: %v %s", err, lst.String())
		return chk.Finish(nil, nil)
	}
	var scens []scenInfo
	if err := json.Unmarshal(lst.Bytes(), &scens); err != nil || len(scens) == 0 {
		chk.EngineError("no scenarios for %s (%v)", id, err)
		return chk.Finish(nil, nil)
	}
	// wall-clock budget for the exploration phase
	budget := 75.0
	if tier == "thorough" {
		budget = 780.0
	}
	if eb.budget != nil && eb.budget[tier] > 0 {
		budget = eb.budget[tier]
	}
	shards := 16
	// scenarios run one after the other, each on all cores
	per := budget / float64(len(scens))
	validate := 7
	if tier == "thorough" {
		validate = 101
	}
	// bonus levels: once the requested bound of a scenario is complete, the
	// explorer goes on with bound+1, bound+2 ... until the scenario's share of
	// the bonus budget is used up. What a bonus level covers is reported
	// (executions_per_deviation_count, completed_bound); cutting it short is not
	// a time-out and never affects `exhaustive`, which refers to the requested bound.
	bonusLevels, bonusBudget := 30, 50.0
	if tier == "thorough" {
		bonusLevels, bonusBudget = 30, budget
	}
	if v := os.Getenv("VERIF_BONUS_S"); v != "" {
		fmt.Sscanf(v, "%g", &bonusBudget)
	}
	bonusPer := bonusBudget / float64(len(scens))
	type scenRes struct {
		info scenInfo
		st   *explore.Stats
		bnd  int
	}
	var results []scenRes
	var global []*explore.Violation
	vacuous := []string{}
	globalDoc := map[*explore.Violation]string{}
	globalScen := map[*explore.Violation]string{}
	remaining := budget
	for i, sc := range scens {
		bound := sc.Quick
		if tier == "thorough" {
			bound = sc.Thorough
		}
		if bound < 0 {
			continue // not part of this tier
		}
		// development aid: VERIF_ONLY=<substring> runs the matching scenarios only,
		// VERIF_BOUND_ADD=<n> raises their requested bound
		if f := os.Getenv("VERIF_ONLY"); f != "" && !strings.Contains(sc.Name, f) {
			continue
		}
		if v := os.Getenv("VERIF_BOUND_ADD"); v != "" {
			var n int
			fmt.Sscanf(v, "%d", &n)
			bound += n
		}
		deadline := per
		// unused budget of earlier scenarios is passed on
		if left := remaining / float64(len(scens)-i); left > deadline {
			deadline = left
		}
		ts := time.Now()
		parts := make([]*explore.Stats, shards)
		errs := make([]string, shards)
		aborts := make([][3]string, shards)
		var wg sync.WaitGroup
		for s := 0; s < shards; s++ {
			wg.Add(1)
			go func(s int) {
				defer wg.Done()
				var out, errb bytes.Buffer
				// address-space cap: a runaway allocation of the code under
				// test kills the shard (engine error), never the machine
				cmd := exec.Command("sh", "-c", "ulimit -v 12582912; exec \"$0\" \"$@\"", runner, "-property", id, "-scenario", sc.Name,
					"-bound", fmt.Sprint(bound), "-shard", fmt.Sprint(s), "-shards", fmt.Sprint(shards),
					"-deadline", fmt.Sprintf("%.1f", deadline), "-validate", fmt.Sprint(validate),
					"-bonus", fmt.Sprint(bonusLevels), "-bonus-deadline", fmt.Sprintf("%.2f", bonusPer))
				cmd.Env = append(env(), "GOMAXPROCS=2")
				cmd.Stdout, cmd.Stderr = &out, &errb
				if err := cmd.Run(); err != nil {
					tail := errb.String()
					if len(tail) > 3000 {
						tail = tail[len(tail)-3000:]
					}
					if msg, site := runtimeAbort(errb.String()); msg != "" {
						// the Go runtime aborted the worker (out of memory,
						// stack overflow...): the code under test killed the
						// process - a violation, not a tool failure
						aborts[s] = [3]string{msg, site, tail}
						return
					}
					errs[s] = fmt.Sprintf("shard %d of %s: %v: %s", s, sc.Name, err, tail)
					return
				}
				var st explore.Stats
				if err := json.Unmarshal(out.Bytes(), &st); err != nil {
					errs[s] = fmt.Sprintf("shard %d of %s: bad output: %v", s, sc.Name, err)
					return
				}
				parts[s] = &st
			}(s)
		}
		wg.Wait()
		remaining -= time.Since(ts).Seconds()
		if remaining < 0 {
			remaining = 0
		}
		var ok []*explore.Stats
		abortSeen := map[string]bool{}
		for s := range parts {
			if a := aborts[s]; a[0] != "" {
				fp := report.FPEscape(sc.Name + "/process-abort/" + a[0] + "@" + a[1])
				if !abortSeen[fp] {
					abortSeen[fp] = true
					chk.Report(fp, fmt.Sprintf("%s: the Go runtime aborted the worker process while it explored this scenario: fatal error: %s (at %s)", sc.Doc, a[0], a[1]),
						map[string]interface{}{"property": id, "scenario": sc.Name, "note": "the worker died: no schedule was returned; re-run the check to reproduce", "stderr_tail": a[2]})
				}
				continue
			}
			if errs[s] != "" {
				chk.EngineError("%s", errs[s])
			} else {
				ok = append(ok, parts[s])
			}
		}
		if len(ok) == 0 {
			continue
		}
		m := explore.Merge(ok)
		results = append(results, scenRes{sc, m, bound})
		for _, e := range m.EngineErrors {
			chk.EngineError("%s: %s", sc.Name, e)
		}
		for _, v := range m.Violations {
			if strings.HasPrefix(v.Fingerprint, "=") {
				// property-wide fingerprint: the same root cause shows up in
				// several scenarios; reported after subsumption over all of them
				global = append(global, v)
				globalDoc[v] = sc.Doc
				globalScen[v] = sc.Name
				continue
			}
			fp := report.FPEscape(sc.Name + "/" + v.Fingerprint)
			chk.Report(fp, fmt.Sprintf("%s: %s (%d executions, first with %d deviations)", sc.Doc, v.Detail, v.Count, v.Deviations),
				map[string]interface{}{"property": id, "scenario": sc.Name, "schedule": v.Schedule, "clause": v.Clause,
					"detail": v.Detail, "outcome": v.Outcome, "crash": v.Crash, "blocked": v.Blocked})
		}
		// vacuity guard: only when the requested bound was completed (a run cut
		// short by its deadline on a loaded machine reports exhaustive:false
		// instead of failing)
		if (m.Exhaustive || m.CompletedBound >= bound) && len(m.Violations) == 0 {
			for _, f := range sc.MustFlag {
				if m.Flags[f] == 0 {
					// The predicates are calibrated on the tree the harness was
					// written for; a changed repository may legitimately make one
					// unreachable (e.g. by serialising what used to race), which is
					// not a failure of the tool: reported, recorded in the evidence,
					// fatal only on request (VERIF_STRICT_VACUITY=1, development).
					vacuous = append(vacuous, sc.Name+": "+f)
					if os.Getenv("VERIF_STRICT_VACUITY") != "" {
						chk.EngineError("%s: vacuous exploration: collision predicate %q never satisfied", sc.Name, f)
					} else {
						fmt.Printf("WARNING property=%s %s: collision predicate %q never satisfied within the completed bound (vacuous for that predicate)\n", id, sc.Name, f)
					}
				}
			}
		}
		fmt.Printf("  %-34s bound=%d completed=%d exhaustive=%v executions=%d outcomes=%d violations=%d wall=%.1fs\n",
			sc.Name, bound, m.CompletedBound, m.Exhaustive, m.Executions, len(m.Outcomes), len(m.Violations), m.WallS)
	}
	for _, v := range minimalOnly(global) {
		fp := report.FPEscape(v.Fingerprint[1:])
		chk.Report(fp, fmt.Sprintf("%s: %s (%d executions, first with %d deviations)", globalDoc[v], v.Detail, v.Count, v.Deviations),
			map[string]interface{}{"property": id, "scenario": globalScen[v], "schedule": v.Schedule, "clause": v.Clause,
				"detail": v.Detail, "outcome": v.Outcome, "crash": v.Crash, "blocked": v.Blocked})
	}
	// evidence
	var evals, trans, valid, states int
	exhaustive := true
	distinct := map[string]bool{}
	nontrivial := map[string]bool{}
	var perScen []map[string]interface{}
	var samples []interface{}
	for _, r := range results {
		evals += r.st.Executions
		trans += r.st.Transitions
		valid += r.st.Validated
		states += r.st.Executions + r.st.Reruns
		if !(r.st.Exhaustive || r.st.CompletedBound >= r.bnd) {
			exhaustive = false
		}
		for o := range r.st.Outcomes {
			distinct[r.info.Name+"|"+o] = true
		}
		for o := range r.st.Nontrivial {
			nontrivial[r.info.Name+"|"+o] = true
		}
		flags := map[string]int{}
		for k, v := range r.st.Flags {
			flags[k] = v
		}
		perScen = append(perScen, map[string]interface{}{
			"scenario": r.info.Name, "doc": r.info.Doc, "bound_requested": r.bnd, "completed_bound": r.st.CompletedBound,
			"tree_exhausted": r.st.Exhaustive, "timed_out": r.st.TimedOut, "executions": r.st.Executions,
			"executions_per_deviation_count": r.st.PerBound, "distinct_outcomes": len(r.st.Outcomes),
			"collision_predicates": flags, "max_choice_points": r.st.MaxPoints, "max_threads": r.st.MaxThreads,
			"violations": len(r.st.Violations), "wall_s": r.st.WallS,
		})
		if r.st.SampleOutcome != "" || len(r.st.Outcomes) > 0 {
			so := r.st.SampleOutcome
			if so == "" {
				keys := make([]string, 0, len(r.st.Outcomes))
				for k := range r.st.Outcomes {
					keys = append(keys, k)
				}
				sort.Strings(keys)
				so = keys[0]
			}
			samples = append(samples, map[string]interface{}{"scenario": r.info.Name, "schedule": r.st.SampleSchedule, "outcome": so})
		}
	}
	nt := len(nontrivial)
	if nt == 0 {
		nt = len(distinct)
	}
	cov := map[string]interface{}{
		"states":                        states,
		"transitions":                   trans,
		"traces_validated_against_impl": valid,
		"evaluations":                   evals,
		"distinct_nontrivial":           nt,
		"distinct_outcomes":             len(distinct),
		"rule": "every schedule / environment-answer sequence of each scenario with at most `bound_requested` deviations from the default scheduler " +
			"(a deviation = any non-default answer at a recorded choice point: preemption, non-default thread on block, select case, read fragmentation, random draw); " +
			"distinct = distinct observable outcome strings per scenario; non-trivial = outcomes of executions in which at least one declared collision predicate held",
		"samples":                      samples,
		"exhaustive":                   exhaustive,
		"scenarios":                    perScen,
		"vacuous_collision_predicates": vacuous,
		"build_s":                      buildS,
		"explanation": "states = executions run (evaluated + re-run by iterative deepening), transitions = scheduler steps of evaluated executions, " +
			"traces_validated_against_impl = executions replayed a second time from their recorded choice list on the real code with an identical step hash and outcome; " +
			"exhaustive = every scenario enumerated the finite space named in `rule` (all schedules with at most bound_requested deviations) completely within its deadline - " +
			"it does not mean all interleavings: a scenario whose whole choice tree was walked says tree_exhausted:true; " +
			"bonus levels: after its requested bound a scenario goes on with bound+1.. until its share of the bonus budget is spent - completed_bound > bound_requested " +
			"means those further levels were finished too, bonus_level_cut_short means the next one was started and only partly walked (its executions are counted in executions_per_deviation_count)",
	}
	assume := append([]string{
		"code between two synchronisation operations is atomic unless the file is instrumented at statement level (data-race freedom elsewhere)",
		"sequential consistency; sub-statement interleavings and weak-memory effects are not explored",
		"the in-memory stream implements the documented net.Conn contract: atomic Write, arbitrary read fragmentation, close/EOF semantics",
		"timers fire only at quiescence",
	}, eb.assume...)
	return chk.Finish(cov, assume)
}
