// vinstr rewrites the concurrency constructs of the bus packages (and of the
// harness packages) into calls to the vrt controlled-scheduler runtime and
// emits a `go build -overlay` file. /repo is never modified.
//
//	vinstr -out DIR [-fine file1.go,file2.go] pkgpattern...
package main

import (
	"bytes"
	"encoding/json"
	"flag"
	"fmt"
	"go/ast"
	"go/constant"
	"go/printer"
	"go/token"
	"go/types"
	"os"
	"path/filepath"
	"strconv"
	"strings"

	"golang.org/x/tools/go/ast/astutil"
	"golang.org/x/tools/go/packages"
)

const (
	vrtPath   = "verif/rt/vrt"
	vsyncPath = "verif/rt/vsync"
	vtimePath = "verif/rt/vtime"
	vrandPath = "verif/rt/vrand"
	vnetPath  = "verif/rt/vnet"
	vtlsPath  = "verif/rt/vtls"
)

var fineFiles = map[string]bool{}

// shimExports: shim package path -> exported (package-level) names.
var shimExports = map[string]map[string]bool{}

// covMode and covSites: see insertHits.
var (
	covMode  bool
	covSites []string
)

func main() {
	out := flag.String("out", "", "output directory")
	fine := flag.String("fine", "", "comma separated file suffixes (e.g. bus/signal.go) to instrument at statement level")
	flag.BoolVar(&covMode, "cov", false, "development aid: count the executions of every block (vrt.Hit) and list the sites in DIR/cov-sites.txt")
	flag.Parse()
	if *out == "" || flag.NArg() == 0 {
		fmt.Fprintln(os.Stderr, "usage: vinstr -out DIR [-fine files] patterns...")
		os.Exit(2)
	}
	for _, f := range strings.Split(*fine, ",") {
		if f != "" {
			fineFiles[f] = true
		}
	}
	if err := os.MkdirAll(*out, 0o755); err != nil {
		fatal(err)
	}
	cfg := &packages.Config{
		Mode: packages.NeedName | packages.NeedFiles | packages.NeedCompiledGoFiles |
			packages.NeedSyntax | packages.NeedTypes | packages.NeedTypesInfo | packages.NeedImports | packages.NeedModule,
		Dir: mustAbs("."),
		Env: goEnv(),
	}
	pkgs, err := packages.Load(cfg, flag.Args()...)
	if err != nil {
		fatal(err)
	}
	// exported names of the shims: a reference to a name a shim does not
	// provide keeps the real package (see fallbackSelector)
	shims, err := packages.Load(&packages.Config{Mode: packages.NeedName | packages.NeedTypes, Dir: cfg.Dir, Env: cfg.Env},
		vsyncPath, vtimePath, vrandPath, vnetPath, vtlsPath)
	if err != nil {
		fatal(err)
	}
	for _, sp := range shims {
		names := map[string]bool{}
		if sp.Types != nil {
			for _, n := range sp.Types.Scope().Names() {
				names[n] = true
			}
		}
		shimExports[sp.PkgPath] = names
	}
	bad := false
	for _, p := range pkgs {
		for _, e := range p.Errors {
			fmt.Fprintf(os.Stderr, "load error: %s: %v\n", p.PkgPath, e)
			bad = true
		}
	}
	if bad {
		os.Exit(2)
	}
	overlay := map[string]string{}
	n := 0
	for _, p := range pkgs {
		for i, f := range p.Syntax {
			src := p.CompiledGoFiles[i]
			rw := &rewriter{pkg: p, info: p.TypesInfo, fset: p.Fset, file: f, path: src}
			rw.sharedLoopVar = p.Module != nil && loopVarShared(p.Module.GoVersion)
			for suf := range fineFiles {
				if strings.HasSuffix(src, "/"+suf) {
					rw.fine = true
				}
			}
			code, err := rw.rewrite()
			if err != nil {
				fatal(fmt.Errorf("%s: %v", src, err))
			}
			dst := filepath.Join(*out, fmt.Sprintf("f%04d_%s", n, filepath.Base(src)))
			n++
			if err := os.WriteFile(dst, code, 0o644); err != nil {
				fatal(err)
			}
			overlay[src] = dst
		}
	}
	js, _ := json.MarshalIndent(map[string]interface{}{"Replace": overlay}, "", " ")
	if covMode {
		os.WriteFile(filepath.Join(*out, "cov-sites.txt"), []byte(strings.Join(covSites, "\n")+"\n"), 0o644)
	}
	if err := os.WriteFile(filepath.Join(*out, "overlay.json"), js, 0o644); err != nil {
		fatal(err)
	}
	fmt.Printf("vinstr: %d files of %d packages rewritten\n", n, len(pkgs))
}

func goEnv() []string {
	e := append(os.Environ(), "GOPROXY=off", "GOSUMDB=off", "GOTOOLCHAIN=local")
	if !strings.Contains(os.Getenv("GOFLAGS"), "-modfile") {
		e = append(e, "GOFLAGS=-mod=mod")
	}
	return e
}

func mustAbs(p string) string {
	a, err := filepath.Abs(p)
	if err != nil {
		fatal(err)
	}
	return a
}

func fatal(err error) {
	fmt.Fprintln(os.Stderr, "vinstr:", err)
	os.Exit(2)
}

type selInfo struct {
	clauses []*commInfo
}

type commInfo struct {
	clause  *ast.CommClause
	isSend  bool
	ch      ast.Expr // channel expression node (children rewritten in place)
	recv    *ast.UnaryExpr
	send    *ast.SendStmt
	lhs     []ast.Expr
	tok     token.Token
	deflt   bool
	comment string
}

// loopVarShared: a module whose go.mod states a version before 1.22 has ONE variable per
// `for x := range` loop, shared by every iteration and every closure made in the body
// (lugu/qiloop says go 1.13). A rewritten loop has to keep that.
func loopVarShared(goVersion string) bool {
	var major, minor int
	if n, _ := fmt.Sscanf(goVersion, "%d.%d", &major, &minor); n < 2 {
		return false
	}
	return major == 1 && minor < 22
}

type rewriter struct {
	realImports map[string]string // alias -> real package path kept next to its shim
	// sharedLoopVar: see loopVarShared
	sharedLoopVar bool

	pkg  *packages.Package
	info *types.Info
	fset *token.FileSet
	file *ast.File
	path string
	fine bool

	usedVrt  bool
	recv2    map[*ast.UnaryExpr]bool
	skip     map[ast.Node]bool
	goConst  map[*ast.GoStmt][]bool
	makeChan map[*ast.CallExpr]bool
	closeCh  map[*ast.CallExpr]bool
	lenCap   map[*ast.CallExpr]string
	doneCall map[*ast.CallExpr]bool
	rangeCh  map[*ast.RangeStmt]bool
	rangeMap map[*ast.RangeStmt]bool
	// rangeStable: range over a map whose keys have no order (pointers,
	// interfaces, structs): iterated in insertion order (vrt.StableKeys)
	rangeStable map[*ast.RangeStmt]bool
	sels        map[*ast.SelectStmt]*selInfo
	labeled     map[ast.Stmt]bool
	tmp         int
	err         error
}

func (rw *rewriter) fail(n ast.Node, format string, args ...interface{}) {
	if rw.err == nil {
		rw.err = fmt.Errorf("%s: %s", rw.fset.Position(n.Pos()), fmt.Sprintf(format, args...))
	}
}

func (rw *rewriter) vrt(name string) ast.Expr {
	rw.usedVrt = true
	return &ast.SelectorExpr{X: ast.NewIdent("vrt"), Sel: ast.NewIdent(name)}
}

func (rw *rewriter) fresh(prefix string) string {
	rw.tmp++
	return fmt.Sprintf("_v%s%d", prefix, rw.tmp)
}

func unparen(e ast.Expr) ast.Expr {
	for {
		p, ok := e.(*ast.ParenExpr)
		if !ok {
			return e
		}
		e = p.X
	}
}

func operand(e ast.Expr) ast.Expr {
	switch unparen(e).(type) {
	case *ast.Ident, *ast.SelectorExpr, *ast.CallExpr, *ast.IndexExpr:
		return e
	}
	return &ast.ParenExpr{X: e}
}

func method(recv ast.Expr, name string, args ...ast.Expr) *ast.CallExpr {
	return &ast.CallExpr{Fun: &ast.SelectorExpr{X: operand(recv), Sel: ast.NewIdent(name)}, Args: args}
}

func (rw *rewriter) isBuiltin(e ast.Expr, name string) bool {
	id, ok := unparen(e).(*ast.Ident)
	if !ok || id.Name != name {
		return false
	}
	_, ok = rw.info.Uses[id].(*types.Builtin)
	return ok
}

func (rw *rewriter) isChan(e ast.Expr) bool {
	t := rw.info.TypeOf(e)
	if t == nil {
		return false
	}
	_, ok := t.Underlying().(*types.Chan)
	return ok
}

func orderedKey(t types.Type) bool {
	m, ok := t.Underlying().(*types.Map)
	if !ok {
		return false
	}
	b, ok := m.Key().Underlying().(*types.Basic)
	if !ok {
		return false
	}
	return b.Info()&(types.IsInteger|types.IsFloat|types.IsString) != 0
}

func simpleExpr(e ast.Expr) bool {
	switch x := unparen(e).(type) {
	case *ast.Ident:
		return true
	case *ast.SelectorExpr:
		return simpleExpr(x.X)
	}
	return false
}

func (rw *rewriter) rewrite() ([]byte, error) {
	rw.recv2 = map[*ast.UnaryExpr]bool{}
	rw.skip = map[ast.Node]bool{}
	rw.goConst = map[*ast.GoStmt][]bool{}
	rw.makeChan = map[*ast.CallExpr]bool{}
	rw.closeCh = map[*ast.CallExpr]bool{}
	rw.lenCap = map[*ast.CallExpr]string{}
	rw.doneCall = map[*ast.CallExpr]bool{}
	rw.rangeCh = map[*ast.RangeStmt]bool{}
	rw.rangeMap = map[*ast.RangeStmt]bool{}
	rw.rangeStable = map[*ast.RangeStmt]bool{}
	rw.sels = map[*ast.SelectStmt]*selInfo{}
	rw.labeled = map[ast.Stmt]bool{}

	rw.rewriteImports()

	astutil.Apply(rw.file, rw.pre, rw.post)
	if rw.err != nil {
		return nil, rw.err
	}
	if covMode && strings.Contains(rw.path, "/bus/") && !strings.Contains(rw.path, "/verif/") {
		rw.insertHits()
	}
	if rw.fine {
		rw.insertYields()
	}
	if rw.usedVrt {
		rw.ensureImport("vrt", vrtPath)
	}
	for alias, path := range rw.realImports {
		rw.ensureImport(alias, path)
	}
	if len(rw.realImports) > 0 {
		// a shim whose every use fell back to the real package is no longer used
		used := map[string]bool{}
		ast.Inspect(rw.file, func(n ast.Node) bool {
			if sel, ok := n.(*ast.SelectorExpr); ok {
				if id, ok := sel.X.(*ast.Ident); ok {
					used[id.Name] = true
				}
			}
			return true
		})
		for _, imp := range rw.file.Imports {
			if imp.Name != nil && imp.Name.Name != "_" && imp.Name.Name != "." && !used[imp.Name.Name] {
				p, _ := strconv.Unquote(imp.Path.Value)
				if shimExports[p] != nil {
					imp.Name = ast.NewIdent("_")
				}
			}
		}
	}
	stripComments(rw.file)
	var buf bytes.Buffer
	buf.WriteString("//go:build go1.18\n\n")
	cfg := printer.Config{Mode: printer.UseSpaces | printer.TabIndent, Tabwidth: 8}
	if err := cfg.Fprint(&buf, token.NewFileSet(), rw.file); err != nil {
		return nil, err
	}
	return buf.Bytes(), nil
}

func stripComments(f *ast.File) {
	f.Comments = nil
	f.Doc = nil
	ast.Inspect(f, func(n ast.Node) bool {
		switch x := n.(type) {
		case *ast.GenDecl:
			x.Doc = nil
		case *ast.FuncDecl:
			x.Doc = nil
		case *ast.Field:
			x.Doc, x.Comment = nil, nil
		case *ast.TypeSpec:
			x.Doc, x.Comment = nil, nil
		case *ast.ValueSpec:
			x.Doc, x.Comment = nil, nil
		case *ast.ImportSpec:
			x.Doc, x.Comment = nil, nil
		}
		return true
	})
}

func (rw *rewriter) replacements() map[string]string {
	repl := map[string]string{
		"sync":      vsyncPath,
		"time":      vtimePath,
		"math/rand": vrandPath,
	}
	// packages net and crypto/tls are only replaced inside the qiloop bus packages (the
	// harness uses vnet explicitly)
	if strings.HasPrefix(rw.pkg.PkgPath, "github.com/lugu/qiloop/") {
		repl["net"] = vnetPath
		repl["crypto/tls"] = vtlsPath
	}
	return repl
}

// fallbackSelector keeps the real package for a name the shim does not
// provide (constants, formatting helpers, rarely used functions): the file
// then imports the real package under the alias real_<name> as well. Code
// changes that reach for such a name still build; what the name does is then
// outside the scheduler's control (stated in the evidence assumptions).
func (rw *rewriter) fallbackSelector(n *ast.SelectorExpr) {
	id, ok := n.X.(*ast.Ident)
	if !ok {
		return
	}
	pn, ok := rw.info.Uses[id].(*types.PkgName)
	if !ok {
		return
	}
	path := pn.Imported().Path()
	shim, ok := rw.replacements()[path]
	if !ok || shimExports[shim] == nil || shimExports[shim][n.Sel.Name] {
		return
	}
	alias := "real_" + strings.ReplaceAll(path[strings.LastIndex(path, "/")+1:], "-", "_")
	id.Name = alias
	if rw.realImports == nil {
		rw.realImports = map[string]string{}
	}
	rw.realImports[alias] = path
}

func (rw *rewriter) rewriteImports() {
	repl := rw.replacements()
	for _, imp := range rw.file.Imports {
		p, _ := strconv.Unquote(imp.Path.Value)
		np, ok := repl[p]
		if !ok {
			continue
		}
		if imp.Name == nil {
			base := p[strings.LastIndex(p, "/")+1:]
			imp.Name = ast.NewIdent(base)
		}
		imp.Path = &ast.BasicLit{Kind: token.STRING, Value: strconv.Quote(np)}
	}
}

func (rw *rewriter) ensureImport(name, path string) {
	for _, imp := range rw.file.Imports {
		p, _ := strconv.Unquote(imp.Path.Value)
		if p == path {
			if imp.Name != nil && imp.Name.Name != name {
				rw.err = fmt.Errorf("%s imports %s under another name", rw.path, path)
			}
			return
		}
	}
	spec := &ast.ImportSpec{Name: ast.NewIdent(name), Path: &ast.BasicLit{Kind: token.STRING, Value: strconv.Quote(path)}}
	decl := &ast.GenDecl{Tok: token.IMPORT, Specs: []ast.Spec{spec}}
	rw.file.Decls = append([]ast.Decl{decl}, rw.file.Decls...)
	rw.file.Imports = append(rw.file.Imports, spec)
}

func (rw *rewriter) pre(c *astutil.Cursor) bool {
	switch n := c.Node().(type) {
	case *ast.SelectorExpr:
		rw.fallbackSelector(n)
	case *ast.LabeledStmt:
		rw.labeled[n.Stmt] = true
	case *ast.AssignStmt:
		if len(n.Lhs) == 2 && len(n.Rhs) == 1 {
			if u, ok := unparen(n.Rhs[0]).(*ast.UnaryExpr); ok && u.Op == token.ARROW {
				rw.recv2[u] = true
			}
		}
		// m[k] = v on a map whose keys have no order: the key is noted at
		// insertion so that a later range can follow the insertion order
		for _, l := range n.Lhs {
			if ix, ok := unparen(l).(*ast.IndexExpr); ok {
				if t := rw.info.TypeOf(ix.X); t != nil {
					if _, isMap := t.Underlying().(*types.Map); isMap && !orderedKey(t) {
						ix.Index = &ast.CallExpr{Fun: rw.vrt("NoteKey"), Args: []ast.Expr{ix.Index}}
					}
				}
			}
		}
	case *ast.ValueSpec:
		if len(n.Names) == 2 && len(n.Values) == 1 {
			if u, ok := unparen(n.Values[0]).(*ast.UnaryExpr); ok && u.Op == token.ARROW {
				rw.recv2[u] = true
			}
		}
	case *ast.GoStmt:
		var cs []bool
		for _, a := range n.Call.Args {
			tv, ok := rw.info.Types[a]
			isConst := ok && (tv.Value != nil || tv.IsNil())
			cs = append(cs, isConst)
		}
		rw.goConst[n] = cs
	case *ast.CallExpr:
		switch {
		case rw.isBuiltin(n.Fun, "make") && len(n.Args) > 0 && rw.isChanType(n.Args[0]):
			if _, ok := unparen(n.Args[0]).(*ast.ChanType); !ok {
				rw.fail(n, "make of a named channel type is not supported")
			}
			rw.makeChan[n] = true
		case rw.isBuiltin(n.Fun, "close") && len(n.Args) == 1:
			rw.closeCh[n] = true
		case (rw.isBuiltin(n.Fun, "len") || rw.isBuiltin(n.Fun, "cap")) && len(n.Args) == 1 && rw.isChan(n.Args[0]):
			rw.lenCap[n] = unparen(n.Fun).(*ast.Ident).Name
		default:
			if sel, ok := n.Fun.(*ast.SelectorExpr); ok && sel.Sel.Name == "Done" && len(n.Args) == 0 {
				if t := rw.info.TypeOf(n); t != nil {
					if ch, ok := t.Underlying().(*types.Chan); ok && ch.Dir() == types.RecvOnly {
						if rt := rw.info.TypeOf(sel.X); rt != nil && strings.HasSuffix(rt.String(), "context.Context") {
							rw.doneCall[n] = true
						}
					}
				}
			}
		}
	case *ast.RangeStmt:
		t := rw.info.TypeOf(n.X)
		if t != nil {
			if _, ok := t.Underlying().(*types.Chan); ok {
				rw.rangeCh[n] = true
			} else if orderedKey(t) {
				rw.rangeMap[n] = true
			} else if _, ok := t.Underlying().(*types.Map); ok {
				rw.rangeMap[n] = true
				rw.rangeStable[n] = true
			}
		}
	case *ast.SelectStmt:
		si := &selInfo{}
		for _, s := range n.Body.List {
			cc := s.(*ast.CommClause)
			ci := &commInfo{clause: cc}
			switch cm := cc.Comm.(type) {
			case nil:
				ci.deflt = true
			case *ast.SendStmt:
				ci.isSend = true
				ci.send = cm
				rw.skip[cm] = true
			case *ast.ExprStmt:
				u, ok := unparen(cm.X).(*ast.UnaryExpr)
				if !ok || u.Op != token.ARROW {
					rw.fail(cm, "unsupported select case")
					return false
				}
				ci.recv = u
				rw.skip[u] = true
			case *ast.AssignStmt:
				u, ok := unparen(cm.Rhs[0]).(*ast.UnaryExpr)
				if !ok || u.Op != token.ARROW {
					rw.fail(cm, "unsupported select case")
					return false
				}
				ci.recv = u
				ci.lhs = cm.Lhs
				ci.tok = cm.Tok
				rw.skip[u] = true
				rw.skip[cm] = true
			}
			si.clauses = append(si.clauses, ci)
		}
		rw.sels[n] = si
	case *ast.TypeSpec:
		if _, ok := n.Type.(*ast.ChanType); ok {
			// a defined channel type becomes an alias of the modelled
			// channel (defined pointer types cannot carry methods)
			if n.Assign == token.NoPos {
				// (its methods, if any, become plain functions: see chanMethod)
				n.Assign = n.Name.End()
			}
		}
	}
	return true
}

// chanMethod: a defined channel type becomes an alias of *vrt.Chan[T] and an
// alias cannot carry methods. A method M of such a type T is therefore turned
// into the function vchan_T_M with the receiver as first parameter, and every
// call x.M(a) into vchan_T_M(x, a). definedChan returns T's name when t is
// (a pointer to) a defined type whose underlying type is a channel.
func definedChan(t types.Type) (name string, ptr bool, ok bool) {
	if p, isPtr := t.(*types.Pointer); isPtr {
		t, ptr = p.Elem(), true
	}
	named, isNamed := t.(*types.Named)
	if !isNamed {
		return "", false, false
	}
	if _, isChan := named.Underlying().(*types.Chan); !isChan {
		return "", false, false
	}
	return named.Obj().Name(), ptr, true
}

func chanMethodName(typ, method string) string {
	if ast.IsExported(method) && ast.IsExported(typ) {
		return "Vchan_" + typ + "_" + method // callable from other packages, as the method was
	}
	return "vchan_" + typ + "_" + method
}

// rewriteChanMethodDecl turns `func (b T) M(args)` into `func vchan_T_M(b T, args)`.
func (rw *rewriter) rewriteChanMethodDecl(fd *ast.FuncDecl) {
	if fd.Recv == nil || len(fd.Recv.List) != 1 {
		return
	}
	tv, ok := rw.info.Types[fd.Recv.List[0].Type]
	if !ok {
		return
	}
	name, _, ok := definedChan(tv.Type)
	if !ok {
		return
	}
	recv := fd.Recv.List[0]
	if len(recv.Names) == 0 {
		recv.Names = []*ast.Ident{ast.NewIdent("_")}
	}
	fd.Type.Params.List = append([]*ast.Field{recv}, fd.Type.Params.List...)
	fd.Recv = nil
	fd.Name = ast.NewIdent(chanMethodName(name, fd.Name.Name))
}

// chanMethodCall reports the replacement of a call x.M(...) on a defined channel type.
func (rw *rewriter) chanMethodCall(n *ast.CallExpr) (fun ast.Expr, recv ast.Expr, ok bool) {
	sel, isSel := n.Fun.(*ast.SelectorExpr)
	if !isSel {
		return nil, nil, false
	}
	s, found := rw.info.Selections[sel]
	if !found || s.Kind() != types.MethodVal {
		return nil, nil, false
	}
	fn, isFn := s.Obj().(*types.Func)
	if !isFn {
		return nil, nil, false
	}
	sig := fn.Type().(*types.Signature)
	if sig.Recv() == nil {
		return nil, nil, false
	}
	name, wantPtr, isChan := definedChan(sig.Recv().Type())
	if !isChan {
		return nil, nil, false
	}
	recv = sel.X
	_, havePtr := s.Recv().(*types.Pointer)
	switch {
	case wantPtr && !havePtr:
		recv = &ast.UnaryExpr{Op: token.AND, X: recv}
	case !wantPtr && havePtr:
		recv = &ast.StarExpr{X: recv}
	}
	fun = ast.NewIdent(chanMethodName(name, fn.Name()))
	if fn.Pkg() != nil && fn.Pkg().Path() != rw.pkg.PkgPath {
		// a method of another package's channel type: qualify with the name
		// this file imports that package under
		local := fn.Pkg().Name()
		for _, imp := range rw.file.Imports {
			if strings.Trim(imp.Path.Value, `"`) == fn.Pkg().Path() && imp.Name != nil {
				local = imp.Name.Name
			}
		}
		fun = &ast.SelectorExpr{X: ast.NewIdent(local), Sel: ast.NewIdent(chanMethodName(name, fn.Name()))}
	}
	return fun, recv, true
}

func (rw *rewriter) isChanType(e ast.Expr) bool {
	tv, ok := rw.info.Types[e]
	if !ok || !tv.IsType() {
		return false
	}
	_, ok = tv.Type.Underlying().(*types.Chan)
	return ok
}

func (rw *rewriter) post(c *astutil.Cursor) bool {
	switch n := c.Node().(type) {
	case *ast.ChanType:
		c.Replace(&ast.StarExpr{X: &ast.IndexExpr{X: rw.vrt("Chan"), Index: n.Value}})
	case *ast.SendStmt:
		if rw.skip[n] {
			return true
		}
		c.Replace(&ast.ExprStmt{X: method(n.Chan, "Send", n.Value)})
	case *ast.UnaryExpr:
		if n.Op != token.ARROW || rw.skip[n] {
			return true
		}
		rw.usedVrt = true
		if rw.recv2[n] {
			c.Replace(method(n.X, "Recv2"))
		} else {
			c.Replace(method(n.X, "Recv"))
		}
	case *ast.FuncDecl:
		rw.rewriteChanMethodDecl(n)
	case *ast.CallExpr:
		if fun, recv, ok := rw.chanMethodCall(n); ok {
			n.Fun = fun
			n.Args = append([]ast.Expr{recv}, n.Args...)
			return true
		}
		switch {
		case rw.makeChan[n]:
			// Args[0] has already been rewritten to *vrt.Chan[T]
			st, ok := unparen(n.Args[0]).(*ast.StarExpr)
			if !ok {
				rw.fail(n, "internal: make(chan) argument not rewritten")
				return true
			}
			elem := st.X.(*ast.IndexExpr).Index
			c.Replace(&ast.CallExpr{Fun: &ast.IndexExpr{X: rw.vrt("MakeChan"), Index: elem}, Args: n.Args[1:]})
		case rw.closeCh[n]:
			c.Replace(method(n.Args[0], "Close"))
		case rw.lenCap[n] != "":
			name := "Len"
			if rw.lenCap[n] == "cap" {
				name = "Cap"
			}
			c.Replace(&ast.CallExpr{Fun: rw.vrt(name), Args: n.Args})
		case rw.doneCall[n]:
			c.Replace(&ast.CallExpr{Fun: rw.vrt("FromDone"), Args: []ast.Expr{n}})
			delete(rw.doneCall, n)
		}
	case *ast.GoStmt:
		c.Replace(rw.rewriteGo(n))
	case *ast.RangeStmt:
		if rw.rangeCh[n] {
			c.Replace(rw.rewriteRangeChan(n))
		} else if rw.rangeMap[n] {
			c.Replace(rw.rewriteRangeMap(n))
		}
	case *ast.SelectStmt:
		c.Replace(rw.rewriteSelect(n))
	}
	return true
}

func (rw *rewriter) rewriteGo(n *ast.GoStmt) ast.Stmt {
	var lhs, rhs []ast.Expr
	call := &ast.CallExpr{Ellipsis: n.Call.Ellipsis}
	if _, ok := unparen(n.Call.Fun).(*ast.FuncLit); ok {
		call.Fun = &ast.ParenExpr{X: n.Call.Fun}
	} else {
		f := rw.fresh("f")
		lhs = append(lhs, ast.NewIdent(f))
		rhs = append(rhs, n.Call.Fun)
		call.Fun = ast.NewIdent(f)
	}
	consts := rw.goConst[n]
	for i, a := range n.Call.Args {
		if i < len(consts) && consts[i] {
			call.Args = append(call.Args, a)
			continue
		}
		v := rw.fresh("a")
		lhs = append(lhs, ast.NewIdent(v))
		rhs = append(rhs, a)
		call.Args = append(call.Args, ast.NewIdent(v))
	}
	if call.Ellipsis != token.NoPos {
		call.Ellipsis = 1 // any valid position: the printer only checks IsValid
	}
	spawn := &ast.ExprStmt{X: &ast.CallExpr{
		Fun: rw.vrt("Go"),
		Args: []ast.Expr{&ast.FuncLit{
			Type: &ast.FuncType{Params: &ast.FieldList{}},
			Body: &ast.BlockStmt{List: []ast.Stmt{&ast.ExprStmt{X: call}}},
		}},
	}}
	if len(lhs) == 0 {
		return spawn
	}
	return &ast.BlockStmt{List: []ast.Stmt{
		&ast.AssignStmt{Lhs: lhs, Tok: token.DEFINE, Rhs: rhs},
		spawn,
	}}
}

func (rw *rewriter) rewriteRangeChan(n *ast.RangeStmt) ast.Stmt {
	if n.Value != nil {
		rw.fail(n, "range over channel with two variables")
	}
	ok := rw.fresh("ok")
	chExpr := n.X
	var pre []ast.Stmt
	if !simpleExpr(chExpr) {
		if rw.labeled[n] {
			rw.fail(n, "labeled range over a non-trivial channel expression")
		}
		tmp := rw.fresh("ch")
		pre = append(pre, &ast.AssignStmt{Lhs: []ast.Expr{ast.NewIdent(tmp)}, Tok: token.DEFINE, Rhs: []ast.Expr{chExpr}})
		chExpr = ast.NewIdent(tmp)
	}
	var head []ast.Stmt
	recv := method(chExpr, "Recv2")
	key := n.Key
	if key == nil {
		key = ast.NewIdent("_")
	}
	if id, isID := key.(*ast.Ident); isID && id.Name != "_" && n.Tok == token.DEFINE && rw.sharedLoopVar && !rw.labeled[n] {
		// `for x := range ch` in a module before go 1.22: x is one variable for the
		// whole loop (a goroutine started in the body and running later sees the NEXT
		// element). x, ok := ch.Recv2(); for ; ok; x, ok = ch.Recv2() { body }
		first := &ast.AssignStmt{Lhs: []ast.Expr{key, ast.NewIdent(ok)}, Tok: token.DEFINE, Rhs: []ast.Expr{recv}}
		next := &ast.AssignStmt{Lhs: []ast.Expr{ast.NewIdent(id.Name), ast.NewIdent(ok)}, Tok: token.ASSIGN, Rhs: []ast.Expr{method(chExpr, "Recv2")}}
		loop := &ast.ForStmt{Cond: ast.NewIdent(ok), Post: next, Body: &ast.BlockStmt{List: []ast.Stmt{n.Body}}}
		return &ast.BlockStmt{List: append(append(pre, first), loop)}
	}
	if n.Tok == token.ASSIGN {
		head = append(head,
			&ast.DeclStmt{Decl: &ast.GenDecl{Tok: token.VAR, Specs: []ast.Spec{&ast.ValueSpec{Names: []*ast.Ident{ast.NewIdent(ok)}, Type: ast.NewIdent("bool")}}}},
			&ast.AssignStmt{Lhs: []ast.Expr{key, ast.NewIdent(ok)}, Tok: token.ASSIGN, Rhs: []ast.Expr{recv}})
	} else {
		head = append(head, &ast.AssignStmt{Lhs: []ast.Expr{key, ast.NewIdent(ok)}, Tok: token.DEFINE, Rhs: []ast.Expr{recv}})
	}
	head = append(head, &ast.IfStmt{
		Cond: &ast.UnaryExpr{Op: token.NOT, X: ast.NewIdent(ok)},
		Body: &ast.BlockStmt{List: []ast.Stmt{&ast.BranchStmt{Tok: token.BREAK}}},
	})
	// the original body keeps its own scope so that it may shadow the key
	loop := &ast.ForStmt{Body: &ast.BlockStmt{List: append(head, n.Body)}}
	if len(pre) == 0 {
		return loop
	}
	return &ast.BlockStmt{List: append(pre, loop)}
}

func (rw *rewriter) rewriteRangeMap(n *ast.RangeStmt) ast.Stmt {
	mExpr := n.X
	keysFn := "SortedKeys"
	if rw.rangeStable[n] {
		keysFn = "StableKeys"
	}
	var pre []ast.Stmt
	if !simpleExpr(mExpr) {
		if rw.labeled[n] {
			rw.fail(n, "labeled range over a non-trivial map expression")
		}
		tmp := rw.fresh("m")
		pre = append(pre, &ast.AssignStmt{Lhs: []ast.Expr{ast.NewIdent(tmp)}, Tok: token.DEFINE, Rhs: []ast.Expr{mExpr}})
		mExpr = ast.NewIdent(tmp)
	}
	isBlank := func(e ast.Expr) bool {
		if e == nil {
			return true
		}
		id, ok := e.(*ast.Ident)
		return ok && id.Name == "_"
	}
	keyName := rw.fresh("k")
	var head []ast.Stmt
	okName := rw.fresh("ok")
	if n.Tok == token.ASSIGN {
		// for k, v = range m: the loop variables exist already
		valName := rw.fresh("v")
		head = append(head,
			&ast.AssignStmt{Lhs: []ast.Expr{ast.NewIdent(valName), ast.NewIdent(okName)}, Tok: token.DEFINE,
				Rhs: []ast.Expr{&ast.IndexExpr{X: operand(mExpr), Index: ast.NewIdent(keyName)}}},
			&ast.IfStmt{Cond: &ast.UnaryExpr{Op: token.NOT, X: ast.NewIdent(okName)},
				Body: &ast.BlockStmt{List: []ast.Stmt{&ast.BranchStmt{Tok: token.CONTINUE}}}},
			&ast.AssignStmt{Lhs: []ast.Expr{ast.NewIdent("_")}, Tok: token.ASSIGN, Rhs: []ast.Expr{ast.NewIdent(valName)}},
		)
		if !isBlank(n.Key) {
			head = append(head, &ast.AssignStmt{Lhs: []ast.Expr{n.Key}, Tok: token.ASSIGN, Rhs: []ast.Expr{ast.NewIdent(keyName)}})
		}
		if !isBlank(n.Value) {
			head = append(head, &ast.AssignStmt{Lhs: []ast.Expr{n.Value}, Tok: token.ASSIGN, Rhs: []ast.Expr{ast.NewIdent(valName)}})
		}
	} else if rw.sharedLoopVar && !rw.labeled[n] && (!isBlank(n.Key) || !isBlank(n.Value)) {
		// `for k, v := range m` in a module before go 1.22: k and v are one pair of
		// variables for the whole loop. They are declared in front of the loop (typed
		// zero values from vrt.ZeroKV) and assigned in every iteration.
		kv := []ast.Expr{ast.NewIdent("_"), ast.NewIdent("_")}
		if !isBlank(n.Key) {
			kv[0] = n.Key
		}
		if !isBlank(n.Value) {
			kv[1] = n.Value
		}
		pre = append(pre, &ast.AssignStmt{Lhs: kv, Tok: token.DEFINE, Rhs: []ast.Expr{&ast.CallExpr{Fun: rw.vrt("ZeroKV"), Args: []ast.Expr{mExpr}}}})
		valLhs := ast.Expr(ast.NewIdent("_"))
		if !isBlank(n.Value) {
			valLhs = ast.NewIdent(n.Value.(*ast.Ident).Name)
		}
		head = append(head,
			&ast.DeclStmt{Decl: &ast.GenDecl{Tok: token.VAR, Specs: []ast.Spec{&ast.ValueSpec{Names: []*ast.Ident{ast.NewIdent(okName)}, Type: ast.NewIdent("bool")}}}},
			&ast.AssignStmt{Lhs: []ast.Expr{valLhs, ast.NewIdent(okName)}, Tok: token.ASSIGN,
				Rhs: []ast.Expr{&ast.IndexExpr{X: operand(mExpr), Index: ast.NewIdent(keyName)}}},
			&ast.IfStmt{Cond: &ast.UnaryExpr{Op: token.NOT, X: ast.NewIdent(okName)},
				Body: &ast.BlockStmt{List: []ast.Stmt{&ast.BranchStmt{Tok: token.CONTINUE}}}},
		)
		if !isBlank(n.Key) {
			head = append(head, &ast.AssignStmt{Lhs: []ast.Expr{ast.NewIdent(n.Key.(*ast.Ident).Name)}, Tok: token.ASSIGN, Rhs: []ast.Expr{ast.NewIdent(keyName)}})
		}
	} else {
		valLhs := ast.Expr(ast.NewIdent("_"))
		if !isBlank(n.Value) {
			valLhs = n.Value
		}
		// skip keys deleted during the iteration, as Go does
		head = append(head,
			&ast.AssignStmt{Lhs: []ast.Expr{valLhs, ast.NewIdent(okName)}, Tok: token.DEFINE,
				Rhs: []ast.Expr{&ast.IndexExpr{X: operand(mExpr), Index: ast.NewIdent(keyName)}}},
			&ast.IfStmt{Cond: &ast.UnaryExpr{Op: token.NOT, X: ast.NewIdent(okName)},
				Body: &ast.BlockStmt{List: []ast.Stmt{&ast.BranchStmt{Tok: token.CONTINUE}}}},
		)
		if !isBlank(n.Key) {
			head = append(head, &ast.AssignStmt{Lhs: []ast.Expr{n.Key}, Tok: token.DEFINE, Rhs: []ast.Expr{ast.NewIdent(keyName)}},
				&ast.AssignStmt{Lhs: []ast.Expr{ast.NewIdent("_")}, Tok: token.ASSIGN, Rhs: []ast.Expr{n.Key}})
		}
	}
	loop := &ast.RangeStmt{
		Key:   ast.NewIdent("_"),
		Value: ast.NewIdent(keyName),
		Tok:   token.DEFINE,
		X:     &ast.CallExpr{Fun: rw.vrt(keysFn), Args: []ast.Expr{mExpr}},
		Body:  &ast.BlockStmt{List: append(head, n.Body)},
	}
	if len(pre) == 0 {
		return loop
	}
	return &ast.BlockStmt{List: append(pre, loop)}
}

func (rw *rewriter) rewriteSelect(n *ast.SelectStmt) ast.Stmt {
	si := rw.sels[n]
	if rw.labeled[n] {
		rw.fail(n, "labeled select is not supported")
	}
	var stmts []ast.Stmt
	var caseVars []ast.Expr
	hasDefault := false
	sw := &ast.SwitchStmt{Body: &ast.BlockStmt{}}
	idx := 0
	for _, ci := range si.clauses {
		if ci.deflt {
			hasDefault = true
			sw.Body.List = append(sw.Body.List, &ast.CaseClause{List: nil, Body: ci.clause.Body})
			continue
		}
		cv := rw.fresh("c")
		var ctor ast.Expr
		var body []ast.Stmt
		if ci.isSend {
			ctor = method(ci.send.Chan, "SendCase", ci.send.Value)
		} else {
			ctor = method(ci.recv.X, "RecvCase")
			if len(ci.lhs) > 0 {
				rhs := []ast.Expr{&ast.SelectorExpr{X: ast.NewIdent(cv), Sel: ast.NewIdent("V")}}
				if len(ci.lhs) == 2 {
					rhs = append(rhs, &ast.SelectorExpr{X: ast.NewIdent(cv), Sel: ast.NewIdent("Ok")})
				}
				body = append(body, &ast.AssignStmt{Lhs: ci.lhs, Tok: ci.tok, Rhs: rhs})
			}
		}
		stmts = append(stmts, &ast.AssignStmt{Lhs: []ast.Expr{ast.NewIdent(cv)}, Tok: token.DEFINE, Rhs: []ast.Expr{ctor}})
		caseVars = append(caseVars, ast.NewIdent(cv))
		body = append(body, ci.clause.Body...)
		sw.Body.List = append(sw.Body.List, &ast.CaseClause{
			List: []ast.Expr{&ast.BasicLit{Kind: token.INT, Value: strconv.Itoa(idx)}},
			Body: body,
		})
		idx++
	}
	hd := "false"
	if hasDefault {
		hd = "true"
	} else {
		// keeps the statement terminating when every branch is
		sw.Body.List = append(sw.Body.List, &ast.CaseClause{List: nil, Body: []ast.Stmt{
			&ast.ExprStmt{X: &ast.CallExpr{Fun: ast.NewIdent("panic"), Args: []ast.Expr{&ast.BasicLit{Kind: token.STRING, Value: strconv.Quote("vrt: select returned an unknown case")}}}},
		}})
	}
	sw.Tag = &ast.CallExpr{Fun: rw.vrt("Select"), Args: append([]ast.Expr{ast.NewIdent(hd)}, caseVars...)}
	stmts = append(stmts, sw)
	return &ast.BlockStmt{List: stmts}
}

// insertHits (development aid, -cov) puts an execution counter at the start of
// every block and clause that comes from the original source, so that
// tools/coverage.sh can list the code no scenario of a property ever runs.
func (rw *rewriter) insertHits() {
	rel := rw.path[strings.Index(rw.path, "/bus/")+1:]
	fn := ""
	hit := func(pos token.Pos, what string) ast.Stmt {
		id := fmt.Sprintf("%s:%d %s %s", rel, rw.fset.Position(pos).Line, fn, what)
		covSites = append(covSites, id)
		return &ast.ExprStmt{X: &ast.CallExpr{Fun: rw.vrt("Hit"), Args: []ast.Expr{&ast.BasicLit{Kind: token.STRING, Value: strconv.Quote(id)}}}}
	}
	skip := map[*ast.BlockStmt]bool{}
	ast.Inspect(rw.file, func(n ast.Node) bool {
		switch x := n.(type) {
		case *ast.FuncDecl:
			fn = x.Name.Name
			if x.Recv != nil && len(x.Recv.List) == 1 {
				var b bytes.Buffer
				printer.Fprint(&b, token.NewFileSet(), x.Recv.List[0].Type)
				fn = "(" + b.String() + ")." + fn
			}
		case *ast.SwitchStmt:
			skip[x.Body] = true
		case *ast.TypeSwitchStmt:
			skip[x.Body] = true
		case *ast.SelectStmt:
			skip[x.Body] = true
		case *ast.BlockStmt:
			if !skip[x] && x.Lbrace.IsValid() && rw.fset.Position(x.Lbrace).Line > 0 {
				x.List = append([]ast.Stmt{hit(x.Lbrace, "block")}, x.List...)
			}
		case *ast.CaseClause:
			if x.Case.IsValid() && rw.fset.Position(x.Case).Line > 0 {
				x.Body = append([]ast.Stmt{hit(x.Case, "case")}, x.Body...)
			}
		case *ast.CommClause:
			if x.Case.IsValid() && rw.fset.Position(x.Case).Line > 0 {
				x.Body = append([]ast.Stmt{hit(x.Case, "select-case")}, x.Body...)
			}
		}
		return true
	})
}

// insertYields puts a fine-grained scheduling point before every statement of
// every function body of the file.
func (rw *rewriter) insertYields() {
	yield := func() ast.Stmt {
		return &ast.ExprStmt{X: &ast.CallExpr{Fun: rw.vrt("FG")}}
	}
	expand := func(list []ast.Stmt) []ast.Stmt {
		var out []ast.Stmt
		for _, s := range list {
			switch s.(type) {
			case *ast.DeclStmt, *ast.EmptyStmt, *ast.CaseClause, *ast.CommClause:
			default:
				out = append(out, yield())
				out = append(out, rw.mapAccesses(s)...)
			}
			out = append(out, s)
		}
		return out
	}
	ast.Inspect(rw.file, func(n ast.Node) bool {
		switch x := n.(type) {
		case *ast.BlockStmt:
			x.List = expand(x.List)
		case *ast.CaseClause:
			x.Body = expand(x.Body)
		case *ast.CommClause:
			x.Body = expand(x.Body)
		}
		return true
	})
}

// mapAccesses returns, for one statement of a statement-level file, calls that
// announce its accesses to Go maps (vrt.MapWrite / vrt.MapRead): the runtime
// reports overlapping accesses the way the Go runtime does ("concurrent map
// writes"). Only side-effect-free map expressions are announced; nested
// blocks and function literals are handled when their own statements are
// visited.
func (rw *rewriter) mapAccesses(s ast.Stmt) []ast.Stmt {
	type acc struct {
		expr  ast.Expr
		write bool
	}
	seen := map[string]*acc{}
	var order []string
	isMap := func(e ast.Expr) bool {
		t := rw.info.TypeOf(e)
		if t == nil {
			return false
		}
		_, ok := t.Underlying().(*types.Map)
		return ok
	}
	note := func(e ast.Expr, write bool) {
		if !simpleExpr(e) || !isMap(e) {
			return
		}
		var b bytes.Buffer
		printer.Fprint(&b, token.NewFileSet(), e)
		k := b.String()
		if a, ok := seen[k]; ok {
			a.write = a.write || write
			return
		}
		seen[k] = &acc{e, write}
		order = append(order, k)
	}
	var visit func(n ast.Node, lhs bool)
	visit = func(n ast.Node, lhs bool) {
		ast.Inspect(n, func(x ast.Node) bool {
			switch y := x.(type) {
			case *ast.FuncLit, *ast.BlockStmt:
				return false
			case *ast.IndexExpr:
				note(y.X, lhs)
				visit(y.Index, false)
				if _, ok := y.X.(*ast.IndexExpr); ok {
					visit(y.X, false)
				}
				return false
			case *ast.CallExpr:
				if id, ok := y.Fun.(*ast.Ident); ok && id.Name == "delete" && len(y.Args) == 2 {
					note(y.Args[0], true)
				}
				if sel, ok := y.Fun.(*ast.SelectorExpr); ok && (sel.Sel.Name == "SortedKeys" || sel.Sel.Name == "StableKeys") && len(y.Args) == 1 {
					note(y.Args[0], false)
				}
			}
			return true
		})
	}
	switch st := s.(type) {
	case *ast.AssignStmt:
		for _, l := range st.Lhs {
			visit(l, true)
		}
		for _, r := range st.Rhs {
			visit(r, false)
		}
	case *ast.IncDecStmt:
		visit(st.X, true)
	case *ast.ExprStmt:
		visit(st.X, false)
	case *ast.ReturnStmt:
		for _, r := range st.Results {
			visit(r, false)
		}
	case *ast.IfStmt:
		if st.Init != nil {
			return rw.mapAccesses(st.Init)
		}
		visit(st.Cond, false)
	case *ast.RangeStmt:
		visit(st.X, false)
		note(st.X, false)
	case *ast.SwitchStmt:
		if st.Tag != nil {
			visit(st.Tag, false)
		}
	}
	var out []ast.Stmt
	for _, k := range order {
		a := seen[k]
		name := "MapRead"
		if a.write {
			name = "MapWrite"
		}
		out = append(out, &ast.ExprStmt{X: &ast.CallExpr{Fun: rw.vrt(name), Args: []ast.Expr{a.expr}}})
	}
	return out
}

var _ = constant.MakeBool
