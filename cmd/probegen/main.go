// probegen generates the stub and proxy of the probe service with the
// repository's own generator, compiled from /repo's current tree.
package main

import (
	"fmt"
	"os"
	"path/filepath"

	"github.com/lugu/qiloop/meta/stub"
)

func main() {
	if len(os.Args) != 3 {
		fmt.Fprintln(os.Stderr, "usage: probegen <idl> <outdir>")
		os.Exit(2)
	}
	stub.GenerateStub(os.Args[1], filepath.Join(os.Args[2], "probe_stub_gen.go"), "")
}
