// vrunner is the worker process of engine B: it is built with the vinstr
// overlay (so the bus packages and the scenarios run on the vrt runtime) and
// explores one scenario, or one shard of it.
package main

import (
	"encoding/json"
	"flag"
	"fmt"
	"io"
	"log"
	"os"
	"time"

	"verif/internal/explore"
	"verif/rt/vrt"
	"verif/scenarios/reg"

	_ "verif/scenarios/all"
)

func main() {
	property := flag.String("property", "", "property id")
	name := flag.String("scenario", "", "scenario name")
	bound := flag.Int("bound", 1, "deviation bound")
	shard := flag.Int("shard", 0, "shard index")
	shards := flag.Int("shards", 1, "number of shards")
	deadline := flag.Float64("deadline", 0, "seconds before the exploration stops (0: none)")
	bonus := flag.Int("bonus", 0, "further levels beyond the bound explored until the bonus deadline")
	bonusDeadline := flag.Float64("bonus-deadline", 0, "seconds before the bonus levels stop")
	validate := flag.Int("validate", 0, "replay every n-th execution twice")
	replay := flag.String("replay", "", "replay file")
	list := flag.Bool("list", false, "list the scenarios of the property as JSON")
	verbose := flag.Bool("v", false, "keep library log output")
	flag.Parse()
	if !*verbose {
		log.SetOutput(io.Discard)
	}
	if *list {
		type item struct {
			Name            string
			Quick, Thorough int
			Doc             string
			MustFlag        []string
		}
		var items []item
		for _, s := range reg.For(*property) {
			items = append(items, item{s.Name, s.Quick, s.Thorough, s.Doc, s.MustFlag})
		}
		json.NewEncoder(os.Stdout).Encode(items)
		return
	}
	if *replay != "" {
		data, err := os.ReadFile(*replay)
		if err != nil {
			fmt.Fprintln(os.Stderr, err)
			os.Exit(2)
		}
		var rf struct {
			Property string           `json:"property"`
			Scenario string           `json:"scenario"`
			Schedule explore.Schedule `json:"schedule"`
		}
		if err := json.Unmarshal(data, &rf); err != nil {
			fmt.Fprintln(os.Stderr, err)
			os.Exit(2)
		}
		sc := reg.Find(rf.Property, rf.Scenario)
		if sc == nil {
			fmt.Fprintln(os.Stderr, "unknown scenario", rf.Property, rf.Scenario)
			os.Exit(2)
		}
		r := explore.Replay(sc.Body, rf.Schedule, sc.MaxSteps)
		for _, l := range r.Log {
			fmt.Println(l)
		}
		fmt.Printf("end=%s outcome=%q\n", r.End, r.Outcome)
		if r.Crash != nil {
			fmt.Printf("crash in %s: %s\n%s\n", r.Crash.Thread, r.Crash.Value, r.Crash.Stack)
		}
		for _, b := range r.Blocked {
			fmt.Printf("blocked: %+v\n", b)
		}
		for _, f := range r.Failures {
			fmt.Printf("FAIL %s: %s\n", f.Clause, f.Detail)
		}
		if len(r.Failures) > 0 || r.End == "crash" || r.End == "deadlock" {
			os.Exit(1)
		}
		return
	}
	sc := reg.Find(*property, *name)
	if sc == nil {
		fmt.Fprintln(os.Stderr, "unknown scenario", *property, *name)
		os.Exit(2)
	}
	cfg := explore.Config{Bound: *bound, Shard: *shard, Shards: *shards, ValidateEvery: *validate,
		MaxSteps: sc.MaxSteps, ExpectCrash: sc.ExpectCrash, StepLimitFails: sc.StepLimitFails, MaxViolations: 40}
	if *deadline > 0 {
		cfg.Deadline = time.Now().Add(time.Duration(*deadline * float64(time.Second)))
	}
	if *bonus > 0 && *bonusDeadline > 0 {
		cfg.Bonus = *bonus
		cfg.BonusDeadline = time.Now().Add(time.Duration(*bonusDeadline * float64(time.Second)))
		if !cfg.Deadline.IsZero() && cfg.BonusDeadline.After(cfg.Deadline) {
			cfg.BonusDeadline = cfg.Deadline
		}
	}
	st := explore.Explore(sc.Body, cfg)
	vrt.DumpHits(os.Getenv("VERIF_COVDIR"))
	os.Stdout.Write(st.JSON())
}
