#!/bin/bash
# usage: tools/coverage.sh <property> [tier] [file-substring...]
# Development aid (not a check): runs an engine-B property with block counters inserted by `vinstr -cov`
# and lists the blocks of the repository's bus packages that no scenario of the property executed.
# A state the harnesses never build shows here first (DESIGN.md 9.5).
prop="$1"; tier="${2:-quick}"; shift; shift
cd /verif
d=$(mktemp -d /tmp/vcov.XXXXXX)
VERIF_COVDIR=$d ./check.sh "$prop" "$tier" > $d/log 2>&1
echo "check exit=$? violations=$(grep -c '^VIOLATION' $d/log)"
cat $d/hits-*.txt 2>/dev/null | cut -f2 | sort -u > $d/hit.txt
sort -u $d/sites.txt > $d/all.txt
echo "sites=$(wc -l < $d/all.txt) executed=$(wc -l < $d/hit.txt)"
if [ $# -eq 0 ]; then set -- "bus/"; fi
for f in "$@"; do comm -23 $d/all.txt $d/hit.txt | grep "$f" | sort -t: -k1,1 -k2,2n; done
rm -rf $d
