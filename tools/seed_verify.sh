#!/bin/bash
# usage: seed_verify.sh <seed dir with patch.diff and demo/> <package dir for the demo, e.g. bus/net> <test regex>
# Confirms in a scratch worktree: suite passes with the change, demo fails with it, demo passes without it.
set -u
seed="$1"; pkg="$2"; rx="$3"
export GOPROXY=off GOSUMDB=off GOTOOLCHAIN=local
wt=/tmp/wt/verify-$$; base="${4:-HEAD}"
git -C /repo worktree add -q "$wt" "$base" || exit 2
cd "$wt" || exit 2
cp "$seed"/demo/*.go "$pkg"/
res_without=$(go test -mod=mod -vet=off -count=1 -run "$rx" ./"$pkg"/ 2>&1 | tail -3)
ok_without=$?
echo "$res_without" | grep -q "^ok" && ok_without=pass || ok_without=FAIL
rm -f $(cd "$seed"/demo && ls *.go | sed "s#^#$pkg/#")
git checkout -q -- . ; git clean -fdq
git apply "$seed"/patch.diff || { echo "PATCH DOES NOT APPLY"; cd /; git -C /repo worktree remove --force "$wt"; exit 1; }
suite=$(go test -mod=mod -vet=off -count=1 ./... 2>&1 | grep -v "no test files" | grep -v "^ok" | head -5)
[ -z "$suite" ] && suite_ok=pass || suite_ok="FAIL: $suite"
cp "$seed"/demo/*.go "$pkg"/
res_with=$(go test -mod=mod -vet=off -count=1 -run "$rx" ./"$pkg"/ 2>&1 | tail -3)
echo "$res_with" | grep -q "^ok" && ok_with=pass || ok_with=fail
echo "seed=$seed demo_without_change=$ok_without suite_with_change=$suite_ok demo_with_change=$ok_with"
cd /; git -C /repo worktree remove --force "$wt"
