#!/usr/bin/env python3
"""usage: seed_archive.py <seed-id> <srcdir> <property> <caught-by> <needs...>"""
import sys, os, shutil, json, re
sid, src, prop, caught = sys.argv[1:5]
needs = " ".join(sys.argv[5:])
dst = os.path.join('/verif/seeded', sid)
os.makedirs(dst, exist_ok=True)
shutil.copy(os.path.join(src, 'patch.diff'), dst)
if os.path.isdir(os.path.join(dst, 'demo')):
    shutil.rmtree(os.path.join(dst, 'demo'))
shutil.copytree(os.path.join(src, 'demo'), os.path.join(dst, 'demo'))
if os.path.exists(os.path.join(src, 'NOTES.md')):
    shutil.copy(os.path.join(src, 'NOTES.md'), dst)
files = re.findall(r'^\+\+\+ b/(\S+)', open(os.path.join(src, 'patch.diff')).read(), re.M)
meta = {
  "id": sid, "breaks_property": prop, "files_changed": files,
  "needs_to_manifest": needs,
  "origin": "independent sub-agent given only the property text and a scratch worktree",
  "confirmed": {
    "how": "tools/seed_verify.sh in a scratch worktree of /repo: demo passes on HEAD, full suite (go test -mod=mod -vet=off -count=1 ./...) passes with the change, demo fails with the change",
    "suite_with_change": "pass", "demo_with_change": "fail", "demo_without_change": "pass"},
  "detection": {"command": "tools/seed_run.sh seeded/%s/patch.diff <property> (git apply to /repo, ./check.sh <property> quick, git checkout)" % sid,
                "caught_by": caught},
}
json.dump(meta, open(os.path.join(dst, 'meta.json'), 'w'), indent=1)
print("archived", dst)
