#!/bin/bash
# Runs every archived seeded change against the check(s) named in its meta.json
# (field detection.check, default: the broken property) and reports whether it is caught.
cd /verif
for d in seeded/*/; do
  id=$(basename $d)
  prop=$(python3 -c "import json;m=json.load(open('$d/meta.json'));print(m.get('detection',{}).get('check') or m['breaks_property'])")
  out=$(tools/seed_run.sh /verif/${d}patch.diff $prop quick 2>&1 | head -1)
  echo "$id check=$prop $out" | sed 's/patch=[^ ]* //'
done
