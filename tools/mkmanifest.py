#!/usr/bin/env python3
"""Regenerates /verif/MANIFEST.json from the table below (keeps it valid)."""
import json, os, sys
ROOT = os.path.dirname(os.path.dirname(os.path.abspath(__file__)))
props = [json.loads(l) for l in open(os.path.join(ROOT, 'properties.jsonl'))]

B = "stateless model checking of the implementation (controlled scheduler over the real bus code, deviation-bounded depth-first search)"
A = "bounded-exhaustive enumeration of a closed small-scope input universe against an independent reference model"

checks = {
 # id: (engine, category, text, note, technique, design_ref)
 "C10": ("engine-B", "model_checking",
   "all interleavings with at most k deviations of 2-3 goroutines calling EndPoint.Send on one real endpoint, with and without read fragmentation, four handler filters on the receiving endpoint, concurrent handler registration, frames already waiting while EndPointFinalizer builds the endpoint, a frame of exactly MaxPayloadSize bytes, senders after sends that failed on other connections of the process, twelve handlers on the receiving endpoint (table beyond its 10 initial slots), senders mixing message types (event, post, reply, call, error, capability), an AddHandler consumer with a backlog when the handler ends by Close / peer close / RemoveHandler, two senders through the library's own stream wrapper against a reader that starts late (a write deadline, if the code sets one, may expire mid-buffer), RemoveHandler + MakeHandler re-using a slot while frames selected by the old handler are dispatched; every frame carries a non-zero flags byte; every execution checked for intact frames, exactly-once delivery, per-sender order, per-filter subsequence and a single arrival order",
   "one in-memory stream with the net.Conn contract (atomic Write) stands for the five transports; the kernel/TLS transports themselves are not model-checked",
   B, "DESIGN.md section 4, C10"),
 "C11": ("engine-B", "model_checking",
   "for every I/O operation index of the client stream x 8 fault kinds (read error, EOF, data+EOF, corrupted header, short write, peer close, local close, a sticky timeout-class net.Error whose Temporary() is true - not coming to rest is a violation) - enumerated exhaustively as free choice points - and every schedule with at most k deviations: all calls return, own reply or error, a reply read before the failure reaches its caller, later calls fail, subscription channels closed, disconnect callbacks exactly once; a write stalled on a finite send buffer at close time; a subscription cancelled during the loss; fourteen handlers at the moment of the loss; a subscription whose queue is flooded at the moment of the loss; Server.Terminate with a socket client and an in-process client (Server.Client()) each holding a call in flight, a subscription and a disconnect callback",
   "faults are injected through the public net.Stream interface of an in-memory stream; time is logical (bounded time = before quiescence)",
   B + " + exhaustive fault-point enumeration", "DESIGN.md section 4, C11"),
 "C17": ("engine-B", "model_checking",
   "all schedules with at most k deviations of eighteen closed harnesses around one real net.EndPoint (register / remove / every filter answer including self-removal with and without consuming / full queues / incoming frames / Close / peer close mid-frame / blocked error reply / AddHandler's callback consumer / a transport whose Close reports an error or that was closed underneath / Close inside the finalizer / frames that no handler selects, incl. Error frames with non-string payloads / a table grown to 11..14 handlers, partly emptied, then shut down); monitors in the closer and the queue reader check closer-once-then-queue-closed-once, no message after close, removal results, identifier reuse",
   "trusts the vrt model of mutexes and channels and the in-memory stream; bounded by deviation count",
   B, "DESIGN.md section 4, C17"),
}

def entry(pid):
    eng, cat, text, note, tech, ref = checks[pid]
    return {
        "property_id": pid,
        "quick_cmd": "./check.sh %s quick" % pid,
        "thorough_cmd": "./check.sh %s thorough" % pid,
        "evidence_file": "/verif/evidence/%s.json" % pid,
        "replay_cmd_template": "./check.sh %s quick --replay {path}" % pid,
        "engine": eng,
        "level_claimed": {"category": cat, "text": text, "design_ref": ref},
        "level_note": note,
        "technique": tech,
    }

# optional extra table maintained in tools/manifest_extra.json (engine-A checks etc.)
extra_path = os.path.join(ROOT, 'tools', 'manifest_extra.json')
if os.path.exists(extra_path):
    for k, v in json.load(open(extra_path)).items():
        checks[k] = tuple(v)

na_reasons = {}
na_path = os.path.join(ROOT, 'tools', 'not_applicable.json')
if os.path.exists(na_path):
    na_reasons = json.load(open(na_path))

m = {
 "version": 1,
 "setup_cmd": "./setup.sh",
 "hooks": {
  "guard": "verif",
  "enable": "no source hooks: cmd/vinstr rewrites the bus packages out of tree from /repo's current working tree and the checks build with `go build -overlay`; /repo is never modified by a check",
  "baseline_off_cmd": "cd /repo && GOPROXY=off GOSUMDB=off GOTOOLCHAIN=local go test -mod=mod -vet=off -count=1 ./... ; rc=$?; git -C /repo checkout -- go.mod go.sum; exit $rc",
  "source_commits": [],
  "add_only": True,
 },
 "engines": [
  {"name": "engine-A", "path": "checks/ internal/refmodel internal/enum internal/sigen internal/report",
   "serves_properties": sorted(k for k, v in checks.items() if v[0] == "engine-A"),
   "kind_free_text": "bounded-exhaustive sequential explorer: closed small-scope universes (signatures, boundary values, fragmentations, cut positions, mutations, token strings) enumerated completely against independent reference models"},
  {"name": "engine-B", "path": "rt/ cmd/vinstr internal/explore cmd/vrunner cmd/vcheck scenarios/",
   "serves_properties": sorted(k for k, v in checks.items() if v[0] == "engine-B"),
   "kind_free_text": "stateless model checker for Go written for this task: AST rewriter (sync/chan/select/go/time/rand/net -> controlled runtime, via go build -overlay), cooperative scheduler, DFS over choice lists with iterative deviation bounding, exhaustive free choice points for fault positions, 16-way process sharding, determinism validation by double replay"},
 ],
 "checks": [entry(p["id"]) for p in props if p["id"] in checks],
 "not_applicable": [{"property_id": p["id"], "reason": na_reasons.get(p["id"], "check not built yet (work in progress, see DESIGN.md)")}
                    for p in props if p["id"] not in checks],
 "notes": "known genuine defects are listed in known-findings.txt (finding:/fixed: lines); replays are written under replays/<id>/",
}
json.dump(m, open(os.path.join(ROOT, 'MANIFEST.json'), 'w'), indent=1)
print("claimed:", [c["property_id"] for c in m["checks"]])
