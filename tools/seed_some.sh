#!/bin/bash
# usage: seed_some.sh <property>...   re-runs the archived seeds of the listed properties (quick tier, bonus off)
cd "$(dirname "$0")/.."
for p in "$@"; do
  for d in seeded/$p-*/; do
    id=$(basename $d)
    prop=$(python3 -c "import json;m=json.load(open('$d/meta.json'));print(m.get('detection',{}).get('check') or m['breaks_property'])")
    out=$(tools/seed_run.sh $(pwd)/${d}patch.diff $prop quick 2>&1 | head -1)
    echo "$id check=$prop $out" | sed 's/patch=[^ ]* //'
  done
done
