#!/bin/bash
# usage: benign_run.sh <patch.diff> <property>...
# Runs the quick checks of the listed properties against a scratch worktree of /repo's HEAD
# with a BEHAVIOUR-PRESERVING change applied. Any VIOLATION or ENGINE-ERROR line is a false
# alarm of the machinery (to be corrected), unless the change turns out not to be benign.
patch="$1"; shift
cd /verif
wt=/tmp/wt/benign-$$
git -C /repo worktree add -q "$wt" HEAD || exit 2
( cd "$wt" && git apply "$patch" ) || { echo "patch does not apply: $patch"; git -C /repo worktree remove --force "$wt"; exit 2; }
for prop in "$@"; do
  log=/tmp/benign.$$.$prop.log
  cp "evidence/$prop.json" /tmp/benign.$$.ev.json 2>/dev/null
  s=$(date +%s)
  VERIF_REPO="$wt" ./check.sh "$prop" quick > $log 2>&1; rc=$?
  e=$(date +%s)
  mv /tmp/benign.$$.ev.json "evidence/$prop.json" 2>/dev/null
  echo "patch=$patch property=$prop exit=$rc violations=$(grep -c '^VIOLATION' $log) known=$(grep -c '^KNOWN-FINDING' $log) engine=$(grep -c '^ENGINE-ERROR' $log) warnings=$(grep -c '^WARNING' $log) wall=$((e-s))s"
  if [ $rc -ne 0 ]; then
    mkdir -p /tmp/benign-logs; cp $log /tmp/benign-logs/$(basename $(dirname $patch)).$prop.log
    grep -A1 '^VIOLATION' $log | grep -i fingerprint | head -6 | cut -c1-260
    grep '^ENGINE-ERROR' $log | head -3 | cut -c1-300
  fi
  grep '^WARNING' $log | head -3 | cut -c1-200
  rm -f $log
done
git -C /repo worktree remove --force "$wt"
[ -z "$(git -C /repo status --short)" ] || echo "WARNING: /repo not clean"
