#!/bin/bash
# usage: seed_run.sh <patch.diff> <property> [tier]   -- applies the change to /repo, runs the check, reverts.
patch="$1"; prop="$2"; tier="${3:-quick}"
cd /verif
git -C /repo apply "$patch" || { echo "patch does not apply"; exit 2; }
./check.sh "$prop" "$tier" > .work/seedrun.$$.log 2>&1
rc=$?
git -C /repo checkout -- . 
echo "patch=$patch property=$prop tier=$tier exit=$rc violations=$(grep -c '^VIOLATION' .work/seedrun.$$.log) known=$(grep -c '^KNOWN-FINDING' .work/seedrun.$$.log) engine=$(grep -c '^ENGINE-ERROR' .work/seedrun.$$.log)"
grep -A1 '^VIOLATION' .work/seedrun.$$.log | grep fingerprint | head -8
grep '^ENGINE-ERROR' .work/seedrun.$$.log | head -3 | cut -c1-300
rm -f .work/seedrun.$$.log
[ -z "$(git -C /repo status --short)" ] || echo "WARNING: /repo not clean"
