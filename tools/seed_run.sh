#!/bin/bash
# usage: seed_run.sh <patch.diff> <property> [tier]   -- applies the change to /repo, runs the check, reverts.
patch="$1"; prop="$2"; tier="${3:-quick}"
cd /verif
git -C /repo apply "$patch" || { echo "patch does not apply"; exit 2; }
./check.sh "$prop" "$tier" > /tmp/seedrun.$$.log 2>&1
rc=$?
git -C /repo checkout -- . 
echo "patch=$patch property=$prop tier=$tier exit=$rc violations=$(grep -c '^VIOLATION' /tmp/seedrun.$$.log) known=$(grep -c '^KNOWN-FINDING' /tmp/seedrun.$$.log) engine=$(grep -c '^ENGINE-ERROR' /tmp/seedrun.$$.log)"
grep -A1 '^VIOLATION' /tmp/seedrun.$$.log | grep fingerprint | head -8
grep '^ENGINE-ERROR' /tmp/seedrun.$$.log | head -3 | cut -c1-300
rm -f /tmp/seedrun.$$.log
[ -z "$(git -C /repo status --short)" ] || echo "WARNING: /repo not clean"
