#!/bin/bash
# usage: seed_run.sh <patch.diff> <property> [tier]
# Applies the change to a scratch worktree of /repo's HEAD (VERIF_REPO redirects the check there, /repo itself
# is not touched, so background runs are not disturbed), runs the check, removes the worktree.
# SEED_IN_PLACE=1 applies it to /repo itself instead (git apply ... ; check ; git checkout -- .).
patch="$1"; prop="$2"; tier="${3:-quick}"
cd /verif
# seeds are judged on the guaranteed part of the quick tier (requested bounds), not on what the wall-clock dependent bonus levels happen to reach
export VERIF_BONUS_S="${VERIF_BONUS_S:-0}"
log=/tmp/seedrun.$$.log
# the check rewrites evidence/<prop>.json on every run: what a SEEDED tree produced
# must never stay there (the committed evidence comes from /repo itself)
evsave=/tmp/seedrun.$$.evidence.json
cp "evidence/$prop.json" "$evsave" 2>/dev/null
restore_evidence() { [ -f "$evsave" ] && mv "$evsave" "evidence/$prop.json"; }
if [ -n "$SEED_IN_PLACE" ]; then
  git -C /repo apply "$patch" || { echo "patch does not apply"; exit 2; }
  ./check.sh "$prop" "$tier" > $log 2>&1; rc=$?
  git -C /repo checkout -- .
else
  wt=/tmp/wt/seedrun-$$
  git -C /repo worktree add -q "$wt" HEAD || exit 2
  ( cd "$wt" && git apply "$patch" ) || { echo "patch does not apply"; git -C /repo worktree remove --force "$wt"; exit 2; }
  VERIF_REPO="$wt" ./check.sh "$prop" "$tier" > $log 2>&1; rc=$?
  git -C /repo worktree remove --force "$wt"
fi
restore_evidence
echo "patch=$patch property=$prop tier=$tier exit=$rc violations=$(grep -c '^VIOLATION' $log) known=$(grep -c '^KNOWN-FINDING' $log) engine=$(grep -c '^ENGINE-ERROR' $log)"
grep -A1 '^VIOLATION' $log | grep fingerprint | head -8
grep '^ENGINE-ERROR' $log | head -3 | cut -c1-300
rm -f $log
[ -z "$(git -C /repo status --short)" ] || echo "WARNING: /repo not clean"
