#!/bin/sh
# Builds the framework offline and warms the build cache.
cd "$(dirname "$0")" || exit 1
export GOFLAGS=-mod=mod GOPROXY=off GOSUMDB=off GOTOOLCHAIN=local
mkdir -p bin .work evidence
go build -o bin/vcheck ./cmd/vcheck || exit 1
go build -o bin/vinstr ./cmd/vinstr || exit 1
# the probe service's stub/proxy is generated (never committed): produce it with the
# repository's own generator before anything that links the scenarios is built
go build -o bin/probegen ./cmd/probegen || exit 1
bin/probegen scenarios/probe/probe.idl scenarios/probe || exit 1
go build ./cmd/... ./rt/... ./internal/report/... ./internal/explore/... || exit 1
go build ./... 2>/dev/null || true
# C07's race side-pass rebuilds its driver with the race detector on every run: compile the
# instrumented packages once so that the check only has to re-link (the check never uses this binary)
go build -race -o .work/c07-race-warm ./checks/c07 && rm -f .work/c07-race-warm || exit 1
# engine self-tests (interleaving counts, channel/mutex semantics, deadlock and crash detection)
go test ./internal/explore/ || exit 1
echo setup done
